"""Engine B helper: validate an NDJSON trace with TLC against a trace specification (TRACE env, POSTCONDITION on the diameter)."""
import os, re, shutil, subprocess
from lib import vlib

JAVA = ["java", "-Xss1g", "-Xmx4g", "-Dtlc2.tool.queue.IStateQueue=StateDeque", "-cp", vlib.JAR, "tlc2.TLC", "-workers", "1", "-cleanup", "-noGenerateSpecTE"]


def validate(pid, module, cfg, trace_path, tag):
    """returns (accepted, detail, event_kind)"""
    meta = os.path.join(vlib.workdir(pid, "tlc_trace_" + tag), "meta")
    jtmp = os.path.join(vlib.workdir(pid, "tlc_trace_" + tag), "jtmp")
    shutil.rmtree(jtmp, ignore_errors=True)
    os.makedirs(jtmp)
    env = dict(os.environ, TRACE=trace_path)
    p = subprocess.run(JAVA[:1] + ["-Djava.io.tmpdir=" + jtmp] + JAVA[1:] + ["-metadir", meta, "-config", os.path.join(vlib.SPEC, cfg), os.path.join(vlib.SPEC, module + ".tla")],
                       cwd=vlib.SPEC, env=env, stdout=subprocess.PIPE, stderr=subprocess.STDOUT, text=True, timeout=3000)
    out = p.stdout
    shutil.rmtree(jtmp, ignore_errors=True)
    if "Model checking completed. No error has been found." in out:
        return True, "", ""
    m = re.search(r'"TRACE-REJECTED at line",\s*(\d+),\s*(\[.*?\])\s*>>', out, re.S)
    if m:
        rec = re.sub(r"\s+", " ", m.group(2))
        ev = re.search(r'ev \|-> "(\w+)"', rec)
        return False, "rejected at line %s: %s" % (m.group(1), rec[:600]), "rejected:" + (ev.group(1) if ev else "?")
    m = re.search(r"Invariant (\S+) is violated", out)
    if m:
        return False, "invariant %s violated" % m.group(1), "invariant:" + m.group(1)
    raise vlib.ToolError("trace validation did not complete:\n" + out[-1500:])
