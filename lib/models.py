"""Minimal valid dictionaries for the typed models found by tools/extract_models.py (used by C18, C15, C14)."""
import json, os, subprocess, sys

V = os.path.dirname(os.path.dirname(os.path.abspath(__file__)))
BASIC = {"i32": "1", "u32": "1", "usize": "1", "f32": "1.5", "bool": "true", "Name": "/N", "PdfString": "(s)", "Rectangle": "[1 2 30 40]",
         "Dictionary": "<< /D 1 >>", "Primitive": "1", "Matrix": "[1 2 3 4 5 6]", "Date": "(D:20240229235958+05'30)",
         "FontType": "/Type1", "Counter": "/D", "Rect": "[1 2 30 40]", "StructType": "/P"}
# aux objects every test file contains: 50 generic dictionary, 51 /Pages node, 52 stream
AUX = {50: "<< /G 1 >>", 51: "<< /Type /Pages /Kids [] /Count 0 >>"}


def extract():
    return json.loads(subprocess.check_output([sys.executable, os.path.join(V, "tools/extract_models.py")]))["models"]


def strip(ty, prefix):
    ty = ty.replace(" ", "")
    return ty[len(prefix):-1] if ty.startswith(prefix) and ty.endswith(">") else None


def value_for(ty, by_name, depth=0):
    """PDF text of a valid value of Rust type `ty`, or None if the entry may simply be absent, or False if unknown"""
    t = ty.replace(" ", "")
    if t.startswith("Option<") or t.startswith("Vec<") or t.startswith("HashMap<") or t.startswith("Lazy<"):
        return None
    if t.startswith("Box<"):
        return value_for(t[4:-1], by_name, depth)
    if t in BASIC:
        return BASIC[t]
    if t.startswith("Ref<"):
        return "50 0 R"
    if t in ("PagesRc",):
        return "51 0 R"
    for p in ("MaybeRef<",):
        if t.startswith(p):
            return value_for(t[len(p):-1], by_name, depth)
    if t.startswith("(") and t.endswith(")"):
        parts = t[1:-1].split(",")
        vals = [value_for(p, by_name, depth) for p in parts]
        return "[%s]" % " ".join(vals) if all(isinstance(v, str) for v in vals) else False
    if t in by_name and depth < 3:
        return minimal(by_name[t], by_name, depth + 1)
    return False


def minimal(model, by_name, depth=0):
    """minimal dictionary text of a model, or False"""
    parts = []
    for k, v in model.get("checks", {}).items():
        parts.append("/%s /%s" % (k, v.rstrip("?")))
    for f in model["fields"]:
        if f["other"] or f["skip"] or f["key"] is None or f["default"] is not None:
            continue
        v = value_for(f["type"], by_name, depth)
        if v is False:
            return False
        if v is not None:
            parts.append("/%s %s" % (f["key"], v))
    return "<< %s >>" % " ".join(parts)


def role(f):
    t = f["type"].replace(" ", "")
    if f["other"] or f["skip"] or f["key"] is None:
        return None
    if f["optional"]:
        return "option"
    if f["default"] is not None:
        return "default"
    if t.startswith("Vec<") or t.startswith("HashMap<"):
        return "container"
    if f["carrier"] in ("lazy", "ref", "primitive"):
        return "unfollowed"
    return "required"
