"""Shared machinery of bin/check: TLC runs, harness runs, verdicts, evidence."""
import json, os, re, subprocess, sys, time, hashlib, shutil, fnmatch

VERIF = os.path.dirname(os.path.dirname(os.path.abspath(__file__)))
SPEC = os.path.join(VERIF, "spec")
HARNESS = os.path.join(VERIF, "harness")
WORK = os.path.join(VERIF, "work")
EVID = os.path.join(VERIF, "evidence")
BIN = os.path.join(HARNESS, "target", "debug", "pdfverif")
JAR = "/opt/veriftools/tla/tla2tools.jar:/opt/veriftools/tla/CommunityModules-deps.jar"


class ToolError(Exception):
    pass


def log(*a):
    print(*a, flush=True)


def workdir(pid, sub=None):
    d = os.path.join(WORK, pid) if sub is None else os.path.join(WORK, pid, sub)
    os.makedirs(d, exist_ok=True)
    return d


def build_harness():
    """(re)build the harness against /repo's current working tree, hooks enabled (see .cargo/config.toml)"""
    env = dict(os.environ, CARGO_NET_OFFLINE="true")
    lock = os.path.join(HARNESS, "Cargo.lock")
    if not os.path.exists(lock):
        shutil.copy("/repo/Cargo.lock", lock)
    t0 = time.time()
    p = subprocess.run(["cargo", "build", "--offline", "--quiet"], cwd=HARNESS, env=env,
                       stdout=subprocess.PIPE, stderr=subprocess.PIPE, text=True)
    if p.returncode != 0:
        sys.stderr.write(p.stderr[-6000:])
        raise ToolError("cargo build of the harness failed (the tree under /repo does not compile with the harness)")
    return time.time() - t0


CASE_RE = re.compile(r'^<<"(CASE|COVER)", (".*")>>$')


def run_tlc(module, cfg, pid, tag, workers=4, timeout=900, simulate=None, seed=None, depth=None,
            expect_violation=False, coverage=True, heap="4g", extra_java=None):
    """Run TLC on spec/<module>.tla with spec/<cfg>. Returns dict with counts, emitted cases, error."""
    wd = workdir(pid, "tlc_" + tag)
    meta = os.path.join(wd, "meta")
    shutil.rmtree(meta, ignore_errors=True)
    jtmp = os.path.join(wd, "jtmp")       # TLC unpacks its standard modules into java.io.tmpdir: keep that out of /tmp
    shutil.rmtree(jtmp, ignore_errors=True)
    os.makedirs(jtmp)
    cmd = ["java", "-XX:+UseParallelGC", "-Xmx" + heap, "-Xss64m", "-Djava.io.tmpdir=" + jtmp]
    if extra_java:
        cmd += extra_java
    cmd += ["-cp", JAR, "tlc2.TLC", "-workers", str(workers), "-metadir", meta, "-cleanup",
            "-noGenerateSpecTE", "-config", os.path.join(SPEC, cfg)]
    if coverage and not simulate:
        cmd += ["-coverage", "1"]
    if simulate:
        cmd += ["-simulate", "num=%d" % simulate]
        if depth:
            cmd += ["-depth", str(depth)]
        if seed is not None:
            cmd += ["-seed", str(seed)]
    cmd += [os.path.join(SPEC, module + ".tla")]
    t0 = time.time()
    out_path = os.path.join(wd, "out.txt")
    with open(out_path, "w") as f:
        try:
            p = subprocess.run(cmd, cwd=SPEC, stdout=f, stderr=subprocess.STDOUT, timeout=timeout)
        except subprocess.TimeoutExpired:
            if simulate:
                p = None   # simulation is open ended; what was emitted so far is used
            else:
                raise ToolError("TLC timed out on %s/%s" % (module, cfg))
    wall = time.time() - t0
    shutil.rmtree(meta, ignore_errors=True)
    shutil.rmtree(jtmp, ignore_errors=True)
    cases, other = [], []
    seen = set()
    with open(out_path) as f:
        for line in f:
            line = line.rstrip("\n")
            m = CASE_RE.match(line)
            if m:
                try:
                    s = json.loads(m.group(2))
                    json.loads(s)
                except Exception:
                    raise ToolError("unparsable CASE line from TLC: " + line[:200])
                if s not in seen:
                    seen.add(s)
                    cases.append(s)
            else:
                other.append(line)
    txt = "\n".join(other)
    res = {"wall_s": round(wall, 2), "cases": cases, "module": module, "cfg": cfg, "out": out_path}
    m = re.search(r"(\d+) states generated, (\d+) distinct states found", txt)
    if m:
        res["generated"], res["distinct"] = int(m.group(1)), int(m.group(2))
    else:
        res["generated"], res["distinct"] = 0, 0
    viol = None
    m = re.search(r"Invariant (\S+) is violated", txt)
    if m:
        viol = "invariant " + m.group(1)
    m2 = re.search(r"Action property (\S+) is violated|Temporal properties were violated|action property.*violated", txt)
    if m2 and not viol:
        viol = "property"
    if "Deadlock reached" in txt:
        viol = viol or "deadlock"
    res["violation"] = viol
    completed = "Model checking completed. No error has been found." in txt or (simulate and viol is None)
    if viol is None and not completed:
        tail = "\n".join(other[-25:])
        raise ToolError("TLC did not complete on %s/%s:\n%s" % (module, cfg, tail))
    if viol and not expect_violation:
        res["trace_text"] = "\n".join(other[-80:])
    # per-action coverage: lines like "<Action line ... of module X>: 12:34"
    cov = {}
    for m in re.finditer(r"^<(\w+) line \d+, col \d+ to line \d+, col \d+ of module (\w+)(?: \([\d ]+\))?>: (\d+):(\d+)", txt, re.M):
        cov[m.group(1)] = cov.get(m.group(1), 0) + int(m.group(4))
    res["coverage"] = cov
    return res


def run_harness_sharded(module, cases, wd, opts=(), shards=8, timeout=7200):
    """split the cases over `shards` harness processes and merge their reports (same shape as run_harness)"""
    import concurrent.futures as cf
    parts = [cases[k::shards] for k in range(shards)]
    parts = [p for p in parts if p]

    def one(k):
        cp, rp = os.path.join(wd, "cases_%d.ndjson" % k), os.path.join(wd, "report_%d.json" % k)
        write_cases(parts[k], cp)
        return run_harness(module, cp, rp, opts, timeout)
    with cf.ThreadPoolExecutor(max_workers=len(parts)) as ex:
        reps = list(ex.map(one, range(len(parts))))
    tot = {"cases": 0, "execs": 0, "nontrivial": 0, "n_failures": 0, "failures": [], "samples": [], "counters": {}, "notes": []}
    for r in reps:
        for k in ("cases", "execs", "nontrivial", "n_failures"):
            tot[k] += r.get(k, 0)
        tot["failures"] += r["failures"]
        tot["samples"] += r["samples"][:1]
        for n in r.get("notes", []):
            if n not in tot["notes"]:
                tot["notes"].append(n)
        for k, n in r["counters"].items():
            tot["counters"][k] = tot["counters"].get(k, 0) + n
    return tot


def write_cases(cases, path):
    with open(path, "w") as f:
        for c in cases:
            f.write(c + "\n")


def run_harness(module, cases_path, report_path, opts=(), timeout=3600):
    if os.path.exists(report_path):
        os.remove(report_path)
    p = subprocess.run([BIN, module, cases_path, report_path] + list(opts), stdout=subprocess.PIPE,
                       stderr=subprocess.PIPE, text=True, timeout=timeout)
    if p.returncode != 0 or not os.path.exists(report_path):
        sys.stderr.write(p.stderr[-4000:])
        raise ToolError("harness module %s failed (exit %s)" % (module, p.returncode))
    with open(report_path) as f:
        return json.load(f)


def load_known():
    path = os.path.join(VERIF, "known_findings.json")
    if not os.path.exists(path):
        return []
    with open(path) as f:
        return json.load(f).get("findings", [])


def sanitize(s):
    return re.sub(r"[^A-Za-z0-9_.-]+", "_", s)[:80]


class Verdict:
    """collects failures; separates known findings from violations; writes replay files"""

    def __init__(self, pid):
        self.pid = pid
        self.known = [k for k in load_known() if k["property"] == pid and k.get("status") == "known"]
        self.known_hit = {}
        self.violations = []
        self.rdir = workdir(pid, "replay")

    def failure(self, cls, record, matches_asbuilt=True):
        """cls: class key of the failure; record: json-able dict for the replay file"""
        for k in self.known:
            hit = k["key"] == cls or ("*" in k["key"] and fnmatch.fnmatchcase(cls, k["key"]))
            if hit and (matches_asbuilt or not k.get("needs_asbuilt", False)):
                self.known_hit.setdefault(k["key"], [0, k])[0] += 1
                return
        # a replay file for the first occurrences overall and for the first occurrence of every class
        if not hasattr(self, "first_path"):
            self.first_path = {}
        if cls not in self.first_path or len(self.violations) < 50:
            path = os.path.join(self.rdir, sanitize(cls) + "_%d.json" % len(self.violations))
            with open(path, "w") as f:
                json.dump(record, f)
            self.first_path.setdefault(cls, path)
        else:
            path = self.first_path[cls]
        self.violations.append((cls, path))

    def from_report(self, rep):
        for f in rep["failures"]:
            self.failure(f["class"], f, f.get("matches_asbuilt", True))
        for key in self.known_hit:
            n = sum(v for c, v in rep["counters"].items() if c.startswith("fail:") and (c[5:] == key or ("*" in key and fnmatch.fnmatchcase(c[5:], key))))
            self.known_hit[key][0] = n or self.known_hit[key][0]
        # failures beyond the verbatim cap still count: classes listed in counters
        listed = {f["class"] for f in rep["failures"]}
        for k, n in rep["counters"].items():
            if k.startswith("fail:") and k[5:] not in listed:
                self.failure(k[5:], {"class": k[5:], "note": "not kept verbatim"}, True)

    def model_violation(self, what, tlc_res):
        path = os.path.join(self.rdir, "model_" + sanitize(what) + ".txt")
        with open(path, "w") as f:
            f.write(tlc_res.get("trace_text", ""))
        self.violations.append((what, path))

    def finish(self):
        for cls, (n, k) in sorted(self.known_hit.items()):
            log("KNOWN-FINDING: property=%s %s [%s; %d case(s)]" % (self.pid, k["what"], cls, n))
        shown = {}
        for cls, path in self.violations:
            shown.setdefault(cls, [path, 0])[1] += 1
        for k, (cls, (path, n)) in enumerate(shown.items()):
            if k == 12:
                log("... %d more failure classes (see %s)" % (len(shown) - 12, self.rdir))
                break
            log("VIOLATION property=%s replay=%s class=%s count=%d" % (self.pid, path, cls, n))
        return 1 if self.violations else 0


def write_evidence(pid, tier, seed, level, coverage, assumptions, wall, violations):
    os.makedirs(EVID, exist_ok=True)
    ev = {"property_id": pid, "tier": tier, "seed": int(seed), "level": level, "coverage": coverage,
          "assumptions": assumptions, "wall_s": round(wall, 2), "violations": int(violations)}
    with open(os.path.join(EVID, pid + ".json"), "w") as f:
        json.dump(ev, f, indent=1, sort_keys=True)
    return ev
