"""Crash-resilient replay of whole files through the harness module `walk` (C14, C01).

Cases are sharded over processes.  A harness process that dies (stack overflow, abort, allocation failure, watchdog exit)
is data: the progress file names the case in flight, the death is recorded for that case and the shard restarts after it."""
import json, os, subprocess, concurrent.futures as cf
from lib import vlib


def _kind(rc, err):
    if rc == 3:
        return "hang"
    if "stack overflow" in err or "has overflowed its stack" in err:
        return "stack-overflow"
    if "memory allocation of" in err:
        return "alloc-failure"
    if rc in (-6, 134):
        return "abort"
    if rc in (-11, 139):
        return "segv"
    return "exit%s" % rc


def _shard(pid, tag, k, cases, secs, configs, mem_mb, module="walk", extra=()):
    wd = vlib.workdir(pid, tag)
    cpath = os.path.join(wd, "shard%d.ndjson" % k)
    rpath = os.path.join(wd, "shard%d.json" % k)
    with open(cpath, "w") as f:
        for c in cases:
            f.write(json.dumps(c) + "\n")
    for suffix in (".results", ".progress"):
        if os.path.exists(rpath + suffix):
            os.remove(rpath + suffix)
    start, deaths = 0, []
    while start < len(cases):
        p = subprocess.run([vlib.BIN, module, cpath, rpath, "--start", str(start), "--secs", str(secs), "--configs", configs, "--mem-mb", str(mem_mb)] + list(extra),
                           stdout=subprocess.PIPE, stderr=subprocess.PIPE)
        prog = open(rpath + ".progress").read().strip() if os.path.exists(rpath + ".progress") else ""
        if p.returncode == 0 and prog.startswith("done"):
            break
        if not prog or prog.startswith("done"):
            raise vlib.ToolError("walk harness failed without progress (exit %s): %s" % (p.returncode, p.stderr[-500:].decode("latin-1")))
        at = int(prog)
        err = p.stderr.decode("latin-1")
        deaths.append({"i": at, "case": cases[at], "kind": _kind(p.returncode, err), "rc": p.returncode, "stderr_tail": err[:300] + " ... " + err[-300:]})
        start = at + 1
        if len(deaths) > 400:
            raise vlib.ToolError("more than 400 process deaths in one shard; giving up")
    results = []
    if os.path.exists(rpath + ".results"):
        with open(rpath + ".results") as f:
            for line in f:
                results.append(json.loads(line))
    return results, deaths


def run(pid, tag, cases, shards=14, secs=10, configs="all", mem_mb=3072, extra=(), module="walk"):
    """cases: list of {"id", "cls", "hex", ...}. Returns (results, deaths)."""
    vlib.build_harness()
    parts = [cases[k::shards] for k in range(shards)]
    results, deaths = [], []
    with cf.ThreadPoolExecutor(max_workers=shards) as ex:
        futs = [ex.submit(_shard, pid, tag, k, part, secs, configs, mem_mb, module, extra) for k, part in enumerate(parts) if part]
        for f in futs:
            r, d = f.result()
            results += r
            deaths += d
    return results, deaths
