"""C01 structural part: base layouts and fault points. Single source for spec/MC_Faults.tla (tools/gen_faults.py)
and for the damaged files replayed into the library.

FAULTS[layout] = {point: (stage, fatal, loops, [values])}
  stage : the reader stage that consumes the quantity (see spec/Faults.tla)
  fatal : the intended reaction of the stage's guard is an error (False: the reader may repair / ignore it)
  loops : without the guard the damaged value would drive a loop rather than an index
build(layout, damage) -> bytes,  damage = {point: value} (absent or "intact" = undamaged)
"""
import hashlib, zlib

STAGES = ["header", "startxref", "section", "trailer", "prev", "entry", "object", "stream", "objstm", "scan"]

CONTENT = b"BT /F1 12 Tf (ab) Tj ET q 1 0 0 1 0 0 cm /Im1 Do Q"
CMAP = (b"/CIDInit /ProcSet findresource begin 12 dict begin begincmap 1 begincodespacerange <00> <FF> endcodespacerange "
        b"1 beginbfchar <41> <0041> endbfchar 1 beginbfrange <42> <44> <0042> endbfrange endcmap end end")

NUM = {"zero": "0", "neg": "-1", "huge": "99999999999999999999", "i32max": "2147483647", "million": "1000001"}

FAULTS = {}
COMMON = {
    "header":     ("header", False, False, ["at1019", "at1020", "missing", "garbled"]),
    "startxref":  ("startxref", True, False, ["zero", "beyond", "neg", "huge", "at_obj", "missing_kw", "not_number"]),
    "eof_marker": ("startxref", False, False, ["missing"]),
    "size":       ("trailer", False, True, ["zero", "small", "million", "i32max", "neg", "missing"]),
    "root":       ("trailer", True, False, ["missing", "direct", "dangling", "nonref", "not_catalog"]),
    "entry_off3": ("entry", True, False, ["zero", "beyond", "mid_token", "at_other"]),
    "objhdr3":    ("entry", True, False, ["wrong_id", "wrong_gen", "missing_obj_kw"]),
    "endobj3":    ("object", False, False, ["drop", "dup"]),
    "nest3":      ("object", True, True, ["d21", "d1000", "dict21"]),
    "length4":    ("stream", False, False, ["plus1", "minus1", "zero", "neg", "huge", "missing", "ref_nonint", "ref_cycle", "ref_dangling", "real"]),
    "endstream4": ("stream", False, False, ["drop", "misspelt"]),
    "stream_kw4": ("stream", False, False, ["cr_only", "no_eol"]),
    # the image's data behind a filter, damaged the way the filter notices only while decoding
    "filter7":    ("stream", False, False, ["png_ragged", "png_tagonly", "png_badtag", "png_cols0", "png_colshuge", "png_bpc0", "png_colorshuge",
                                            "tiff_ragged", "lzw_png_ragged", "flate_trunc", "flate_garbage", "ahex_odd", "a85_bad", "rl_trunc",
                                            "lzw_junk", "parms_array_short", "unknown"]),
    # typed entries of the page's resources with the wrong arity / type (an ExtGState's /Font pair, the page's boxes)
    "gsfont3":    ("object", False, False, ["three", "one", "empty", "name", "nested"]),
    "mediabox3":  ("object", False, False, ["three", "five", "empty", "refs", "names"]),
    # the page tree root naming a parent: itself, itself under another generation number, its own kid, nothing that exists
    "parent2":    ("object", True, True, ["self", "self_gen1", "kid", "dangling"]),
    "truncate":   ("object", False, False, None),      # values t<k>: cut the file after the k-th token; filled in per layout
}
FAULTS["classic"] = dict(COMMON, **{
    "xref_kw":    ("section", True, False, ["missing", "misspelt"]),
    "sub_count":  ("section", False, True, ["more", "less", "zero", "huge", "neg"]),
    "sub_start":  ("section", False, False, ["beyond_size", "huge", "neg"]),
    "entry_kind": ("section", False, False, ["f", "x"]),
    "entry_gen":  ("section", False, False, ["65535", "neg"]),
    "entry_width": ("section", False, False, ["short"]),
    "trailer_kw": ("trailer", True, False, ["missing"]),
    "trailer_dict": ("trailer", True, False, ["unclosed"]),
})
FAULTS["xrefstm"] = dict(COMMON, **{
    "w":          ("section", True, True, ["zeros", "nine", "len2", "len4", "neg", "huge"]),
    "index":      ("section", True, True, ["odd", "beyond", "neg", "huge"]),
    "entry_type": ("section", False, False, ["three", "ff"]),
    "xs_data":    ("section", True, False, ["short", "long", "corrupt"]),
    "n":          ("objstm", True, True, ["zero", "more", "huge", "neg"]),
    "first":      ("objstm", True, False, ["zero", "beyond", "neg", "huge"]),
    "offsets":    ("objstm", True, False, ["unsorted", "beyond", "nonnumeric"]),
    "member_idx": ("objstm", True, False, ["beyond"]),
    "container":  ("objstm", True, False, ["self", "not_stream", "dangling"]),
    "extends":    ("objstm", False, False, ["self"]),
})
FAULTS["prev2"] = dict(COMMON, **{
    "prev":       ("prev", True, True, ["self", "cycle", "beyond", "zero", "neg", "at_obj", "not_number"]),
    "xrefstm_key": ("prev", False, False, ["self_table", "beyond", "at_obj"]),
    "sub_count":  ("section", False, True, ["more", "less", "huge"]),
})
FAULTS["encrypted"] = dict(COMMON, **{
    "enc_ref":    ("trailer", True, False, ["dangling", "direct", "nondict"]),
    "id":         ("trailer", True, False, ["missing", "short", "nonarray", "empty"]),
    "o_len":      ("trailer", True, False, ["short", "long", "empty"]),
    "u_len":      ("trailer", True, False, ["short", "long", "empty"]),
    "enc_v":      ("trailer", True, False, ["zero", "three", "huge"]),
    "str_cipher": ("object", False, False, ["odd_hex"]),
})
LAYOUTS = list(FAULTS)


# --------------------------------------------------------------------------------------------- RC4 handler (R3, 128 bit)
PAD = bytes([0x28, 0xBF, 0x4E, 0x5E, 0x4E, 0x75, 0x8A, 0x41, 0x64, 0x00, 0x4E, 0x56, 0xFF, 0xFA, 0x01, 0x08,
             0x2E, 0x2E, 0x00, 0xB6, 0xD0, 0x68, 0x3E, 0x80, 0x2F, 0x0C, 0xA9, 0xFE, 0x64, 0x53, 0x69, 0x7A])
FILE_ID = bytes(range(16))


def rc4(key, data):
    s = list(range(256))
    j = 0
    for i in range(256):
        j = (j + s[i] + key[i % len(key)]) % 256
        s[i], s[j] = s[j], s[i]
    i = j = 0
    out = bytearray()
    for b in data:
        i = (i + 1) % 256
        j = (j + s[i]) % 256
        s[i], s[j] = s[j], s[i]
        out.append(b ^ s[(s[i] + s[j]) % 256])
    return bytes(out)


def _handler():
    n = 16
    h = hashlib.md5(PAD).digest()
    for _ in range(50):
        h = hashlib.md5(h).digest()
    okey = h[:n]
    o = rc4(okey, PAD)
    for i in range(1, 20):
        o = rc4(bytes(b ^ i for b in okey), o)
    p = -4
    k = hashlib.md5(PAD + o + (p & 0xffffffff).to_bytes(4, "little") + FILE_ID).digest()
    for _ in range(50):
        k = hashlib.md5(k[:n]).digest()
    key = k[:n]
    x = rc4(key, hashlib.md5(PAD + FILE_ID).digest())
    for i in range(1, 20):
        x = rc4(bytes(b ^ i for b in key), x)
    u = x + bytes(16)
    return key, o, u, p


def _objkey(key, oid, gen=0):
    return hashlib.md5(key + oid.to_bytes(3, "little") + gen.to_bytes(2, "little")).digest()[:16]


# --------------------------------------------------------------------------------------------- builders
def _nest(kind):
    if kind == "d21":
        return "[" * 21 + "]" * 21
    if kind == "d1000":
        return "[" * 1000 + "]" * 1000
    if kind == "dict21":
        return "<< /K " * 21 + "1" + " >>" * 21
    return "null"


def _lzw(data):
    """LZW (early change 1) of short data: clear, the bytes as literals, EOD - 9-bit codes"""
    codes = [256] + list(data) + [257]
    bits = "".join(format(c, "09b") for c in codes)
    bits += "0" * (-len(bits) % 8)
    return bytes(int(bits[i:i + 8], 2) for i in range(0, len(bits), 8))


def _filter7(v):
    """(filter entries of the image dictionary, stored data) for the 2x2 grey image"""
    raw = b"\x00\x40\x80\xff"
    png = b"\x00\x00\x40\x02\x80\xbf"           # rows: None, Up
    def parms(pred=12, cols=b"2", extra=b""):
        return b" /DecodeParms << /Predictor %d /Columns " % pred + cols + extra + b" >>"
    fl = b" /Filter /FlateDecode"
    if v is None:
        return b"", raw
    if v == "png_ragged":      # one byte short of a whole number of rows, the tag of the cut row is valid
        return fl + parms(), zlib.compress(png[:-1])
    if v == "png_tagonly":     # a tag byte and nothing after it
        return fl + parms(), zlib.compress(png + b"\x01")
    if v == "png_badtag":
        return fl + parms(), zlib.compress(b"\x09" + png[1:])
    if v == "png_cols0":
        return fl + parms(cols=b"0"), zlib.compress(png)
    if v == "png_colshuge":
        return fl + parms(cols=NUM["i32max"].encode()), zlib.compress(png)
    if v == "png_bpc0":
        return fl + parms(extra=b" /BitsPerComponent 0"), zlib.compress(png)
    if v == "png_colorshuge":
        return fl + parms(extra=b" /Colors 2147483647"), zlib.compress(png)
    if v == "tiff_ragged":
        return fl + parms(pred=2, extra=b" /BitsPerComponent 16"), zlib.compress(raw[:3])
    if v == "lzw_png_ragged":
        return b" /Filter /LZWDecode" + parms(), _lzw(png[:-1])
    if v == "flate_trunc":
        return fl, zlib.compress(raw * 20)[:-6]
    if v == "flate_garbage":
        return fl, b"\x78\x9c\xff\xfe\xfd\x00\x01"
    if v == "ahex_odd":
        return b" /Filter /ASCIIHexDecode", b"00 40 8G"
    if v == "a85_bad":
        return b" /Filter /ASCII85Decode", b"zz!v{~"
    if v == "rl_trunc":
        return b" /Filter /RunLengthDecode", b"\x03\x00"
    if v == "lzw_junk":
        return b" /Filter /LZWDecode", b"\xff\xff\x00\x80\x7f\xff\xff"
    if v == "parms_array_short":
        return b" /Filter [/ASCIIHexDecode /FlateDecode] /DecodeParms [null]", zlib.compress(raw).hex().encode() + b">"
    if v == "unknown":
        return b" /Filter /NoSuchDecode", raw
    raise ValueError(v)


class Obj:
    def __init__(self, oid, body=None, sdict=None, data=None):
        self.oid, self.body, self.sdict, self.data = oid, body, sdict, data
        self.hdr = b"%d 0 obj\n" % oid
        self.tail = b"\nendobj\n"
        self.length = None          # text for /Length
        self.stream_kw = b"\nstream\n"
        self.endstream = b"\nendstream"

    def bytes(self):
        if self.sdict is None:
            return self.hdr + self.body + self.tail
        ln = self.length if self.length is not None else b"%d" % len(self.data)
        d = self.sdict.replace(b"<<", b"<<" + (b" /Length " + ln if ln != b"" else b""), 1)
        return self.hdr + d + self.stream_kw + self.data + self.endstream + self.tail


def _base_objects(layout, d):
    enc = layout == "encrypted"
    key = None
    if enc:
        key, o_val, u_val, p_val = _handler()

    def s(oid, text):        # a string literal, encrypted in the encrypted layout
        if not enc:
            return b"(" + text + b")"
        c = rc4(_objkey(key, oid), text).hex().upper().encode()
        if d.get("str_cipher") == "odd_hex":
            c = c[:-1]
        return b"<" + c + b">"

    def sd(oid, data):
        return rc4(_objkey(key, oid), data) if enc else data
    objs = {}
    objs[1] = Obj(1, b"<< /Type /Catalog /Pages 2 0 R /Lang " + s(1, b"en") + b" >>")
    par = {"self": b" /Parent 2 0 R", "self_gen1": b" /Parent 2 1 R", "kid": b" /Parent 3 0 R", "dangling": b" /Parent 97 0 R"}.get(d.get("parent2"), b"")
    objs[2] = Obj(2, b"<< /Type /Pages /Kids [3 0 R] /Count 1" + par + b" >>")
    gsf = {"three": b"[5 0 R 12 0]", "one": b"[5 0 R]", "empty": b"[ ]", "name": b"/F1", "nested": b"[[5 0 R 12]]"}.get(d.get("gsfont3"), b"[5 0 R 12]")
    mbox = {"three": b"[0 0 100]", "five": b"[0 0 100 100 100]", "empty": b"[ ]", "refs": b"[5 0 R 5 0 R 5 0 R 5 0 R]", "names": b"[/a /b /c /d]"}.get(d.get("mediabox3"), b"[0 0 100 100]")
    objs[3] = Obj(3, b"<< /Type /Page /Parent 2 0 R /MediaBox " + mbox + b" /Contents 4 0 R /Resources << /Font << /F1 5 0 R >> /XObject << /Im1 7 0 R >> /ExtGState << /G1 << /Type /ExtGState /LW 1 /Font " + gsf + b" >> >> >> /Deep "
                  + _nest(d.get("nest3")).encode() + b" >>")
    objs[4] = Obj(4, sdict=b"<< >>", data=sd(4, CONTENT))
    objs[5] = Obj(5, b"<< /Type /Font /Subtype /Type1 /BaseFont /Helvetica /FirstChar 65 /LastChar 67 /Widths [500 600 700] /ToUnicode 6 0 R >>")
    objs[6] = Obj(6, sdict=b"<< >>", data=sd(6, CMAP))
    f7, d7 = _filter7(d.get("filter7"))
    objs[7] = Obj(7, sdict=b"<< /Type /XObject /Subtype /Image /Width 2 /Height 2 /BitsPerComponent 8 /ColorSpace /DeviceGray" + f7 + b" >>", data=sd(7, d7))
    extra_trailer = b""
    if enc:
        o_hex, u_hex = o_val.hex().upper(), u_val.hex().upper()
        ol, ul = d.get("o_len"), d.get("u_len")
        o_hex = {"short": o_hex[:20], "long": o_hex + "00" * 40, "empty": ""}.get(ol, o_hex)
        u_hex = {"short": u_hex[:20], "long": u_hex + "00" * 40, "empty": ""}.get(ul, u_hex)
        v = {"zero": "0", "three": "3", "huge": NUM["huge"]}.get(d.get("enc_v"), "2")
        edict = ("<< /Filter /Standard /V %s /R 3 /Length 128 /P %d /O <%s> /U <%s> >>" % (v, p_val, o_hex, u_hex)).encode()
        objs[8] = Obj(8, edict)
        er = d.get("enc_ref")
        if er == "nondict":
            objs[8] = Obj(8, b"[1 2 3]")
        ref = {"dangling": b"/Encrypt 99 0 R", "direct": b"/Encrypt " + edict}.get(er, b"/Encrypt 8 0 R")
        idv = {"missing": b"", "short": b"/ID [<0001>]", "nonarray": b"/ID <000102>", "empty": b"/ID []"}.get(
            d.get("id"), b"/ID [<" + FILE_ID.hex().encode() + b"> <" + FILE_ID.hex().encode() + b">]")
        extra_trailer = ref + b" " + idv
    # ---- object-level damage
    o3 = objs[3]
    h = d.get("objhdr3")
    if h == "wrong_id":
        o3.hdr = b"9 0 obj\n"
    elif h == "wrong_gen":
        o3.hdr = b"3 7 obj\n"
    elif h == "missing_obj_kw":
        o3.hdr = b"3 0\n"
    e = d.get("endobj3")
    if e == "drop":
        o3.tail = b"\n"
    elif e == "dup":
        o3.tail = b"\nendobj\nendobj\n"
    o4 = objs[4]
    ln = d.get("length4")
    n = len(o4.data)
    if ln in ("plus1", "minus1"):
        o4.length = b"%d" % (n + (1 if ln == "plus1" else -1))
    elif ln in NUM:
        o4.length = NUM[ln].encode()
    elif ln == "missing":
        o4.length = b""
    elif ln == "real":
        o4.length = b"%d.5" % n
    elif ln == "ref_nonint":
        o4.length = b"5 0 R"
    elif ln == "ref_dangling":
        o4.length = b"98 0 R"
    elif ln == "ref_cycle":
        o4.length = b"4 0 R"
    es = d.get("endstream4")
    if es == "drop":
        o4.endstream = b"\n"
    elif es == "misspelt":
        o4.endstream = b"\nendstraem"
    sk = d.get("stream_kw4")
    if sk == "cr_only":
        o4.stream_kw = b"\nstream\r"
    elif sk == "no_eol":
        o4.stream_kw = b"\nstream"
    return objs, extra_trailer


def _header(d):
    h = d.get("header")
    if h == "at1019":
        return b"%" + b"j" * 1017 + b"\n" + b"%PDF-1.7\n"
    if h == "at1020":
        return b"%" + b"j" * 1018 + b"\n" + b"%PDF-1.7\n"
    if h == "missing":
        return b"%XYZ-1.7\n"
    if h == "garbled":
        return b"%PDF-\xff.\x00\n"
    return b"%PDF-1.7\n"


def _root(d):
    r = d.get("root")
    return {"missing": b"", "direct": b"/Root << /Type /Catalog /Pages 2 0 R >>", "dangling": b"/Root 97 0 R", "nonref": b"/Root 17",
            "not_catalog": b"/Root 4 0 R"}.get(r, b"/Root 1 0 R")


def _size(d, n):
    s = d.get("size")
    if s == "missing":
        return b""
    return b"/Size " + {"zero": b"0", "small": b"2", "million": b"1000001", "i32max": b"2147483647", "neg": b"-1"}.get(s, b"%d" % n)


def _entry_off(d, offs, hdrlen, total):
    """damaged offset for object 3 (relative to the header)"""
    v = d.get("entry_off3")
    if v == "zero":
        return 0
    if v == "beyond":
        return total + 1000
    if v == "mid_token":
        return offs[3] + 3
    if v == "at_other":
        return offs[4]
    return offs[3]


def _tail(d, xpos, total_guess):
    sx = d.get("startxref")
    val = {"zero": b"0", "beyond": b"%d" % (total_guess + 5000), "neg": b"-1", "huge": NUM["huge"].encode(), "not_number": b"abc"}.get(sx)
    kw = b"startxref\n"
    if sx == "missing_kw":
        kw = b"startxerf\n"
    eof = b"" if d.get("eof_marker") == "missing" else b"%%EOF\n"
    return kw, val, eof


def build(layout, damage):
    d = {k: v for k, v in damage.items() if v != "intact"}
    objs, extra_trailer = _base_objects(layout, d)
    out = bytearray(_header(d))
    hpos = out.rfind(b"%PDF-") if b"%PDF-" in out else 0
    body = bytearray()
    offs = {}
    if layout == "xrefstm":
        data = _build_xrefstm(d, objs, out, hpos)
    elif layout == "prev2":
        data = _build_prev2(d, objs, out, hpos, extra_trailer)
    else:
        data = _build_classic(d, objs, out, hpos, extra_trailer)
    t = d.get("truncate")
    if t:
        k = int(t[1:])
        cuts = token_ends(data)
        data = data[:cuts[min(k, len(cuts) - 1)]]
    return bytes(data)


def token_ends(data):
    """end positions of white-space separated chunks (the places a file can be cut between tokens)"""
    ends, i, n = [], 0, len(data)
    ws = b" \t\r\n\x0c\x00"
    while i < n:
        while i < n and data[i] in ws:
            i += 1
        if i >= n:
            break
        while i < n and data[i] not in ws:
            i += 1
        ends.append(i)
    return ends


def _emit_objects(objs, out, hpos):
    offs = {}
    for oid in sorted(objs):
        offs[oid] = len(out) - hpos
        out += objs[oid].bytes()
    return offs


def _classic_section(d, ids, offs, n, total):
    sec = bytearray()
    sec += {"missing": b"", "misspelt": b"xerf\n"}.get(d.get("xref_kw"), b"xref\n")
    start = {"beyond_size": b"%d" % (n + 5), "huge": NUM["huge"].encode(), "neg": b"-1"}.get(d.get("sub_start"), b"0")
    cnt = len(ids) + 1
    count = {"more": b"%d" % (cnt + 3), "less": b"%d" % (cnt - 2), "zero": b"0", "huge": NUM["huge"].encode(), "neg": b"-1"}.get(d.get("sub_count"), b"%d" % cnt)
    sec += start + b" " + count + b"\n"
    sec += b"0000000000 65535 f \n"
    for oid in ids:
        off = offs.get(oid, 0)
        kind = b"n"
        gen = b"00000"
        if oid == 3:
            off = _entry_off(d, offs, 0, total)
            kind = {"f": b"f", "x": b"x"}.get(d.get("entry_kind"), b"n")
            gen = {"65535": b"65535", "neg": b"-0001"}.get(d.get("entry_gen"), b"00000")
        line = b"%010d " % off + gen + b" " + kind + b" \n"
        if oid == 3 and d.get("entry_width") == "short":
            line = line[:-2] + b"\n"
        sec += line
    return sec


def _trailer(d, n, extra):
    if d.get("trailer_kw") == "missing":
        kw = b""
    else:
        kw = b"trailer\n"
    body = b"<< " + _size(d, n) + b" " + _root(d) + b" " + extra
    body += b"\n" if d.get("trailer_dict") == "unclosed" else b" >>\n"
    return kw + body


def _build_classic(d, objs, out, hpos, extra_trailer):
    offs = _emit_objects(objs, out, hpos)
    n = max(objs) + 1
    xpos = len(out) - hpos
    total = len(out) + 400
    ids = list(range(1, n))
    out += _classic_section(d, ids, offs, n, total)
    out += _trailer(d, n, extra_trailer)
    kw, val, eof = _tail(d, xpos, total)
    if d.get("startxref") == "at_obj":
        val = b"%d" % offs[2]
    out += kw + (val if val is not None else b"%d" % xpos) + b"\n" + eof
    return out


def _build_prev2(d, objs, out, hpos, extra_trailer):
    """revision 1: objects 1-4 + section; revision 2: objects 5-7 (and a new 3) + section with /Prev"""
    first = {k: v for k, v in objs.items() if k <= 4}
    second = {k: v for k, v in objs.items() if k > 4}
    offs = _emit_objects(first, out, hpos)
    n = max(objs) + 1
    x1 = len(out) - hpos
    total = len(out) + 1500
    sec1 = bytearray(b"xref\n0 5\n0000000000 65535 f \n")
    for oid in range(1, 5):
        sec1 += b"%010d 00000 n \n" % offs[oid]
    prev1 = b""
    if d.get("prev") == "cycle":
        prev1 = b"/Prev @@@@@@@@@@ "        # patched below with the position of section 2
    out += sec1 + b"trailer\n<< /Size 5 /Root 1 0 R " + prev1 + b">>\nstartxref\n%d\n%%%%EOF\n" % x1
    offs2 = _emit_objects(second, out, hpos)
    offs.update(offs2)
    x2 = len(out) - hpos
    dd = dict(d)
    ids = sorted(second)
    sec2 = bytearray(b"xref\n")
    cnt = len(ids)
    count = {"more": b"%d" % (cnt + 3), "less": b"%d" % (cnt - 2), "huge": NUM["huge"].encode()}.get(d.get("sub_count"), b"%d" % cnt)
    sec2 += b"%d " % ids[0] + count + b"\n"
    for oid in ids:
        sec2 += b"%010d 00000 n \n" % offs[oid]
    # object 3 lives in revision 1: its damaged offset is written as a one-entry subsection of revision 2
    if d.get("entry_off3"):
        sec2 += b"3 1\n%010d 00000 n \n" % _entry_off(d, offs, 0, total)
    pv = d.get("prev")
    prev = {"self": b"%d" % x2, "cycle": b"%d" % x1, "beyond": b"%d" % (total + 9000), "zero": b"0", "neg": b"-1", "at_obj": b"%d" % offs[2], "not_number": b"/abc"}.get(pv, b"%d" % x1)
    xk = d.get("xrefstm_key")
    xs = {"self_table": b"/XRefStm %d" % x2, "beyond": b"/XRefStm %d" % (total + 9000), "at_obj": b"/XRefStm %d" % offs[4]}.get(xk, b"")
    out += sec2 + b"trailer\n<< " + _size(d, n) + b" " + _root(d) + b" /Prev " + prev + b" " + xs + b" " + extra_trailer + b" >>\n"
    if pv == "cycle":
        i = out.find(b"@@@@@@@@@@")
        out[i:i + 10] = b"%010d" % x2
    kw, val, eof = _tail(d, x2, total)
    if d.get("startxref") == "at_obj":
        val = b"%d" % offs[2]
    out += kw + (val if val is not None else b"%d" % x2) + b"\n" + eof
    return out


def _build_xrefstm(d, objs, out, hpos):
    """objects 1, 2, 5 live in object stream 8; 3, 4, 6, 7 are direct; 9 is the cross-reference stream"""
    members = [1, 2, 5]
    bodies = [objs[m].body for m in members]
    pos, offs_in = 0, []
    for b in bodies:
        offs_in.append(pos)
        pos += len(b) + 1
    of = d.get("offsets")
    shown = list(offs_in)
    if of == "unsorted":
        shown = shown[::-1]
    elif of == "beyond":
        shown[-1] = 100000
    head = " ".join("%d %s" % (m, ("x" if of == "nonnumeric" and k == 1 else str(o))) for k, (m, o) in enumerate(zip(members, shown))).encode() + b" "
    data = head + b" ".join(bodies)
    nval = {"zero": b"0", "more": b"9", "huge": NUM["huge"].encode(), "neg": b"-1"}.get(d.get("n"), b"%d" % len(members))
    fval = {"zero": b"0", "beyond": b"%d" % (len(data) + 50), "neg": b"-1", "huge": NUM["huge"].encode()}.get(d.get("first"), b"%d" % len(head))
    ext = b" /Extends 8 0 R" if d.get("extends") == "self" else b""
    o8 = Obj(8, sdict=b"<< /Type /ObjStm /N " + nval + b" /First " + fval + ext + b" >>", data=data)
    direct = {k: v for k, v in objs.items() if k not in members}
    direct[8] = o8
    if d.get("container") == "not_stream":
        direct[8] = Obj(8, b"<< /Type /ObjStm /N 3 /First 10 >>")
    offs = _emit_objects(direct, out, hpos)
    xid = 9
    n = xid + 1
    xpos = len(out) - hpos
    total = len(out) + 600
    offs[xid] = xpos
    rows = bytearray()
    cont = {"self": 1, "dangling": 77}.get(d.get("container"))
    for i in range(n):
        if i in members:
            c = 8
            idx = members.index(i)
            if i == 1 and cont == 1:
                pass
            if i == 5 and d.get("member_idx") == "beyond":
                idx = 40
            if d.get("container") == "dangling":
                c = 77
            rows += bytes([2]) + c.to_bytes(3, "big") + bytes([idx])
        elif i == 8 and d.get("container") == "self":
            rows += bytes([2]) + (8).to_bytes(3, "big") + bytes([0])
        elif i in offs:
            off = _entry_off(d, offs, 0, total) if i == 3 else offs[i]
            t = 1
            if i == 3:
                t = {"three": 3, "ff": 255}.get(d.get("entry_type"), 1)
            rows += bytes([t]) + min(off, 0xffffff).to_bytes(3, "big") + bytes([0])
        else:
            rows += bytes([0, 0, 0, 0, 255])
    w = {"zeros": b"[0 0 0]", "nine": b"[9 1 1]", "len2": b"[1 3]", "len4": b"[1 3 1 1]", "neg": b"[1 -3 1]", "huge": b"[1 2147483647 1]"}.get(d.get("w"), b"[1 3 1]")
    idx = {"odd": b"[0 10 3]", "beyond": b"[5000000 10]", "neg": b"[-1 10]", "huge": b"[0 2147483647]"}.get(d.get("index"), b"[0 %d]" % n)
    xd = d.get("xs_data")
    payload = bytes(rows)
    if xd == "short":
        payload = payload[:-7]
    elif xd == "long":
        payload = payload + b"\x01\x02\x03"
    z = zlib.compress(payload)
    if xd == "corrupt":
        z = z[:6] + bytes([z[6] ^ 0xff]) + z[7:]
    xs = Obj(xid, sdict=b"<< /Type /XRef " + _size(d, n) + b" /W " + w + b" /Index " + idx + b" " + _root(d) + b" /Filter /FlateDecode >>", data=z)
    out += xs.bytes()
    kw, val, eof = _tail(d, xpos, total)
    if d.get("startxref") == "at_obj":
        val = b"%d" % offs[3]
    out += kw + (val if val is not None else b"%d" % xpos) + b"\n" + eof
    return out


def n_tokens(layout):
    return len(token_ends(build(layout, {})))


def fault_table(trunc_step=1):
    """FAULTS with the truncation values filled in: t<k> for every k-th token boundary"""
    t = {}
    for l in LAYOUTS:
        t[l] = {}
        for name, (stage, fatal, loops, values) in FAULTS[l].items():
            if name == "truncate":
                values = ["t%d" % k for k in range(0, n_tokens(l), trunc_step)]
            t[l][name] = (stage, fatal, loops, values)
    return t


if __name__ == "__main__":
    for l in LAYOUTS:
        b = build(l, {})
        open("/tmp/layout_%s.pdf" % l, "wb").write(b)
        print(l, len(b), n_tokens(l), sum(len(v[3] or []) for v in FAULTS[l].values()))
