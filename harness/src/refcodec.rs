//! Reference encoders / decoders written from ISO 32000-1 §7.4 and the PNG / TIFF specifications,
//! independent of the library under test (zlib / deflate via flate2+miniz_oxide, LZW via weezl).

pub fn hex_encode(d: &[u8]) -> Vec<u8> {
    let mut o: Vec<u8> = d.iter().flat_map(|b| format!("{:02X}", b).into_bytes()).collect();
    o.push(b'>');
    o
}
/// lenient on a missing EOD marker (end of data = EOD)
pub fn hex_decode(d: &[u8]) -> Option<Vec<u8>> {
    let mut nib = Vec::new();
    for &c in d {
        if c == b'>' { break; }
        if matches!(c, 0 | 9 | 10 | 12 | 13 | 32) { continue; }
        nib.push((c as char).to_digit(16)? as u8);
    }
    if nib.len() % 2 == 1 { nib.push(0); }
    Some(nib.chunks(2).map(|p| p[0] << 4 | p[1]).collect())
}

pub fn a85_group(b: [u8; 4]) -> [u8; 5] {
    let mut n = u32::from_be_bytes(b) as u64;
    let mut o = [0u8; 5];
    for i in (0..5).rev() { o[i] = (n % 85) as u8 + b'!'; n /= 85; }
    o
}
pub fn a85_encode(d: &[u8]) -> Vec<u8> {
    let mut o = Vec::new();
    for ch in d.chunks(4) {
        if ch.len() == 4 {
            if ch == [0, 0, 0, 0] { o.push(b'z'); } else { o.extend_from_slice(&a85_group([ch[0], ch[1], ch[2], ch[3]])); }
        } else {
            let mut b = [0u8; 4];
            b[..ch.len()].copy_from_slice(ch);
            o.extend_from_slice(&a85_group(b)[..ch.len() + 1]);
        }
    }
    o.extend_from_slice(b"~>");
    o
}
pub fn a85_decode(d: &[u8]) -> Option<Vec<u8>> {
    let mut o = Vec::new();
    let mut g: Vec<u8> = Vec::new();
    let mut it = d.iter().cloned().filter(|c| !matches!(c, 0 | 9 | 10 | 12 | 13 | 32));
    loop {
        let c = it.next()?;
        match c {
            b'~' => { if it.next()? != b'>' { return None; } break; }
            b'z' if g.is_empty() => o.extend_from_slice(&[0; 4]),
            b'!'..=b'u' => {
                g.push(c - b'!');
                if g.len() == 5 {
                    let n = g.iter().fold(0u64, |a, x| a * 85 + *x as u64);
                    if n > u32::MAX as u64 { return None; }
                    o.extend_from_slice(&(n as u32).to_be_bytes());
                    g.clear();
                }
            }
            _ => return None,
        }
    }
    if g.len() == 1 { return None; }
    if !g.is_empty() {
        let k = g.len();
        while g.len() < 5 { g.push(84); }
        let n = g.iter().fold(0u64, |a, x| a * 85 + *x as u64);
        if n > u32::MAX as u64 { return None; }
        o.extend_from_slice(&(n as u32).to_be_bytes()[..k - 1]);
    }
    Some(o)
}

pub fn rl_encode(d: &[u8]) -> Vec<u8> {
    let mut o = Vec::new();
    let mut i = 0;
    while i < d.len() {
        let mut run = 1;
        while i + run < d.len() && d[i + run] == d[i] && run < 128 { run += 1; }
        if run >= 2 {
            o.push((257 - run) as u8);
            o.push(d[i]);
            i += run;
        } else {
            let start = i;
            i += 1;
            while i < d.len() && i - start < 128 && !(i + 1 < d.len() && d[i] == d[i + 1]) { i += 1; }
            o.push((i - start - 1) as u8);
            o.extend_from_slice(&d[start..i]);
        }
    }
    o.push(128);
    o
}
pub fn rl_decode(d: &[u8]) -> Option<Vec<u8>> {
    let mut o = Vec::new();
    let mut i = 0;
    while i < d.len() {
        let h = d[i];
        if h < 128 { let n = h as usize + 1; o.extend_from_slice(d.get(i + 1..i + 1 + n)?); i += 1 + n; }
        else if h == 128 { break; }
        else { let b = *d.get(i + 1)?; o.extend(std::iter::repeat(b).take(257 - h as usize)); i += 2; }
    }
    Some(o)
}

pub fn zlib(d: &[u8]) -> Vec<u8> { crate::mkpdf::zlib(d) }
pub fn raw_deflate(d: &[u8]) -> Vec<u8> {
    use std::io::Write;
    let mut e = flate2::write::DeflateEncoder::new(Vec::new(), flate2::Compression::default());
    e.write_all(d).unwrap();
    e.finish().unwrap()
}
pub fn inflate_zlib(d: &[u8]) -> Option<Vec<u8>> {
    use std::io::Read;
    let mut o = Vec::new();
    flate2::read::ZlibDecoder::new(d).read_to_end(&mut o).ok()?;
    Some(o)
}
pub fn lzw_encode(d: &[u8], early_change: bool) -> Vec<u8> {
    use weezl::{encode::Encoder, BitOrder};
    let mut enc = if early_change { Encoder::with_tiff_size_switch(BitOrder::Msb, 8) } else { Encoder::new(BitOrder::Msb, 8) };
    enc.encode(d).unwrap()
}
pub fn lzw_decode(d: &[u8], early_change: bool) -> Option<Vec<u8>> {
    use weezl::{decode::Decoder, BitOrder};
    let mut dec = if early_change { Decoder::with_tiff_size_switch(BitOrder::Msb, 8) } else { Decoder::new(BitOrder::Msb, 8) };
    dec.decode(d).ok()
}

pub fn paeth(a: i32, b: i32, c: i32) -> i32 {
    let p = a + b - c;
    let (pa, pb, pc) = ((p - a).abs(), (p - b).abs(), (p - c).abs());
    if pa <= pb && pa <= pc { a } else if pb <= pc { b } else { c }
}
/// PNG filtering of rows of `rowlen` bytes with per-row tags (tags cycle)
pub fn png_filter(d: &[u8], rowlen: usize, bpp: usize, tags: &[u8]) -> Vec<u8> {
    let mut o = Vec::new();
    let zero = vec![0u8; rowlen];
    for (r, row) in d.chunks(rowlen).enumerate() {
        let prev: &[u8] = if r == 0 { &zero } else { &d[(r - 1) * rowlen..r * rowlen] };
        let tag = tags[r % tags.len()];
        o.push(tag);
        for i in 0..row.len() {
            let a = if i >= bpp { row[i - bpp] as i32 } else { 0 };
            let b = prev[i] as i32;
            let c = if i >= bpp { prev[i - bpp] as i32 } else { 0 };
            let pred = match tag { 0 => 0, 1 => a, 2 => b, 3 => (a + b) / 2, _ => paeth(a, b, c) };
            o.push((row[i] as i32 - pred).rem_euclid(256) as u8);
        }
    }
    o
}
/// TIFF predictor 2 for samples of 1, 2, 4, 8 or 16 bits (TIFF 6.0 section 14: every sample is replaced by its difference to the
/// sample of the same component of the pixel to its left, modulo 2^bits; rows start on byte boundaries, samples are packed
/// most significant bit first, 16 bit samples are big-endian)
pub fn tiff_filter_bits(d: &[u8], rowlen: usize, colors: usize, bits: usize, samples_per_row: usize) -> Vec<u8> {
    let mut o = Vec::with_capacity(d.len());
    for row in d.chunks(rowlen) {
        // (the bits that pad the last byte of a row are no samples and stay as they are)
        let n = (row.len() * 8 / bits).min(if samples_per_row == 0 { usize::MAX } else { samples_per_row });
        let get = |i: usize| -> u32 { let bit = i * bits; (0..bits).fold(0u32, |acc, b| (acc << 1) | ((row[(bit + b) / 8] >> (7 - (bit + b) % 8)) & 1) as u32) };
        let samples: Vec<u32> = (0..n).map(get).collect();
        let mask = if bits == 32 { u32::MAX } else { (1u32 << bits) - 1 };
        let mut out = vec![0u8; row.len()];
        if n * bits < row.len() * 8 { let last = row.len() - 1; out[last] = row[last] & (0xffu8 >> ((n * bits) % 8)); }
        for i in 0..n {
            let v = if i >= colors { samples[i].wrapping_sub(samples[i - colors]) & mask } else { samples[i] };
            for b in 0..bits {
                if (v >> (bits - 1 - b)) & 1 == 1 { let bit = i * bits + b; out[bit / 8] |= 1 << (7 - bit % 8); }
            }
        }
        o.extend_from_slice(&out);
    }
    o
}
/// TIFF predictor 2 (horizontal differencing), 8 bits per component
pub fn tiff_filter(d: &[u8], rowlen: usize, colors: usize) -> Vec<u8> {
    let mut o = d.to_vec();
    for row in o.chunks_mut(rowlen) {
        for i in (colors..row.len()).rev() { row[i] = row[i].wrapping_sub(row[i - colors]); }
    }
    o
}
