//! Independent structural validator: the concretisation of `WellFormedFile` (C10).
//! Own tokenizer (refparse), own xref table / xref stream reader; shares no code with the library.

use crate::refparse::{Val, P};
use std::collections::BTreeMap;

#[derive(Debug, Clone)]
pub enum Entry {
    Free,
    InUse(usize, u64),
    Compressed(u64, usize),
}

pub struct Report {
    pub problems: Vec<String>,
    pub objects: usize,
    pub streams: usize,
    pub refs: usize,
}

fn inflate(d: &[u8]) -> Option<Vec<u8>> {
    use std::io::Read;
    let mut out = Vec::new();
    flate2::read::ZlibDecoder::new(d).read_to_end(&mut out).ok()?;
    Some(out)
}

struct Obj {
    val: Val,
    stream: Option<(usize, usize)>, // data range
}

/// parse `n g obj <value> [stream ... endstream] endobj` at `off`; `len_of` resolves an indirect /Length
fn parse_obj(b: &[u8], off: usize, want: (u64, u64), len_of: &dyn Fn(u64) -> Option<usize>, problems: &mut Vec<String>) -> Option<Obj> {
    let mut p = P::at(b, off);
    let n = p.value(0).ok()?;
    let g = p.value(0).ok()?;
    if (n.as_int(), g.as_int()) != (Some(want.0 as i64), Some(want.1 as i64)) {
        problems.push(format!("entry for object {} {} points at offset {} where `{:?} {:?}` is found", want.0, want.1, off, n, g));
        return None;
    }
    if !p.keyword(b"obj") {
        problems.push(format!("object {}: `obj` keyword missing at offset {}", want.0, off));
        return None;
    }
    // between objects there is only white-space and comments, and a comment runs to the end of its line:
    // an object header behind a `%` on the same line is part of that comment for every sequential reader
    let line_start = b[..off].iter().rposition(|&c| c == b'\n' || c == b'\r').map(|i| i + 1).unwrap_or(0);
    if b[line_start..off].contains(&b'%') {
        problems.push(format!("object {}: its header at offset {} follows a comment on the same line (`{}`)", want.0, off, String::from_utf8_lossy(&b[line_start..off])));
    }
    let val = match p.value(0) {
        Ok(v) => v,
        Err(e) => {
            problems.push(format!("object {}: value does not parse: {} at {}", want.0, e.0, e.1));
            return None;
        }
    };
    let mut stream = None;
    if p.keyword(b"stream") {
        // EOL after the keyword: LF or CR LF
        if b.get(p.pos) == Some(&b'\r') && b.get(p.pos + 1) == Some(&b'\n') {
            p.pos += 2;
        } else if b.get(p.pos) == Some(&b'\n') {
            p.pos += 1;
        } else {
            problems.push(format!("object {}: `stream` is not followed by LF or CRLF", want.0));
        }
        let len = match val.get("Length") {
            Some(Val::Int(l)) if *l >= 0 => Some(*l as usize),
            Some(Val::Ref(n, _)) => len_of(*n),
            _ => None,
        };
        match len {
            Some(l) if p.pos + l <= b.len() => {
                let start = p.pos;
                p.pos += l;
                stream = Some((start, start + l));
                if !p.keyword(b"endstream") {
                    problems.push(format!("object {}: /Length {} does not end at `endstream`", want.0, l));
                }
            }
            _ => problems.push(format!("object {}: stream without usable /Length", want.0)),
        }
    }
    if !p.keyword(b"endobj") {
        problems.push(format!("object {}: `endobj` missing", want.0));
    }
    Some(Obj { val, stream })
}

/// read one xref section at `off` (relative to the header); returns entries, trailer, /Prev
fn read_section(b: &[u8], hdr: usize, off: usize, problems: &mut Vec<String>) -> Option<(BTreeMap<u64, Entry>, Val)> {
    let mut p = P::at(b, hdr + off);
    let mut entries = BTreeMap::new();
    if p.keyword(b"xref") {
        loop {
            if p.keyword(b"trailer") {
                break;
            }
            let first = p.value(0).ok()?.as_int()? as u64;
            let count = p.value(0).ok()?.as_int()? as u64;
            for i in 0..count {
                let a = p.value(0).ok()?.as_int()?;
                let g = p.value(0).ok()?.as_int()?;
                p.skip_ws();
                let t = *b.get(p.pos)?;
                p.pos += 1;
                entries.insert(first + i, if t == b'n' { Entry::InUse(a as usize, g as u64) } else { Entry::Free });
            }
        }
        let trailer = p.value(0).ok()?;
        Some((entries, trailer))
    } else {
        // xref stream
        let n = p.value(0).ok()?.as_int()? as u64;
        let g = p.value(0).ok()?.as_int()? as u64;
        let o = parse_obj(b, hdr + off, (n, g), &|_| None, problems)?;
        let d = o.val.clone();
        if d.get("Type") != Some(&Val::Name(b"XRef".to_vec())) {
            problems.push("startxref does not point at an xref table or an /XRef stream".into());
            return None;
        }
        let (s, e) = o.stream?;
        let mut data = b[s..e].to_vec();
        match d.get("Filter") {
            None => {}
            Some(Val::Name(f)) if f == b"FlateDecode" => data = inflate(&data)?,
            Some(f) => {
                problems.push(format!("xref stream filter {:?} not understood by the validator", f));
                return None;
            }
        }
        let w: Vec<usize> = match d.get("W") {
            Some(Val::Arr(a)) => a.iter().filter_map(|v| v.as_int()).map(|v| v as usize).collect(),
            _ => return None,
        };
        if w.len() != 3 {
            problems.push("/W is not an array of three integers".into());
            return None;
        }
        let size = d.get("Size")?.as_int()? as u64;
        let index: Vec<u64> = match d.get("Index") {
            Some(Val::Arr(a)) => a.iter().filter_map(|v| v.as_int()).map(|v| v as u64).collect(),
            _ => vec![0, size],
        };
        let mut pos = 0;
        let rec = w[0] + w[1] + w[2];
        for pair in index.chunks(2) {
            for i in 0..pair[1] {
                if pos + rec > data.len() {
                    problems.push("xref stream data shorter than /Index says".into());
                    return None;
                }
                let f = |a: usize, n: usize| data[a..a + n].iter().fold(0u64, |x, b| x << 8 | *b as u64);
                let t = if w[0] == 0 { 1 } else { f(pos, w[0]) };
                let a = f(pos + w[0], w[1]);
                let c = f(pos + w[0] + w[1], w[2]);
                pos += rec;
                entries.insert(pair[0] + i, match t { 0 => Entry::Free, 1 => Entry::InUse(a as usize, c), 2 => Entry::Compressed(a, c as usize), _ => Entry::Free });
            }
        }
        if pos != data.len() {
            problems.push(format!("xref stream has {} bytes of data, /Index accounts for {}", data.len(), pos));
        }
        Some((entries, d))
    }
}

pub fn validate(b: &[u8]) -> Report {
    let mut problems = Vec::new();
    let mut rep = Report { problems: Vec::new(), objects: 0, streams: 0, refs: 0 };
    // header first
    if !b.starts_with(b"%PDF-") {
        problems.push("the file does not start with the header %PDF-".into());
    }
    let hdr = b.windows(5).position(|w| w == b"%PDF-").unwrap_or(0);
    // startxref
    let sx = match b.windows(9).rposition(|w| w == b"startxref") {
        Some(p) => p,
        None => {
            problems.push("no startxref".into());
            rep.problems = problems;
            return rep;
        }
    };
    let mut p = P::at(b, sx + 9);
    let start = match p.value(0) {
        Ok(Val::Int(i)) if i >= 0 => i as usize,
        _ => {
            problems.push("startxref is not followed by an offset".into());
            rep.problems = problems;
            return rep;
        }
    };
    while b.get(p.pos).map(|c| crate::refparse::is_ws(*c)).unwrap_or(false) {
        p.pos += 1;
    }
    if !b[p.pos..].starts_with(b"%%EOF") {
        problems.push("no %%EOF after the startxref offset".into());
    }
    // chain of sections, newest first
    let mut table: BTreeMap<u64, Entry> = BTreeMap::new();
    let mut trailer = None;
    let mut next = Some(start);
    let mut seen = Vec::new();
    while let Some(off) = next {
        if seen.contains(&off) || hdr + off >= b.len() {
            problems.push(format!("bad xref chain at offset {}", off));
            break;
        }
        seen.push(off);
        match read_section(b, hdr, off, &mut problems) {
            Some((es, tr)) => {
                for (k, v) in es {
                    table.entry(k).or_insert(v);
                }
                next = tr.get("Prev").and_then(|v| v.as_int()).map(|v| v as usize);
                if trailer.is_none() {
                    trailer = Some(tr);
                }
            }
            None => {
                problems.push(format!("the cross-reference section at offset {} cannot be read", off));
                break;
            }
        }
    }
    let trailer = match trailer {
        Some(t) => t,
        None => {
            rep.problems = problems;
            return rep;
        }
    };
    let size = trailer.get("Size").and_then(|v| v.as_int()).unwrap_or(-1);
    // /Size above every object number
    if let Some(max) = table.keys().max() {
        if size <= *max as i64 {
            problems.push(format!("/Size {} is not above the highest object number {}", size, max));
        }
    }
    // every in-use entry points at the matching object header; every stream /Length = its byte count
    let lens: BTreeMap<u64, usize> = table.iter().filter_map(|(n, e)| match e {
        Entry::InUse(off, g) => {
            let mut q = Vec::new();
            parse_obj(b, hdr + off, (*n, *g), &|_| None, &mut q).and_then(|o| o.val.as_int()).map(|l| (*n, l as usize))
        }
        _ => None,
    }).collect();
    let mut all_refs: Vec<(u64, u64)> = Vec::new();
    trailer.refs(&mut all_refs);
    for (n, e) in table.iter() {
        if let Entry::InUse(off, g) = e {
            if *n == 0 {
                continue;
            }
            if hdr + off >= b.len() {
                problems.push(format!("entry for object {} points beyond the end of the file", n));
                continue;
            }
            if let Some(o) = parse_obj(b, hdr + off, (*n, *g), &|r| lens.get(&r).copied(), &mut problems) {
                rep.objects += 1;
                if o.stream.is_some() {
                    rep.streams += 1;
                }
                o.val.refs(&mut all_refs);
                // members of object streams
                if o.val.get("Type") == Some(&Val::Name(b"ObjStm".to_vec())) {
                    if let Some((s, e)) = o.stream {
                        let mut data = b[s..e].to_vec();
                        if let Some(Val::Name(f)) = o.val.get("Filter") {
                            if f == b"FlateDecode" {
                                data = inflate(&data).unwrap_or_default();
                            }
                        }
                        let first = o.val.get("First").and_then(|v| v.as_int()).unwrap_or(0) as usize;
                        let cnt = o.val.get("N").and_then(|v| v.as_int()).unwrap_or(0) as usize;
                        let mut hp = P::new(&data);
                        for _ in 0..cnt {
                            let _nr = hp.value(0);
                            if let Ok(Val::Int(of)) = hp.value(0) {
                                let mut mp = P::at(&data, first + of as usize);
                                if let Ok(v) = mp.value(0) {
                                    v.refs(&mut all_refs);
                                } else {
                                    problems.push(format!("member of object stream {} does not parse", n));
                                }
                            }
                        }
                    }
                }
            }
        }
    }
    // no reference to an undefined object
    rep.refs = all_refs.len();
    for (n, _g) in all_refs {
        match table.get(&n) {
            Some(Entry::InUse(..)) | Some(Entry::Compressed(..)) => {}
            _ => problems.push(format!("reference to undefined object {}", n)),
        }
    }
    problems.sort();
    problems.dedup();
    rep.problems = problems;
    rep
}
