//! C08 – Engine A: (1) operation sequences emitted by TLC (spec/Content.tla) -> serialize_ops ->
//! parse_ops -> the same sequence; (2) every row of the operator table (spec/ContentTable.tla) printed
//! by a reference printer -> parse_ops -> the operations the table says, operands in order, none leaking.

use crate::observe::*;
use crate::report::*;
use pdf::content::*;
use pdf::object::{NoResolve, RenderingIntent, Stream};
use pdf::primitive::{Dictionary, Name, PdfString, Primitive};
use serde_json::{json, Value};

fn pt(k: i64, f: f32) -> Point {
    if k == 1 { Point { x: 0.0, y: 0.0 } } else { Point { x: k as f32 * 1.5 * f, y: (k as f32 + 10.25) * f } }
}
fn nm(k: i64) -> Name { Name::from(format!("N{}", k)) }
fn txt(k: i64) -> PdfString { PdfString::new(format!("text {}", k).as_bytes().into()) }
fn wind(k: i64) -> Winding { if k == 1 { Winding::NonZero } else { Winding::EvenOdd } }
fn color(k: i64, f: f32) -> Color {
    match k {
        1 => Color::Gray(0.5 * f),
        2 => Color::Rgb(Rgb { red: 0.25 * f, green: 0.5, blue: 1.0 }),
        3 => Color::Cmyk(Cmyk { cyan: 0.1, magenta: 0.2 * f, yellow: 0.3, key: 1.0 }),
        _ => Color::Other(vec![Primitive::Number(0.5 * f), Primitive::Integer(1), Primitive::Name("P1".into())]),
    }
}

/// abstract operation of spec/Content.tla -> concrete operation; `f` scales every number
pub fn make_op(name: &str, a: &[i64], f: f32) -> Op {
    let n = |k: i64| k as f32 * f;
    match name {
        "Close" => Op::Close,
        "Stroke" => Op::Stroke,
        "FillAndStroke" => Op::FillAndStroke { winding: wind(a[0]) },
        "MoveTo" => Op::MoveTo { p: pt(a[0], f) },
        "LineTo" => Op::LineTo { p: pt(a[0], f) },
        "CurveTo" => Op::CurveTo { c1: pt(a[0], f), c2: pt(a[1], f), p: pt(a[2], f) },
        "Rect" => Op::Rect { rect: ViewRect { x: pt(a[0], f).x, y: pt(a[0], f).y, width: pt(a[1], f).x, height: pt(a[1], f).y } },
        "EndPath" => Op::EndPath,
        "WordSpacing" => Op::WordSpacing { word_space: n(a[0]) + 0.5 * f },
        "CharSpacing" => Op::CharSpacing { char_space: n(a[0]) + 0.25 * f },
        "TextNewline" => Op::TextNewline,
        "TextDraw" => Op::TextDraw { text: txt(a[0]) },
        "Leading" => Op::Leading { leading: n(a[0]) },
        "MoveText" => Op::MoveTextPosition { translation: Point { x: n(a[0]), y: n(a[1]) } },
        "Shade" => Op::Shade { name: nm(a[0]) },
        "RenderingIntent" => Op::RenderingIntent { intent: RenderingIntent::RelativeColorimetric },
        "Fill" => Op::Fill { winding: wind(a[0]) },
        "Clip" => Op::Clip { winding: wind(a[0]) },
        "BeginMarkedContent" => Op::BeginMarkedContent { tag: nm(a[0]), properties: if a[1] == 0 { None } else { let mut d = Dictionary::new(); d.insert("MCID", Primitive::Integer(3)); Some(Primitive::Dictionary(d)) } },
        "EndMarkedContent" => Op::EndMarkedContent,
        "MarkedContentPoint" => Op::MarkedContentPoint { tag: nm(a[0]), properties: if a[1] == 0 { None } else { Some(Primitive::Name("Props".into())) } },
        "Save" => Op::Save,
        "Restore" => Op::Restore,
        "Transform" => Op::Transform { matrix: Matrix { a: 1.0, b: 0.5 * f, c: -0.5, d: 2.0, e: 10.0 * f, f: 20.0 } },
        "LineWidth" => Op::LineWidth { width: 1.5 * f },
        "Dash" => Op::Dash { pattern: vec![3.0, 1.5 * f], phase: 2.0 },
        "LineJoin" => Op::LineJoin { join: LineJoin::Round },
        "LineCap" => Op::LineCap { cap: LineCap::Square },
        "MiterLimit" => Op::MiterLimit { limit: 4.0 * f },
        "Flatness" => Op::Flatness { tolerance: 0.5 * f },
        "GraphicsState" => Op::GraphicsState { name: nm(a[0]) },
        "StrokeColor" => Op::StrokeColor { color: color(a[0], f) },
        "FillColor" => Op::FillColor { color: color(a[0], f) },
        "FillColorSpace" => Op::FillColorSpace { name: nm(a[0]) },
        "StrokeColorSpace" => Op::StrokeColorSpace { name: nm(a[0]) },
        "BeginText" => Op::BeginText,
        "EndText" => Op::EndText,
        "TextScaling" => Op::TextScaling { horiz_scale: 90.0 * f },
        "TextFont" => Op::TextFont { name: nm(a[0]), size: 12.0 * f },
        "TextRenderMode" => Op::TextRenderMode { mode: TextMode::FillThenStroke },
        "TextRise" => Op::TextRise { rise: 2.5 * f },
        "SetTextMatrix" => Op::SetTextMatrix { matrix: Matrix { a: 1.0, b: 0.0, c: 0.0, d: 1.0, e: 72.0 * f, f: 720.5 } },
        "TextDrawAdjusted" => Op::TextDrawAdjusted { array: vec![TextDrawAdjusted::Text(txt(1)), TextDrawAdjusted::Spacing(-120.0 * f), TextDrawAdjusted::Text(PdfString::new(b"(x)\\".as_slice().into()))] },
        "XObject" => Op::XObject { name: nm(a[0]) },
        o => panic!("unknown abstract op {}", o),
    }
}

fn dbg(ops: &[Op]) -> Vec<String> {
    ops.iter().map(|o| format!("{:?}", o)).collect()
}

fn abstract_ops(v: &Value, f: f32) -> Vec<Op> {
    v.as_array().unwrap().iter().map(|o| {
        let a: Vec<i64> = o["a"].as_array().unwrap().iter().map(|x| x.as_i64().unwrap()).collect();
        make_op(o["op"].as_str().unwrap(), &a, f)
    }).collect()
}

const SCALES: &[f32] = &[1.0, 0.001, 12345.678, 3.0e9, 1.0e-7];

fn roundtrip_case(rep: &mut Report, ci: usize, case: &Value, all: bool) {
    let scales: Vec<f32> = if all { SCALES.to_vec() } else { vec![1.0, SCALES[1 + ci % 4]] };
    for f in scales {
        rep.execs += 1;
        let ops = abstract_ops(&case["ops"], f);
        let want: Vec<String> = dbg(&ops).into_iter().map(norm).collect();
        let res = guarded(|| {
            let bytes = serialize_ops(&ops)?;
            let back = parse_ops(&bytes, &NoResolve)?;
            Ok::<_, pdf::error::PdfError>((bytes, back))
        });
        let boundary = if f > 1.0e6 { ":big" } else if f < 1.0e-5 { ":tiny" } else { "" };
        match res {
            Outcome::Done(Ok((bytes, back))) => {
                let got: Vec<String> = dbg(&back).into_iter().map(norm).collect();
                if got != want {
                    let asb = got == dbg(&abstract_ops(&case["mech"], f)).into_iter().map(norm).collect::<Vec<_>>();
                    let first = (0..want.len().max(got.len())).find(|k| want.get(*k) != got.get(*k)).unwrap_or(0);
                    let opname = case["ops"].get(first).and_then(|o| o["op"].as_str()).unwrap_or("end").to_string();
                    rep.fail(&format!("roundtrip:{}{}", opname, boundary), json!({"case_index": ci, "case": case, "scale": f, "text": String::from_utf8_lossy(&bytes), "expected": want, "observed": got, "matches_asbuilt": asb}));
                }
            }
            Outcome::Done(Err(e)) => rep.fail(&format!("roundtrip:err{}", boundary), json!({"case_index": ci, "case": case, "scale": f, "observed": err_json(&e)})),
            Outcome::Panic(p) => rep.fail(&format!("roundtrip:panic:{}", p.sym), json!({"case_index": ci, "case": case, "scale": f, "observed": panic_json(&p)})),
        }
    }
}

// ------------------------------------------------------------------ operator table

#[derive(Clone, Debug)]
enum Operand { N(f32), I(i32), Nm(String), S(Vec<u8>), An(Vec<f32>), Atj, Pr(bool), Ri }

fn operand(kind: &str, pos: usize, variant: usize) -> Operand {
    match kind {
        "n" => Operand::N([1.5, -2.0, 0.25, 4.0, 100.0, -0.5, 3.0e9, 1.0e-4][(pos + variant) % 8]),
        "i" => Operand::I(((pos + variant) % 3) as i32),
        "nm" => Operand::Nm(format!("Nm{}", pos + variant)),
        "s" => Operand::S(match variant % 3 { 0 => b"plain text".to_vec(), 1 => b"par(en)s \\ and \r\n".to_vec(), _ => vec![0x00, 0x80, 0xff, b'A'] }),
        "an" => Operand::An(vec![3.0, 1.5 + variant as f32]),
        "atj" => Operand::Atj,
        "pr" => Operand::Pr(variant % 2 == 0),
        "ri" => Operand::Ri,
        k => panic!("operand kind {}", k),
    }
}

fn num_text(x: f32, variant: usize) -> String {
    // conformant spellings of a number
    if x == x.trunc() && x.abs() < 1.0e6 {
        match variant % 3 { 0 => format!("{}", x as i64), 1 => format!("{}.0", x as i64), _ => format!("{}.", x as i64) }
    } else if x.abs() < 1.0 && x != 0.0 && variant % 2 == 1 && x.abs() >= 0.01 {
        let s = format!("{}", x.abs());
        format!("{}{}", if x < 0.0 { "-" } else { "" }, &s[1..])      // .25 / -.5
    } else {
        format!("{}", x)
    }
}

fn print_operand(o: &Operand, variant: usize) -> String {
    match o {
        Operand::N(x) => num_text(*x, variant),
        Operand::I(i) => format!("{}", i),
        Operand::Nm(n) => format!("/{}", n),
        Operand::S(s) => {
            if variant % 2 == 1 || s.iter().any(|b| *b >= 0x80 || *b == 0) {
                format!("<{}>", s.iter().map(|b| format!("{:02x}", b)).collect::<String>())
            } else {
                let mut t = String::from("(");
                for &b in s { match b { b'(' | b')' | b'\\' => { t.push('\\'); t.push(b as char) } b'\r' => t.push_str("\\r"), b'\n' => t.push_str("\\n"), _ => t.push(b as char) } }
                t.push(')');
                t
            }
        }
        Operand::An(v) => format!("[{}]", v.iter().map(|x| num_text(*x, variant)).collect::<Vec<_>>().join(" ")),
        Operand::Atj => "[(ab) -120 (c) 3.5 <4142>]".to_string(),
        Operand::Pr(true) => "<< /MCID 3 >>".to_string(),
        Operand::Pr(false) => "/Props".to_string(),
        Operand::Ri => "/RelativeColorimetric".to_string(),
    }
}

fn num(o: &Operand) -> f32 { match o { Operand::N(x) => *x, Operand::I(i) => *i as f32, _ => panic!("not a number") } }
fn name_of(o: &Operand) -> Name { match o { Operand::Nm(n) => Name::from(n.clone()), _ => panic!("not a name") } }
fn str_of(o: &Operand) -> PdfString { match o { Operand::S(s) => PdfString::new(s.as_slice().into()), _ => panic!("not a string") } }
fn prim_of(o: &Operand) -> Primitive {
    match o {
        Operand::N(x) => if *x == x.trunc() && x.abs() < 1.0e6 { Primitive::Number(*x) } else { Primitive::Number(*x) },
        Operand::Nm(n) => Primitive::Name(n.as_str().into()),
        Operand::Pr(true) => { let mut d = Dictionary::new(); d.insert("MCID", Primitive::Integer(3)); Primitive::Dictionary(d) }
        Operand::Pr(false) => Primitive::Name("Props".into()),
        _ => panic!("no primitive"),
    }
}

/// the operation a table row denotes, built from the row's template and the concrete operands
fn denoted(op: &str, u: &[&Operand], current: Point) -> Op {
    let p2 = |i: usize| Point { x: num(u[i]), y: num(u[i + 1]) };
    let mat = || Matrix { a: num(u[0]), b: num(u[1]), c: num(u[2]), d: num(u[3]), e: num(u[4]), f: num(u[5]) };
    match op {
        "Close" => Op::Close, "Stroke" => Op::Stroke, "EndPath" => Op::EndPath, "Save" => Op::Save, "Restore" => Op::Restore,
        "BeginText" => Op::BeginText, "EndText" => Op::EndText, "EndMarkedContent" => Op::EndMarkedContent, "TextNewline" => Op::TextNewline,
        "FillAndStroke:nz" => Op::FillAndStroke { winding: Winding::NonZero }, "FillAndStroke:eo" => Op::FillAndStroke { winding: Winding::EvenOdd },
        "Fill:nz" => Op::Fill { winding: Winding::NonZero }, "Fill:eo" => Op::Fill { winding: Winding::EvenOdd },
        "Clip:nz" => Op::Clip { winding: Winding::NonZero }, "Clip:eo" => Op::Clip { winding: Winding::EvenOdd },
        "BeginMarkedContent" => Op::BeginMarkedContent { tag: name_of(u[0]), properties: u.get(1).map(|o| prim_of(o)) },
        "MarkedContentPoint" => Op::MarkedContentPoint { tag: name_of(u[0]), properties: u.get(1).map(|o| prim_of(o)) },
        "CurveTo" => Op::CurveTo { c1: p2(0), c2: p2(2), p: p2(4) },
        "CurveTo:v" => Op::CurveTo { c1: current, c2: p2(0), p: p2(2) },
        "CurveTo:y" => Op::CurveTo { c1: p2(0), c2: p2(2), p: p2(2) },
        "Transform" => Op::Transform { matrix: mat() },
        "SetTextMatrix" => Op::SetTextMatrix { matrix: mat() },
        "StrokeColorSpace" => Op::StrokeColorSpace { name: name_of(u[0]) }, "FillColorSpace" => Op::FillColorSpace { name: name_of(u[0]) },
        "Dash" => Op::Dash { pattern: match u[0] { Operand::An(v) => v.clone(), _ => panic!() }, phase: num(u[1]) },
        "XObject" => Op::XObject { name: name_of(u[0]) }, "GraphicsState" => Op::GraphicsState { name: name_of(u[0]) }, "Shade" => Op::Shade { name: name_of(u[0]) },
        "StrokeColor:gray" => Op::StrokeColor { color: Color::Gray(num(u[0])) }, "FillColor:gray" => Op::FillColor { color: Color::Gray(num(u[0])) },
        "StrokeColor:rgb" => Op::StrokeColor { color: Color::Rgb(Rgb { red: num(u[0]), green: num(u[1]), blue: num(u[2]) }) },
        "FillColor:rgb" => Op::FillColor { color: Color::Rgb(Rgb { red: num(u[0]), green: num(u[1]), blue: num(u[2]) }) },
        "StrokeColor:cmyk" => Op::StrokeColor { color: Color::Cmyk(Cmyk { cyan: num(u[0]), magenta: num(u[1]), yellow: num(u[2]), key: num(u[3]) }) },
        "FillColor:cmyk" => Op::FillColor { color: Color::Cmyk(Cmyk { cyan: num(u[0]), magenta: num(u[1]), yellow: num(u[2]), key: num(u[3]) }) },
        "StrokeColor:other" => Op::StrokeColor { color: Color::Other(u.iter().map(|o| prim_of(o)).collect()) },
        "FillColor:other" => Op::FillColor { color: Color::Other(u.iter().map(|o| prim_of(o)).collect()) },
        "Flatness" => Op::Flatness { tolerance: num(u[0]) }, "MiterLimit" => Op::MiterLimit { limit: num(u[0]) }, "LineWidth" => Op::LineWidth { width: num(u[0]) },
        "LineJoin" => Op::LineJoin { join: [LineJoin::Miter, LineJoin::Round, LineJoin::Bevel][num(u[0]) as usize] },
        "LineCap" => Op::LineCap { cap: [LineCap::Butt, LineCap::Round, LineCap::Square][num(u[0]) as usize] },
        "LineTo" => Op::LineTo { p: p2(0) }, "MoveTo" => Op::MoveTo { p: p2(0) },
        "Rect" => Op::Rect { rect: ViewRect { x: num(u[0]), y: num(u[1]), width: num(u[2]), height: num(u[3]) } },
        "RenderingIntent" => Op::RenderingIntent { intent: RenderingIntent::RelativeColorimetric },
        "CharSpacing" => Op::CharSpacing { char_space: num(u[0]) }, "WordSpacing" => Op::WordSpacing { word_space: num(u[0]) },
        "MoveTextPosition" => Op::MoveTextPosition { translation: p2(0) },
        "Leading" => Op::Leading { leading: num(u[0]) }, "Leading:neg" => Op::Leading { leading: -num(u[0]) },
        "TextFont" => Op::TextFont { name: name_of(u[0]), size: num(u[1]) },
        "TextDraw" => Op::TextDraw { text: str_of(u[0]) },
        "TextDrawAdjusted" => Op::TextDrawAdjusted { array: vec![TextDrawAdjusted::Text(PdfString::new(b"ab".as_slice().into())), TextDrawAdjusted::Spacing(-120.0),
            TextDrawAdjusted::Text(PdfString::new(b"c".as_slice().into())), TextDrawAdjusted::Spacing(3.5), TextDrawAdjusted::Text(PdfString::new(b"AB".as_slice().into()))] },
        "TextRenderMode" => Op::TextRenderMode { mode: [TextMode::Fill, TextMode::Stroke, TextMode::FillThenStroke][num(u[0]) as usize] },
        "TextRise" => Op::TextRise { rise: num(u[0]) }, "TextScaling" => Op::TextScaling { horiz_scale: num(u[0]) },
        o => panic!("unknown table op {}", o),
    }
}

/// Debug rendering with integers and reals of equal value identified (Color::Other keeps primitives)
fn norm(s: String) -> String {
    let mut out = String::new();
    let mut rest = s.as_str();
    while let Some(p) = rest.find("Integer(") {
        out.push_str(&rest[..p]);
        let tail = &rest[p + 8..];
        let end = tail.find(')').unwrap_or(0);
        out.push_str(&format!("Number({}.0)", &tail[..end]));
        rest = &tail[end + 1..];
    }
    out.push_str(rest);
    out
}

fn table_case(rep: &mut Report, ci: usize, case: &Value, all: bool) {
    let kw = case["kw"].as_str().unwrap();
    if kw == "v" {
        // `v` takes the current point as its first control point (Table 59): after `h` that is the point the subpath
        // began with, after `re` the rectangle's corner (x, y) - `re` stands for `x y m ... h`
        for (tag, text, want) in [("after-h", "0 0 m 10 0 l 10 10 l h 5 5 20 20 v", (0.0f32, 0.0f32)),
                                  ("after-re", "1 2 3 4 re 5 5 20 20 v", (1.0, 2.0)),
                                  ("after-l", "0 0 m 10 0 l 10 10 l 5 5 20 20 v", (10.0, 10.0))] {
            rep.execs += 1;
            let got = guarded(|| parse_ops(text.as_bytes(), &NoResolve));
            let ok = match &got { Outcome::Done(Ok(ops)) => matches!(ops.last(), Some(Op::CurveTo { c1, .. }) if c1.x == want.0 && c1.y == want.1), _ => false };
            if !ok {
                let obs = match got { Outcome::Done(Ok(ops)) => json!(ops.iter().map(|o| format!("{:?}", o)).collect::<Vec<_>>()), Outcome::Done(Err(e)) => err_json(&e), Outcome::Panic(p) => panic_json(&p) };
                rep.fail(&format!("table:v:current-point-{}", tag), json!({"case_index": ci, "case": case, "text": text, "expected_c1": [want.0, want.1], "observed": obs}));
            }
        }
    }
    if kw == "Tr" {
        // the operand of Tr is one of the eight rendering modes of Table 106: each parses to the mode with that number
        for n in 0..8u8 {
            rep.execs += 1;
            let text = format!("BT {} Tr ET", n);
            let got = guarded(|| parse_ops(text.as_bytes(), &NoResolve));
            let ok = match &got { Outcome::Done(Ok(ops)) => ops.len() == 3 && matches!(ops[1], Op::TextRenderMode { mode } if mode as u8 == n), _ => false };
            if !ok {
                let obs = match got { Outcome::Done(Ok(ops)) => json!(ops.iter().map(|o| format!("{:?}", o)).collect::<Vec<_>>()), Outcome::Done(Err(e)) => err_json(&e), Outcome::Panic(p) => panic_json(&p) };
                rep.fail(&format!("table:Tr:mode{}", n), json!({"case_index": ci, "case": case, "text": text, "observed": obs}));
            }
        }
    }
    let kinds: Vec<&str> = case["ar"].as_array().unwrap().iter().map(|k| k.as_str().unwrap()).collect();
    let nvar = if all { 12 } else { 4 };
    for variant in 0..nvar {
        rep.execs += 1;
        let operands: Vec<Operand> = kinds.iter().enumerate().map(|(i, k)| operand(k, i, variant)).collect();
        let sep = if variant % 2 == 0 { " " } else { "\n" };
        let mut text = String::from("3 4 m ");
        for o in &operands { text += &print_operand(o, variant); text += sep; }
        if variant % 4 == 3 { text += "% a comment\n"; }
        text += kw;
        text += " 7 8 l";
        let current = Point { x: 3.0, y: 4.0 };
        let mut want = vec![Op::MoveTo { p: current }];
        for r in case["res"].as_array().unwrap() {
            let used: Vec<&Operand> = r["use"].as_array().unwrap().iter().map(|j| &operands[j.as_u64().unwrap() as usize - 1]).collect();
            want.push(denoted(r["op"].as_str().unwrap(), &used, current));
        }
        want.push(Op::LineTo { p: Point { x: 7.0, y: 8.0 } });
        let want: Vec<String> = dbg(&want).into_iter().map(norm).collect();
        match guarded(|| parse_ops(text.as_bytes(), &NoResolve)) {
            Outcome::Done(Ok(back)) => {
                let got: Vec<String> = dbg(&back).into_iter().map(norm).collect();
                if got != want {
                    let what = if got.last() != want.last() { "leak-or-lost" } else { "meaning" };
                    rep.fail(&format!("table:{}:{}", kw, what), json!({"case_index": ci, "case": case, "text": text, "expected": want, "observed": got}));
                }
            }
            Outcome::Done(Err(e)) => rep.fail(&format!("table:{}:err", kw), json!({"case_index": ci, "case": case, "text": text, "observed": err_json(&e)})),
            Outcome::Panic(p) => rep.fail(&format!("table:{}:panic", kw), json!({"case_index": ci, "case": case, "text": text, "observed": panic_json(&p)})),
        }
        // the same text as the content of a page that is an array of two streams, divided right before and right behind the
        // operator (ISO 32000-1 7.8.2: the division may occur at any boundary between lexical tokens, and the streams read
        // as one): no white-space is left at the division, the tokens must still not run together
        if variant == 0 {
            let kpos = text.rfind(&format!("{} 7 8 l", kw)).unwrap();
            for (a, b) in [(text[..kpos].trim_end(), &text[kpos..]), (&text[..kpos + kw.len()], text[kpos + kw.len()..].trim_start())] {
                rep.execs += 1;
                let content = Content { parts: vec![Stream::new((), a.as_bytes().to_vec()), Stream::new((), b.as_bytes().to_vec())] };
                match guarded(|| content.operations(&NoResolve)) {
                    Outcome::Done(Ok(back)) => {
                        let got: Vec<String> = dbg(&back).into_iter().map(norm).collect();
                        if got != want { rep.fail(&format!("table:{}:two-parts", kw), json!({"case_index": ci, "case": case, "parts": [a, b], "expected": want, "observed": got})); }
                    }
                    Outcome::Done(Err(e)) => rep.fail(&format!("table:{}:two-parts:err", kw), json!({"case_index": ci, "case": case, "parts": [a, b], "observed": err_json(&e)})),
                    Outcome::Panic(p) => rep.fail(&format!("table:{}:two-parts:panic", kw), json!({"case_index": ci, "case": case, "parts": [a, b], "observed": panic_json(&p)})),
                }
            }
        }
    }
}

pub fn run(cases_path: &str, report_path: &str, opts: &[String]) {
    let cases = read_cases(cases_path);
    let all = opts.iter().any(|o| o == "--all-variants");
    let mut rep = Report::default();
    for (ci, case) in cases.iter().enumerate() {
        rep.cases += 1;
        if case.get("table_row").is_some() {
            rep.nontrivial += 1;
            table_case(&mut rep, ci, case, all);
        } else {
            if case["ops"].as_array().unwrap().len() >= 2 { rep.nontrivial += 1; }
            roundtrip_case(&mut rep, ci, case, all);
        }
        if ci < 2 || (case.get("table_row").is_some() && rep.samples.len() < 3) { rep.sample(json!({"case": case})); }
    }
    rep.write(report_path);
}
