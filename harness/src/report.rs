//! Result file written by every replay module and read by bin/check.
use serde_json::{json, Value};
use std::collections::BTreeMap;

#[derive(Default)]
pub struct Report {
    pub cases: u64,
    pub execs: u64,
    pub nontrivial: u64,
    pub failures: Vec<Value>,
    pub samples: Vec<Value>,
    pub counters: BTreeMap<String, u64>,
    pub notes: Vec<String>,
}

impl Report {
    pub fn count(&mut self, key: &str) {
        *self.counters.entry(key.to_string()).or_insert(0) += 1;
    }
    pub fn add(&mut self, key: &str, n: u64) {
        *self.counters.entry(key.to_string()).or_insert(0) += n;
    }
    pub fn sample(&mut self, v: Value) {
        if self.samples.len() < 3 {
            self.samples.push(v);
        }
    }
    /// record a failure; at most 200 are kept verbatim, all are counted by class
    pub fn fail(&mut self, class: &str, detail: Value) {
        self.count(&format!("fail:{}", class));
        if self.failures.len() < 200 || !self.failures.iter().any(|f| f["class"] == class) {
            let mut d = detail;
            d["class"] = json!(class);
            self.failures.push(d);
        }
    }
    pub fn write(&self, path: &str) {
        let fails: u64 = self.counters.iter().filter(|(k, _)| k.starts_with("fail:")).map(|(_, v)| *v).sum();
        let v = json!({
            "cases": self.cases, "execs": self.execs, "nontrivial": self.nontrivial,
            "n_failures": fails, "failures": self.failures, "samples": self.samples,
            "counters": self.counters, "notes": self.notes,
        });
        std::fs::write(path, serde_json::to_vec_pretty(&v).unwrap()).expect("write report");
    }
}

pub fn read_cases(path: &str) -> Vec<Value> {
    let txt = std::fs::read_to_string(path).expect("read cases");
    txt.lines().filter(|l| !l.trim().is_empty()).map(|l| serde_json::from_str(l).expect("case json")).collect()
}
