//! Concretiser: an independent, deliberately boring PDF writer.
//! Shares no code with the library under test (only `flate2` for zlib).
//! All offsets recorded are relative to the header (`%PDF-`), as ISO 32000 requires.

use std::fmt::Write as _;

#[derive(Clone, Debug, PartialEq)]
pub enum XEntry {
    Free { next: u64, gen: u64 },
    InUse { off: usize, gen: u64 },
    Compressed { container: u64, idx: usize },
}

#[derive(Clone, Copy, Debug, PartialEq)]
pub enum Split {
    /// group consecutive object numbers into one subsection
    Min,
    /// one subsection per entry
    Max,
}

#[derive(Clone, Copy, Debug, PartialEq)]
pub enum Filter {
    None,
    Flate,
    HexFlate,
}

pub struct Doc {
    pub buf: Vec<u8>,
    pub hdr: usize,
}

pub fn zlib(data: &[u8]) -> Vec<u8> {
    use flate2::write::ZlibEncoder;
    use std::io::Write;
    let mut e = ZlibEncoder::new(Vec::new(), flate2::Compression::default());
    e.write_all(data).unwrap();
    e.finish().unwrap()
}

pub fn hex(data: &[u8]) -> Vec<u8> {
    let mut s = String::new();
    for b in data {
        write!(s, "{:02X}", b).unwrap();
    }
    s.push('>');
    s.into_bytes()
}

fn be(n: u64, w: usize) -> Vec<u8> {
    n.to_be_bytes()[8 - w..].to_vec()
}

impl Doc {
    pub fn new(prefix: &[u8]) -> Doc {
        let mut buf = prefix.to_vec();
        let hdr = buf.len();
        buf.extend_from_slice(b"%PDF-1.7\n%\xE2\xE3\xCF\xD3\n");
        Doc { buf, hdr }
    }
    /// offset of the next byte, relative to the header
    pub fn off(&self) -> usize {
        self.buf.len() - self.hdr
    }
    pub fn raw(&mut self, b: &[u8]) {
        self.buf.extend_from_slice(b);
    }
    /// `n g obj\n<body>\nendobj\n`; returns the object's offset
    pub fn obj(&mut self, id: u64, gen: u64, body: &[u8]) -> usize {
        let off = self.off();
        self.raw(format!("{} {} obj\n", id, gen).as_bytes());
        self.raw(body);
        self.raw(b"\nendobj\n");
        off
    }
    /// stream object; `dict` = entries without << >> and without /Length; `length` = text of the
    /// /Length value (direct integer or `n g R`), None = direct, accurate
    pub fn stream(&mut self, id: u64, gen: u64, dict: &str, data: &[u8], length: Option<&str>, crlf: bool) -> usize {
        let off = self.off();
        let len_txt = match length {
            Some(t) => t.to_string(),
            None => data.len().to_string(),
        };
        self.raw(format!("{} {} obj\n<< {} /Length {} >>\nstream{}", id, gen, dict, len_txt, if crlf { "\r\n" } else { "\n" }).as_bytes());
        self.raw(data);
        self.raw(b"\nendstream\nendobj\n");
        off
    }
    /// object stream `id` holding `members` (object number, serialized text) in order.
    /// `sep` is written after every member (may be empty for the last one if `trail_last` is false).
    pub fn objstm(&mut self, id: u64, members: &[(u64, Vec<u8>)], filter: Filter, hdr_sep: &str, sep: &[u8], trail_last: bool, extra: &str) -> usize {
        let mut body = Vec::new();
        let mut offs = Vec::new();
        for (i, (_, m)) in members.iter().enumerate() {
            offs.push(body.len());
            body.extend_from_slice(m);
            if i + 1 < members.len() || trail_last {
                body.extend_from_slice(sep);
            }
        }
        // "tight": single spaces between the numbers, nothing between the last number and the first member
        let tight = hdr_sep == "tight";
        let hdr_sep = if tight { " " } else { hdr_sep };
        let mut header = String::new();
        for (i, (nr, _)) in members.iter().enumerate() {
            write!(header, "{}{}{}{}", nr, hdr_sep, offs[i], hdr_sep).unwrap();
        }
        if tight { header.pop(); }
        let first = header.len();
        let mut data = header.into_bytes();
        data.extend_from_slice(&body);
        let (data, filt) = match filter {
            Filter::None => (data, String::new()),
            Filter::Flate => (zlib(&data), "/Filter /FlateDecode".to_string()),
            Filter::HexFlate => (hex(&zlib(&data)), "/Filter [/ASCIIHexDecode /FlateDecode]".to_string()),
        };
        let dict = format!("/Type /ObjStm /N {} /First {} {} {}", members.len(), first, filt, extra);
        self.stream(id, 0, &dict, &data, None, false)
    }

    fn subsections(entries: &[(u64, XEntry)], split: Split) -> Vec<Vec<(u64, XEntry)>> {
        let mut es = entries.to_vec();
        es.sort_by_key(|e| e.0);
        let mut out: Vec<Vec<(u64, XEntry)>> = Vec::new();
        for e in es {
            match out.last_mut() {
                Some(last) if split == Split::Min && last.last().unwrap().0 + 1 == e.0 => last.push(e),
                _ => out.push(vec![e]),
            }
        }
        out
    }

    /// classic table + trailer + startxref + %%EOF; returns the section's offset
    pub fn xref_table(&mut self, entries: &[(u64, XEntry)], size: u64, trailer_extra: &str, prev: Option<usize>, split: Split) -> usize {
        let off = self.off();
        self.raw(b"xref\n");
        for sub in Self::subsections(entries, split) {
            self.raw(format!("{} {}\n", sub[0].0, sub.len()).as_bytes());
            for (_, e) in sub {
                match e {
                    XEntry::Free { next, gen } => self.raw(format!("{:010} {:05} f \n", next, gen).as_bytes()),
                    XEntry::InUse { off, gen } => self.raw(format!("{:010} {:05} n \n", off, gen).as_bytes()),
                    XEntry::Compressed { .. } => panic!("mkpdf: compressed entry in classic table"),
                }
            }
        }
        let prev_txt = prev.map(|p| format!(" /Prev {}", p)).unwrap_or_default();
        self.raw(format!("trailer\n<< /Size {}{} {} >>\nstartxref\n{}\n%%EOF\n", size, prev_txt, trailer_extra, off).as_bytes());
        off
    }

    /// xref stream (object `id`, which also gets an entry for itself) + startxref + %%EOF
    pub fn xref_stream(&mut self, id: u64, entries: &[(u64, XEntry)], size: u64, w: [usize; 3], trailer_extra: &str, prev: Option<usize>, split: Split, filter: Filter) -> usize {
        let off = self.off();
        let mut es = entries.to_vec();
        es.retain(|e| e.0 != id);
        es.push((id, XEntry::InUse { off, gen: 0 }));
        let subs = Self::subsections(&es, split);
        let mut data = Vec::new();
        let mut index = String::new();
        for sub in &subs {
            write!(index, "{} {} ", sub[0].0, sub.len()).unwrap();
            for (_, e) in sub {
                let (t, a, b) = match e {
                    XEntry::Free { next, gen } => (0u64, *next, *gen),
                    XEntry::InUse { off, gen } => (1, *off as u64, *gen),
                    XEntry::Compressed { container, idx } => (2, *container, *idx as u64),
                };
                if w[0] == 0 {
                    assert_eq!(t, 1, "mkpdf: W[0]=0 needs all entries type 1");
                }
                data.extend(be(t, w[0]));
                data.extend(be(a, w[1]));
                data.extend(be(b, w[2]));
            }
        }
        let (data, filt) = match filter {
            Filter::None => (data, String::new()),
            Filter::Flate => (zlib(&data), " /Filter /FlateDecode".to_string()),
            Filter::HexFlate => (hex(&zlib(&data)), " /Filter [/ASCIIHexDecode /FlateDecode]".to_string()),
        };
        let prev_txt = prev.map(|p| format!(" /Prev {}", p)).unwrap_or_default();
        let dict = format!("/Type /XRef /Size {} /W [{} {} {}] /Index [{}]{}{} {}", size, w[0], w[1], w[2], index.trim_end(), prev_txt, filt, trailer_extra);
        self.stream(id, 0, &dict, &data, None, false);
        self.raw(format!("startxref\n{}\n%%EOF\n", off).as_bytes());
        off
    }
}

/// Minimal catalog + empty page tree bodies
pub fn catalog_body(pages: u64) -> Vec<u8> {
    format!("<< /Type /Catalog /Pages {} 0 R >>", pages).into_bytes()
}
pub fn empty_pages_body() -> Vec<u8> {
    b"<< /Type /Pages /Kids [] /Count 0 >>".to_vec()
}
