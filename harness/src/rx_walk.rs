//! C14 / C01 runner: each case is a complete file (hex); every read entry point is exercised under
//! {strict, tolerant} x {cached, uncached}. One result line per case is appended to the results file and
//! flushed, the progress file names the case in flight, a watchdog ends the process (exit 3) when a case
//! does not return in time, and the address space is capped so runaway allocation aborts the process.
//! The Python side restarts after such a death with `--start <next>` and records the dead case.

use crate::exercise::*;
use crate::report::read_cases;
use serde_json::{json, Value};
use std::io::Write;

pub fn unhex(s: &str) -> Vec<u8> {
    let b = s.as_bytes();
    (0..b.len() / 2).map(|i| ((b[2 * i] as char).to_digit(16).unwrap() * 16 + (b[2 * i + 1] as char).to_digit(16).unwrap()) as u8).collect()
}

pub struct Runner { results: std::fs::File, progress: String, secs: u64, pub configs: Vec<(bool, bool)>, detail: bool }
impl Runner {
    pub fn new(opts: &[String], report_path: &str) -> (Runner, usize) {
        let get = |k: &str| opts.iter().position(|o| o == k).and_then(|i| opts.get(i + 1)).cloned();
        let start: usize = get("--start").map(|s| s.parse().unwrap()).unwrap_or(0);
        let secs: u64 = get("--secs").map(|s| s.parse().unwrap()).unwrap_or(10);
        let mem: u64 = get("--mem-mb").map(|s| s.parse().unwrap()).unwrap_or(3072);
        let results = std::fs::OpenOptions::new().create(true).append(true).open(format!("{}.results", report_path)).expect("results file");
        limit_memory(mem << 20);
        start_watchdog();
        let configs = if get("--configs").as_deref() == Some("one") { vec![(true, true)] } else { vec![(false, true), (true, true), (false, false), (true, false)] };
        (Runner { results, progress: format!("{}.progress", report_path), secs, configs, detail: opts.iter().any(|o| o == "--detail") }, start)
    }
    pub fn case(&mut self, idx: usize, id: &Value, cls: &str, bytes: &[u8], password: &[u8]) {
        std::fs::write(&self.progress, idx.to_string()).ok();
        if let Ok(mut l) = crate::observe::PANIC_LOG.lock() { l.clear(); }
        let t0 = std::time::Instant::now();
        let mut panics: Vec<Value> = Vec::new();
        let mut ncalls = 0usize;
        let mut loaded = false;
        let mut errs = 0usize;
        let mut detail: Vec<Value> = Vec::new();
        for &(tolerant, cached) in &self.configs {
            arm_watchdog(self.secs);
            // on a thread with the default stack of spawned threads (2 MiB), which is what a caller that reads documents off
            // the main thread has; VERIF_MAIN_STACK=1 keeps the calls on the main thread
            let o = if std::env::var("VERIF_MAIN_STACK").is_ok() { exercise(bytes, tolerant, cached, password) } else {
                std::thread::scope(|sc| std::thread::Builder::new().stack_size(2 << 20).spawn_scoped(sc, || exercise(bytes, tolerant, cached, password)).expect("thread").join().expect("exercise thread"))
            };
            arm_watchdog(0);
            ncalls += o.calls.len();
            loaded |= o.calls.first().map(|c| c.1 == "ok").unwrap_or(false);
            errs += o.calls.iter().filter(|c| c.1.starts_with("err")).count();
            if self.detail && detail.is_empty() { detail = o.calls.iter().map(|c| json!([c.0, c.1])).collect(); }
            for (entry, out) in o.panics() {
                let cfg = format!("{}/{}", if tolerant { "tolerant" } else { "strict" }, if cached { "cached" } else { "uncached" });
                if !panics.iter().any(|p| p["outcome"] == json!(out)) { panics.push(json!({"entry": entry, "outcome": out, "config": cfg})); }
            }
        }
        let ms = t0.elapsed().as_millis() as u64;
        let line = json!({"i": idx, "id": id, "cls": cls, "calls": ncalls, "loaded": loaded, "errs": errs, "panics": panics, "ms": ms, "len": bytes.len(), "detail": detail});
        writeln!(self.results, "{}", line).ok();
        self.results.flush().ok();
    }
    pub fn done(&mut self, n: usize) { std::fs::write(&self.progress, format!("done {}", n)).ok(); }
}

pub fn run(cases_path: &str, report_path: &str, opts: &[String]) {
    let cases = read_cases(cases_path);
    let (mut r, start) = Runner::new(opts, report_path);
    for (idx, c) in cases.iter().enumerate() {
        if idx < start { continue; }
        let bytes = unhex(c["hex"].as_str().expect("hex"));
        let pw = c["password"].as_str().unwrap_or("").as_bytes().to_vec();
        if let Ok(mut t) = crate::exercise::TYPED.lock() {
            *t = c["typed"].as_array().map(|a| a.iter().map(|x| (x[0].as_str().unwrap().to_string(), x[1].as_u64().unwrap())).collect()).unwrap_or_default();
        }
        r.case(idx, &c["id"], c["cls"].as_str().unwrap_or(""), &bytes, &pw);
    }
    r.done(cases.len());
}
