//! C15 – typed objects round-trip through their dictionary form. Presence patterns from spec/Derive.tla are
//! mapped (by checks/c15.py, using the source extractor) onto every typed model with a reader and a writer;
//! here: d --R--> x --W--> w1 --R--> x2 --W--> w2, require w2 == w1 (idempotence) and, for models with a
//! catch-all, w1 ⊇ d (preservation).

use crate::observe::*;
use crate::registry;
use crate::report::*;
use crate::rx_dangling::{build, RecUpdater};
use datasize::DataSize;
use pdf::enc::StreamFilter;
use pdf::error::{PdfError, Result};
use pdf::file::FileOptions;
use pdf::object::{Object, ParseOptions, PlainRef, RcRef, Ref, Resolve};
use pdf::parser::ParseFlags;
use pdf::primitive::Primitive;
use serde_json::{json, Value};
use std::cell::{Cell, RefCell};
use std::collections::HashMap;
use std::ops::Range;
use std::sync::Arc;

/// resolver that also knows the objects created by a writer
pub struct MapResolve<'a, R: Resolve> {
    pub inner: &'a R,
    pub created: RefCell<HashMap<u64, Primitive>>,
    depth: Cell<u32>,
}
impl<'a, R: Resolve> MapResolve<'a, R> {
    pub fn new(inner: &'a R) -> Self { MapResolve { inner, created: RefCell::new(HashMap::new()), depth: Cell::new(0) } }
}
impl<'a, R: Resolve> Resolve for MapResolve<'a, R> {
    fn resolve_flags(&self, r: PlainRef, flags: ParseFlags, depth: usize) -> Result<Primitive> {
        if let Some(p) = self.created.borrow().get(&r.id) { return Ok(p.clone()); }
        self.inner.resolve_flags(r, flags, depth)
    }
    fn get<T: Object + DataSize>(&self, r: Ref<T>) -> Result<RcRef<T>> {
        if self.depth.get() > 24 { return Err(PdfError::Other { msg: "Recursive reference".into() }); }
        self.depth.set(self.depth.get() + 1);
        let res = self.resolve(r.get_inner()).and_then(|p| T::from_primitive(p, self));
        self.depth.set(self.depth.get() - 1);
        Ok(RcRef::new(r.get_inner(), Arc::new(res?)))
    }
    fn options(&self) -> &ParseOptions { self.inner.options() }
    fn stream_data(&self, id: PlainRef, range: Range<usize>) -> Result<Arc<[u8]>> { self.inner.stream_data(id, range) }
    fn get_data_or_decode(&self, id: PlainRef, range: Range<usize>, filters: &[StreamFilter]) -> Result<Arc<[u8]>> { self.inner.get_data_or_decode(id, range, filters) }
}

/// json of a primitive with references to writer-created objects replaced by the object's content
fn deref_json(p: &Primitive, created: &HashMap<u64, Primitive>, depth: u32) -> Value {
    match p {
        Primitive::Reference(r) if r.id >= 1000 && depth < 8 => match created.get(&r.id) {
            Some(q) => json!({"t": "indirect", "v": deref_json(q, created, depth + 1)}),
            None => prim_json(p),
        },
        Primitive::Array(a) => json!({"t": "arr", "v": a.iter().map(|x| deref_json(x, created, depth)).collect::<Vec<_>>()}),
        Primitive::Dictionary(d) => {
            let mut m = serde_json::Map::new();
            for (k, v) in d.iter() { m.insert(k.as_str().to_string(), deref_json(v, created, depth)); }
            json!({"t": "dict", "v": m})
        }
        Primitive::Stream(s) => {
            let mut m = serde_json::Map::new();
            for (k, v) in s.info.iter() { m.insert(k.as_str().to_string(), deref_json(v, created, depth)); }
            json!({"t": "stream", "v": m})
        }
        p => prim_json(p),
    }
}

/// does the written value `out` keep the input entry `inp` (up to indirection and one-or-many)?
fn keeps(out: &Value, inp: &Value) -> bool {
    if out == inp { return true; }
    if out["t"] == "str" && inp["t"] == "str" {
        // dates: "D:...Z" and "D:...Z00'00" denote the same instant
        let (a, b): (Vec<u8>, Vec<u8>) = (serde_json::from_value(out["v"].clone()).unwrap_or_default(), serde_json::from_value(inp["v"].clone()).unwrap_or_default());
        if a.starts_with(b"D:") && b.starts_with(b"D:") && a.starts_with(&b) && &a[b.len()..] == b"00'00" { return true; }
    }
    if out["t"] == "indirect" { return keeps(&out["v"], inp); }
    if out["t"] == "arr" && inp["t"] != "arr" {
        return out["v"].as_array().map(|a| a.len() == 1 && keeps(&a[0], inp)).unwrap_or(false);
    }
    if out["t"] == "arr" && inp["t"] == "arr" {
        let (a, b) = (out["v"].as_array().unwrap(), inp["v"].as_array().unwrap());
        return a.len() == b.len() && a.iter().zip(b).all(|(x, y)| keeps(x, y));
    }
    if (out["t"] == "dict" || out["t"] == "stream") && inp["t"] == "dict" {
        let (a, b) = (out["v"].as_object().unwrap(), inp["v"].as_object().unwrap());
        return b.iter().all(|(k, v)| a.get(k).map(|w| keeps(w, v)).unwrap_or(false));
    }
    false
}

pub fn run(cases_path: &str, report_path: &str, _opts: &[String]) {
    let cases = read_cases(cases_path);
    let mut rep = Report::default();
    let mut uncovered: std::collections::BTreeSet<String> = Default::default();
    let mut unwritable: std::collections::BTreeSet<String> = Default::default();
    for (ci, case) in cases.iter().enumerate() {
        let model = case["model"].as_str().unwrap();
        let dict = case["dict"].as_str().unwrap();
        let bytes = build(dict, &case["aux"]);
        let outcome = guarded(|| -> Result<Value> {
            let f = FileOptions::uncached().load(bytes)?;
            let r = f.resolver();
            let mr = MapResolve::new(&r);
            let p = mr.resolve(PlainRef { id: 1, gen: 0 })?;
            let mut u1 = RecUpdater::new();
            let w1 = match registry::roundtrip(model, p.clone(), &mr, &mut u1) {
                Some(Ok(Some(w))) => w,
                Some(Ok(None)) => return Ok(json!({"k": "unwritable"})),
                Some(Err(e)) => return Ok(json!({"k": "read1-err", "e": err_json(&e)})),
                None => return Ok(json!({"k": "unknown-model"})),
            };
            for (id, q) in u1.created.iter() { mr.created.borrow_mut().insert(*id, q.clone()); }
            let mut u2 = RecUpdater::new();
            u2.next = u1.next + 100;
            let w2 = match registry::roundtrip(model, w1.clone(), &mr, &mut u2) {
                Some(Ok(Some(w))) => w,
                Some(Err(e)) => return Ok(json!({"k": "reread-err", "e": err_json(&e), "w1": prim_json(&w1)})),
                _ => return Ok(json!({"k": "unwritable"})),
            };
            for (id, q) in u2.created.iter() { mr.created.borrow_mut().insert(*id, q.clone()); }
            let c = mr.created.borrow();
            Ok(json!({"k": "ok", "d": deref_json(&p, &c, 0), "w1": deref_json(&w1, &c, 0), "w2": deref_json(&w2, &c, 0)}))
        });
        let v = match outcome {
            Outcome::Done(Ok(v)) => v,
            Outcome::Done(Err(e)) => json!({"k": "load-err", "e": err_json(&e)}),
            Outcome::Panic(p) => json!({"k": "panic", "p": panic_json(&p)}),
        };
        let pattern = case["pattern"].as_str().unwrap_or("");
        match v["k"].as_str().unwrap() {
            "unwritable" | "unknown-model" => { unwritable.insert(model.to_string()); rep.count("skipped:unwritable"); continue; }
            "read1-err" | "load-err" => {
                // the generated dictionary is not accepted by the reader: not a round-trip case (coverage note only)
                if pattern == "minimal" { uncovered.insert(model.to_string()); }
                rep.count("skipped:input-rejected");
                continue;
            }
            _ => {}
        }
        rep.cases += 1;
        rep.execs += 1;
        if pattern != "minimal" { rep.nontrivial += 1; }
        match v["k"].as_str().unwrap() {
            "panic" => rep.fail(&format!("panic:{}", model), json!({"case_index": ci, "case": case, "observed": v})),
            "reread-err" => rep.fail(&format!("reread:{}", model), json!({"case_index": ci, "case": case, "observed": v})),
            _ => {
                if v["w1"] != v["w2"] {
                    rep.fail(&format!("idempotence:{}", model), json!({"case_index": ci, "case": case, "w1": v["w1"], "w2": v["w2"]}));
                }
                // every entry of the input that the reader accepted is written back (recognised entries for all
                // models; unknown entries are only generated for models with a catch-all)
                // hand-written pairs may legitimately normalise the form (drop an optional /Type, write a dictionary with only a base
                // encoding as a name ...): for them only the entries listed in `must_keep` are required to survive
                let must_keep: Option<Vec<String>> = case["must_keep"].as_array().map(|a| a.iter().map(|k| k.as_str().unwrap().to_string()).collect());
                let kept_ok = match &must_keep {
                    None => keeps(&v["w1"], &v["d"]),
                    Some(keys) => keys.iter().all(|k| match v["d"]["v"].get(k.as_str()) { Some(x) => v["w1"]["v"].get(k.as_str()).map(|w| keeps(w, x)).unwrap_or(false), None => true }),
                };
                if !kept_ok {
                    let lost: Vec<String> = v["d"]["v"].as_object().map(|m| m.iter().filter(|(k, _)| must_keep.as_ref().map(|mk| mk.contains(k)).unwrap_or(true)).filter(|(k, x)| !v["w1"]["v"].get(k.as_str()).map(|w| keeps(w, x)).unwrap_or(false)).map(|(k, _)| k.clone()).collect()).unwrap_or_default();
                    rep.fail(&format!("preservation:{}:{}", model, lost.join("+")), json!({"case_index": ci, "case": case, "lost": lost, "d": v["d"], "w1": v["w1"]}));
                }
            }
        }
        if rep.samples.len() < 2 { rep.sample(json!({"case": case, "w1": v["w1"]})); }
    }
    for m in &unwritable { rep.notes.push(format!("unwritable model (no ObjectWrite): {}", m)); }
    for m in &uncovered { rep.notes.push(format!("model not covered (minimal dictionary rejected): {}", m)); }
    rep.add("models_unwritable", unwritable.len() as u64);
    rep.write(report_path);
}
