//! PdfSystem.tla - Engine A: multi-session call paths (open / create / update / get / save / close / open again ...) are
//! replayed on real documents: every session opens the bytes the previous one saved (cached File or uncached Storage as
//! the path says), after every call every known reference is resolved and compared with the specification's ghost.

use crate::observe::*;
use crate::report::*;
use crate::rx_store::{base_file, open_store, Store, STREAM_DATA};
use pdf::object::PlainRef;
use pdf::primitive::Primitive;
use serde_json::{json, Value};
use std::collections::HashMap;

fn concretise(v: &str) -> Primitive { match v { "I1" => Primitive::Integer(1), "I2" => Primitive::Integer(2), o => panic!("value {}", o) } }

fn abstract_val(s: &dyn Store, r: &pdf::error::Result<Primitive>) -> String {
    match r {
        Ok(Primitive::Integer(1)) => "I1".into(),
        Ok(Primitive::Integer(2)) => "I2".into(),
        Ok(Primitive::Dictionary(d)) if d.get("Z").is_some() => "Z".into(),
        Ok(Primitive::Stream(st)) => match guarded(|| s.raw(st)) { Outcome::Done(Ok(d)) if &*d == STREAM_DATA => "S".into(), _ => "#stream-data-wrong".into() },
        Ok(p) => format!("#other:{}", p),
        Err(e) => format!("#err:{}", err_kind(e)),
    }
}

pub fn run(cases_path: &str, report_path: &str, _opts: &[String]) {
    install_panic_hook();
    let cases = read_cases(cases_path);
    let mut rep = Report::default();
    let tmp = format!("{}.tmp.pdf", report_path);
    for (ci, case) in cases.iter().enumerate() {
        rep.cases += 1;
        let path = case["path"].as_array().unwrap();
        let mut file = base_file(if ci % 2 == 0 { 0 } else { 7 }, (ci / 2) % 2);
        let mut store: Option<Box<dyn Store>> = None;
        let mut refs: HashMap<u64, PlainRef> = (1..=3u64).map(|i| (i, PlainRef { id: i, gen: 0 })).collect();
        let sessions = path.iter().filter(|s| s["op"] == "open").count();
        let saves = path.iter().filter(|s| s["op"] == "save").count();
        if sessions >= 2 && saves >= 1 { rep.nontrivial += 1; }
        let mut session = 0;
        let mut saved_in_session = 0;
        'steps: for (k, st) in path.iter().enumerate() {
            rep.execs += 1;
            let op = st["op"].as_str().unwrap();
            let r = st["r"].as_u64().unwrap_or(0);
            let ret = st["ret"].as_u64().unwrap_or(0);
            macro_rules! fail { ($what:expr, $obs:expr) => {{ let cl = format!("{}:{}:session{}:saves{}", $what, op, session, saved_in_session); rep.fail(&cl, json!({"case_index": ci, "case": case, "step": k, "observed": $obs})); break 'steps; }} }
            match op {
                "open" => {
                    session += 1; saved_in_session = 0;
                    let cached = st["cached"].as_bool().unwrap();
                    match guarded(|| open_store(file.clone(), cached, &tmp)) {
                        Outcome::Done(Ok(s)) => store = Some(s),
                        Outcome::Done(Err(e)) => fail!("open-failed", err_json(&e)),
                        Outcome::Panic(p) => fail!("panic", panic_json(&p)),
                    }
                }
                "close" => { store = None; }
                "create" => {
                    let v = concretise(st["v"].as_str().unwrap());
                    match guarded(|| store.as_mut().unwrap().create(v)) {
                        Outcome::Done(Ok(pr)) => { refs.insert(ret, pr); }
                        Outcome::Done(Err(e)) => fail!("err", err_json(&e)),
                        Outcome::Panic(p) => fail!("panic", panic_json(&p)),
                    }
                }
                "update" => {
                    let v = concretise(st["v"].as_str().unwrap());
                    let rr = refs[&r];
                    match guarded(|| store.as_mut().unwrap().update(rr, v)) {
                        Outcome::Done(Ok(back)) => { if back != rr { fail!("other-reference", json!(back.id)); } }
                        Outcome::Done(Err(e)) => fail!("err", err_json(&e)),
                        Outcome::Panic(p) => fail!("panic", panic_json(&p)),
                    }
                }
                "get" => {
                    let rr = refs[&r];
                    let s = store.as_ref().unwrap();
                    let got = match guarded(|| s.get(rr)) { Outcome::Done(x) => abstract_val(&**s, &x), Outcome::Panic(p) => format!("#panic:{}", p.sym) };
                    let want = st["ideal"][r as usize - 1].as_str().unwrap();
                    if got != want { fail!("typed-read", json!({"id": r, "expected": want, "observed": got})); }
                }
                "save" => {
                    match guarded(|| store.as_mut().unwrap().save()) {
                        Outcome::Done(Ok(bytes)) => {
                            if !bytes.starts_with(&file) { fail!("not-a-prefix", json!({"old": file.len(), "new": bytes.len()})); }
                            file = bytes; saved_in_session += 1;
                        }
                        Outcome::Done(Err(e)) => fail!("err", err_json(&e)),
                        Outcome::Panic(p) => fail!("panic", panic_json(&p)),
                    }
                }
                o => panic!("op {}", o),
            }
            // the session's view of every known reference
            if let Some(s) = store.as_ref() {
                for (i, want) in st["ideal"].as_array().unwrap().iter().enumerate() {
                    let id = i as u64 + 1;
                    let want = want.as_str().unwrap();
                    if want == "none" { continue; }
                    let rr = match refs.get(&id) { Some(x) => *x, None => fail!("unknown-id", json!(id)) };
                    let got = match guarded(|| s.resolve(rr)) { Outcome::Done(x) => abstract_val(&**s, &x), Outcome::Panic(p) => format!("#panic:{}", p.sym) };
                    if got != want { fail!("view", json!({"id": id, "expected": want, "observed": got})); }
                }
            }
        }
        if ci < 2 { rep.sample(json!({"case": case})); }
    }
    std::fs::remove_file(&tmp).ok();
    rep.write(report_path);
}
