//! C01, token layer: every byte string TLC enumerates over the lexer's byte classes is pushed through every
//! lexer / parser entry point, in-process (panics are caught and reported per entry point; the progress file and the
//! watchdog make a stack overflow or a non-returning call attributable to a case), and - for the short strings -
//! placed inside an otherwise well-formed file (object body, content stream, ToUnicode CMap, calculator function,
//! trailer entry, junk between objects, whole file, after the header) that is walked through all read entry points.

use crate::exercise::*;
use crate::mkpdf::*;
use crate::observe::*;
use crate::report::*;
use pdf::content::parse_ops;
use pdf::object::{NoResolve, PsFunc};
use pdf::parser::{parse, parse_indirect_object, parse_indirect_stream, parse_with_lexer, parse_xref_stream_and_trailer, parse_xref_table_and_trailer, read_xref_and_trailer_at, Lexer, ParseFlags};
use serde_json::{json, Value};
use std::io::{Seek, SeekFrom, Write};

fn file_with(s: &[u8], place: &str) -> Vec<u8> {
    let mut d = Doc::new(b"");
    let mut e: Vec<(u64, XEntry)> = vec![(0, XEntry::Free { next: 0, gen: 65535 })];
    let mut add = |e: &mut Vec<(u64, XEntry)>, id: u64, off: usize| e.push((id, XEntry::InUse { off, gen: 0 }));
    let o = d.obj(1, 0, b"<< /Type /Catalog /Pages 2 0 R >>"); add(&mut e, 1, o);
    let o = d.obj(2, 0, b"<< /Type /Pages /Kids [3 0 R] /Count 1 >>"); add(&mut e, 2, o);
    let o = d.obj(3, 0, b"<< /Type /Page /Parent 2 0 R /MediaBox [0 0 9 9] /Contents 4 0 R /Foo 7 0 R /Resources << /Font << /F1 5 0 R >> /ColorSpace << /CS1 [/Separation /S /DeviceGray 8 0 R] >> >> >>"); add(&mut e, 3, o);
    let content: &[u8] = if place == "content" { s } else { b"BT /F1 9 Tf (a) Tj ET" };
    let o = d.stream(4, 0, "", content, None, false); add(&mut e, 4, o);
    let o = d.obj(5, 0, b"<< /Type /Font /Subtype /Type1 /BaseFont /Helvetica /FirstChar 65 /LastChar 66 /Widths [5 6] /ToUnicode 6 0 R >>"); add(&mut e, 5, o);
    let cmap: &[u8] = if place == "cmap" { s } else { b"1 beginbfchar <41> <0041> endbfchar" };
    let o = d.stream(6, 0, "", cmap, None, false); add(&mut e, 6, o);
    if place == "junk" { d.raw(s); d.raw(b"\n"); }
    let body: &[u8] = if place == "object" { s } else { b"null" };
    let o = d.obj(7, 0, body); add(&mut e, 7, o);
    let ps: Vec<u8> = if place == "psfunc" { [b"{ ".as_slice(), s, b" }"].concat() } else { b"{ }".to_vec() };
    let o = d.stream(8, 0, "/FunctionType 4 /Domain [0 1] /Range [0 1]", &ps, None, false); add(&mut e, 8, o);
    let extra = if place == "trailer" { format!("/Root 1 0 R /X {}", String::from_utf8_lossy(s)) } else { "/Root 1 0 R".to_string() };
    if place == "trailer" {
        // the bytes must go in unchanged: write the section by hand
        let off = d.off();
        d.raw(b"xref\n0 9\n");
        for (_, x) in &e {
            match x { XEntry::Free { .. } => d.raw(b"0000000000 65535 f \n"), XEntry::InUse { off, .. } => d.raw(format!("{:010} 00000 n \n", off).as_bytes()), _ => {} }
        }
        d.raw(b"trailer\n<< /Size 9 /Root 1 0 R /X ");
        d.raw(s);
        d.raw(format!(" >>\nstartxref\n{}\n%%EOF\n", off).as_bytes());
        let _ = extra;
    } else {
        d.xref_table(&e, 9, &extra, None, Split::Min);
    }
    d.buf
}

const PLACES: [&str; 6] = ["object", "content", "cmap", "psfunc", "trailer", "junk"];

pub fn run(cases_path: &str, report_path: &str, opts: &[String]) {
    let get = |k: &str| opts.iter().position(|o| o == k).and_then(|i| opts.get(i + 1)).cloned();
    let start: usize = get("--start").map(|s| s.parse().unwrap()).unwrap_or(0);
    let secs: u64 = get("--secs").map(|s| s.parse().unwrap()).unwrap_or(10);
    let file_maxlen: usize = get("--file-maxlen").map(|s| s.parse().unwrap()).unwrap_or(3);
    limit_memory(3072 << 20);
    start_watchdog();
    let cases = read_cases(cases_path);
    let mut results = std::fs::OpenOptions::new().create(true).append(true).open(format!("{}.results", report_path)).expect("results");
    let mut progress = std::fs::OpenOptions::new().create(true).write(true).open(format!("{}.progress", report_path)).expect("progress");
    let (mut execs, mut errs, mut oks, mut files) = (0u64, 0u64, 0u64, 0u64);
    for (idx, c) in cases.iter().enumerate() {
        if idx < start { continue; }
        progress.seek(SeekFrom::Start(0)).ok();
        write!(progress, "{:<12}", idx).ok();
        let s: Vec<u8> = c["bytes"].as_array().map(|a| a.iter().map(|b| b.as_u64().unwrap() as u8).collect()).unwrap_or_default();
        arm_watchdog(secs);
        let mut fails: Vec<Value> = Vec::new();
        macro_rules! call { ($name:expr, $f:expr) => {{
            execs += 1;
            match guarded(|| $f) {
                Outcome::Done(true) => oks += 1,
                Outcome::Done(false) => errs += 1,
                Outcome::Panic(p) => fails.push(json!({"entry": $name, "outcome": format!("panic:{}:{}", p.sym, p.msg)})),
            }
        }}}
        // the lexer on its own: tokens until the first error, bounded, the cursor must advance and stay inside
        call!("Lexer::next", {
            let mut lx = Lexer::new(&s);
            let mut last = 0usize;
            let mut n = 0;
            loop {
                match lx.next() {
                    Ok(t) => {
                        let p = lx.get_pos();
                        if p > s.len() || (p <= last && !t.as_slice().is_empty() && n > 0) { panic!("cursor {} after {} (len {})", p, last, s.len()); }
                        last = p;
                    }
                    Err(_) => break,
                }
                n += 1;
                if n > 4 * s.len() + 8 { panic!("lexer does not reach the end of input"); }
            }
            true
        });
        call!("Lexer::back", {
            let mut lx = Lexer::new(&s);
            lx.set_pos(s.len());
            // back() returns an empty lexeme at the start of the buffer: step until the cursor rests, it must never move forward
            let mut last = lx.get_pos();
            for _ in 0..s.len() + 2 {
                lx.back().ok();
                let p = lx.get_pos();
                if p > last { panic!("back moved forward: {} -> {}", last, p); }
                last = p;
            }
            if last != 0 { panic!("back does not reach the start of input"); }
            true
        });
        call!("Lexer::seek", {
            let mut lx = Lexer::new(&s);
            let a = lx.seek_substr("1").is_some();
            let b = lx.seek_substr_back(b"/").is_ok();
            let _ = lx.next_stream();
            let _ = lx.peek();
            // helpers the reader only uses on a non-empty buffer (stream data, startxref search)
            if !s.is_empty() {
                let _ = lx.read_n(3);
                let _ = lx.offset_pos(2);
                let _ = lx.set_pos_from_end(1);
            }
            a || b
        });
        call!("parse", parse(&s, &NoResolve, ParseFlags::ANY).is_ok());
        call!("parse_with_lexer x3", { let mut lx = Lexer::new(&s); let mut ok = false; for _ in 0..3 { ok |= parse_with_lexer(&mut lx, &NoResolve, ParseFlags::ANY).is_ok(); } ok });
        let wrapped = [b"1 0 obj ".as_slice(), &s, b" endobj"].concat();
        call!("parse_indirect_object", parse_indirect_object(&mut Lexer::new(&wrapped), &NoResolve, None, ParseFlags::ANY).is_ok());
        call!("parse_indirect_object raw", parse_indirect_object(&mut Lexer::new(&s), &NoResolve, None, ParseFlags::ANY).is_ok());
        let st = [b"1 0 obj << /Length 3 >> stream\n".as_slice(), &s, b"\nendstream endobj"].concat();
        call!("parse_indirect_stream", parse_indirect_stream(&mut Lexer::new(&st), &NoResolve, None).is_ok());
        let st2 = [b"1 0 obj << /Length 1 ".as_slice(), &s, b" >> stream\nx\nendstream endobj"].concat();
        call!("parse_indirect_stream dict", parse_indirect_stream(&mut Lexer::new(&st2), &NoResolve, None).is_ok());
        call!("string literal", parse(&[b"(".as_slice(), &s].concat(), &NoResolve, ParseFlags::ANY).is_ok());
        call!("hex string", parse(&[b"<".as_slice(), &s].concat(), &NoResolve, ParseFlags::ANY).is_ok());
        call!("array", parse(&[b"[".as_slice(), &s].concat(), &NoResolve, ParseFlags::ANY).is_ok());
        call!("dictionary", parse(&[b"<</K ".as_slice(), &s].concat(), &NoResolve, ParseFlags::ANY).is_ok());
        call!("parse_ops", parse_ops(&s, &NoResolve).is_ok());
        call!("parse_ops operands", parse_ops(&[s.as_slice(), b" Tj ", &s, b" re BI ", &s, b" ID ", &s, b" EI"].concat(), &NoResolve).is_ok());
        call!("PsFunc::parse", std::str::from_utf8(&s).ok().map(|t| PsFunc::parse(&format!("{{ {} }}", t)).map(|f| { let mut out = [0f32; 2]; f.exec(&[0.5], &mut out).is_ok() }).unwrap_or(false)).unwrap_or(false));
        let xt = [b"xref\n".as_slice(), &s].concat();
        call!("parse_xref_table_and_trailer", { let mut lx = Lexer::new(&xt); lx.next().ok(); parse_xref_table_and_trailer(&mut lx, &NoResolve).is_ok() });
        let xt2 = [b"xref\n0 1\n0000000000 65535 f \n".as_slice(), &s, b"\ntrailer\n<< /Size 1 ", &s, b" >>"].concat();
        call!("read_xref_and_trailer_at", read_xref_and_trailer_at(&mut Lexer::new(&xt2), &NoResolve).is_ok());
        call!("read_xref_and_trailer_at raw", read_xref_and_trailer_at(&mut Lexer::new(&s), &NoResolve).is_ok());
        let xs = [b"9 0 obj << /Type /XRef /Size 2 /W [1 1 1] /Length ".as_slice(), s.len().to_string().as_bytes(), b" >> stream\n", &s, b"\nendstream endobj"].concat();
        call!("parse_xref_stream_and_trailer", parse_xref_stream_and_trailer(&mut Lexer::new(&xs), &NoResolve).is_ok());
        // inside files
        if s.len() <= file_maxlen {
            let whole = s.clone();
            let after_header = [b"%PDF-1.7\n".as_slice(), &s].concat();
            let before_tail = [s.as_slice(), b"\nstartxref\n0\n%%EOF\n"].concat();
            let mut docs: Vec<(&str, Vec<u8>)> = vec![("whole", whole), ("after-header", after_header), ("before-tail", before_tail)];
            for p in PLACES { docs.push((p, file_with(&s, p))); }
            for (place, bytes) in docs {
                files += 1;
                for (tolerant, cached) in [(false, true), (true, false)] {
                    let o = exercise(&bytes, tolerant, cached, b"");
                    execs += o.calls.len() as u64;
                    for (entry, out) in o.panics() {
                        if !fails.iter().any(|f| f["outcome"] == json!(out)) { fails.push(json!({"entry": format!("file[{}].{}", place, entry), "outcome": out})); }
                    }
                }
            }
        }
        arm_watchdog(0);
        if !fails.is_empty() {
            writeln!(results, "{}", json!({"i": idx, "bytes": c["bytes"], "panics": fails})).ok();
            results.flush().ok();
        }
    }
    writeln!(results, "{}", json!({"summary": true, "start": start, "execs": execs, "oks": oks, "errs": errs, "files": files})).ok();
    results.flush().ok();
    progress.seek(SeekFrom::Start(0)).ok();
    write!(progress, "done {:<12}", cases.len()).ok();
}
