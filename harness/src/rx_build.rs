//! C10 – documents built from scratch: inputs enumerated by spec/Builder.tla -> PdfBuilder::build ->
//! (1) the independent structural validator (validate.rs = WellFormedFile), (2) reload and compare pages.

use crate::observe::*;
use crate::report::*;
use crate::rx_content::make_op;
use crate::validate;
use pdf::build::{CatalogBuilder, PageBuilder, PdfBuilder};
use pdf::content::Op;
use pdf::file::FileOptions;
use pdf::font::Font;
use pdf::object::{GraphicsStateParameters, InfoDict, NoResolve, Object, Rectangle, Resolve, Updater};
use pdf::primitive::{Date, Dictionary, PdfString, Primitive, TimeRel};
use serde_json::{json, Value};

fn ops_for(k: u64) -> Vec<Op> {
    match k {
        0 => vec![],
        1 => vec![make_op("MoveTo", &[2], 1.0), make_op("LineTo", &[3], 1.0), make_op("Stroke", &[], 1.0)],
        2 => vec![make_op("BeginText", &[], 1.0), Op::TextFont { name: "F1".into(), size: 12.0 }, make_op("TextDraw", &[1], 1.0), make_op("EndText", &[], 1.0)],
        _ => vec![Op::GraphicsState { name: "GS1".into() }, make_op("Rect", &[2, 3], 1.0), make_op("CurveTo", &[2, 3, 3], 1.0), make_op("Close", &[], 1.0), make_op("FillAndStroke", &[1], 1.0),
                  make_op("MoveTo", &[3], 1.0), make_op("CurveTo", &[3, 2, 2], 1.0), make_op("CurveTo", &[1, 2, 3], 1.0), make_op("Leading", &[-2], 1.0), make_op("MoveText", &[1, 2], 1.0),
                  // a leading equal to the move upwards (the TD shorthand stands for the opposite sign only)
                  make_op("Leading", &[2], 1.0), make_op("MoveText", &[1, 2], 1.0),
                  // a closed subpath followed by a curve whose first control point is the subpath's start
                  make_op("MoveTo", &[2], 1.0), make_op("LineTo", &[3], 1.0), make_op("Close", &[], 1.0), make_op("CurveTo", &[2, 3, 3], 1.0),
                  make_op("MoveTo", &[3], 1.0), make_op("LineTo", &[2], 1.0), make_op("Close", &[], 1.0), make_op("Stroke", &[], 1.0), make_op("CurveTo", &[3, 2, 2], 1.0), make_op("Stroke", &[], 1.0),
                  // a rectangle between a point and a curve that starts at that point (the rectangle does not move the point the `v` form refers to)
                  make_op("MoveTo", &[2], 1.0), make_op("Rect", &[3, 1], 1.0), make_op("CurveTo", &[2, 3, 3], 1.0), make_op("Stroke", &[], 1.0)],
    }
}
fn dbg(ops: &[Op]) -> Vec<String> { ops.iter().map(|o| format!("{:?}", o)).collect() }
fn rect(a: f32) -> Rectangle { Rectangle { left: 4.0, bottom: a, right: 200.0 + a, top: 300.5 } }

pub fn run(cases_path: &str, report_path: &str, _opts: &[String]) {
    let cases = read_cases(cases_path);
    let mut rep = Report::default();
    for (ci, case) in cases.iter().enumerate() {
        rep.cases += 1;
        rep.execs += 1;
        let pages = case["pages"].as_array().unwrap();
        if pages.len() >= 2 { rep.nontrivial += 1; }
        let info_kind = case["info"].as_str().unwrap();
        let built = guarded(|| -> pdf::error::Result<Vec<u8>> {
            let mut b = PdfBuilder::new(FileOptions::uncached());
            let mut pbs = Vec::new();
            for (pi, p) in pages.iter().enumerate() {
                let mut pb = PageBuilder::default();
                pb.ops = ops_for(p["ops"].as_u64().unwrap());
                match p["boxes"].as_str().unwrap() {
                    "media" => pb.media_box = Some(rect(pi as f32)),
                    "media+crop" => { pb.media_box = Some(rect(pi as f32)); pb.crop_box = Some(rect(10.0 + pi as f32)); }
                    _ => {}
                }
                pb.rotate = p["rot"].as_i64().unwrap() as i32;
                if p["other"].as_u64().unwrap() == 1 {
                    pb.other.insert("Extra", Primitive::Integer(40 + pi as i32));
                    pb.other.insert("ExtraName", Primitive::Name("Some Name".into()));
                }
                let res = p["res"].as_str().unwrap();
                if res != "empty" {
                    let mut fd = Dictionary::new();
                    fd.insert("Type", Primitive::Name("Font".into()));
                    fd.insert("Subtype", Primitive::Name("Type1".into()));
                    fd.insert("BaseFont", Primitive::Name("Helvetica".into()));
                    let font = Font::from_primitive(Primitive::Dictionary(fd), &NoResolve)?;
                    let fr = b.storage.create(font)?;
                    pb.resources.fonts.insert("F1".into(), fr.into());
                }
                if res == "font+gs" {
                    let mut gd = Dictionary::new();
                    gd.insert("LW", Primitive::Number(2.5));
                    pb.resources.graphics_states.insert("GS1".into(), GraphicsStateParameters::from_primitive(Primitive::Dictionary(gd), &NoResolve)?);
                }
                pbs.push(pb);
            }
            if info_kind != "none" {
                let mut info = InfoDict::default();
                info.title = Some(PdfString::new(b"The (Title)".as_slice().into()));
                if info_kind == "title+dates" {
                    info.creation_date = Some(Date { year: 2024, month: 2, day: 29, hour: 23, minute: 59, second: 58, rel: TimeRel::Later, tz_hour: 2, tz_minute: 30 });
                    info.producer = Some(PdfString::new(vec![0xfe, 0xff, 0x00, 0x41].as_slice().into()));
                }
                b = b.info(info);
            }
            b.build(CatalogBuilder::from_pages(pbs))
        });
        let fail = |rep: &mut Report, class: String, extra: Value| {
            let mut d = json!({"case_index": ci, "case": case});
            for (k, v) in extra.as_object().unwrap() { d[k] = v.clone(); }
            rep.fail(&class, d);
        };
        let bytes = match built {
            Outcome::Done(Ok(b)) => b,
            Outcome::Done(Err(e)) => { fail(&mut rep, "build:err".into(), json!({"observed": err_json(&e)})); continue; }
            Outcome::Panic(p) => { fail(&mut rep, format!("build:panic:{}", p.sym), json!({"observed": panic_json(&p)})); continue; }
        };
        // (1) structure
        let v = validate::validate(&bytes);
        rep.add("validator_objects", v.objects as u64);
        rep.add("validator_refs", v.refs as u64);
        if !v.problems.is_empty() {
            let first = v.problems[0].split(|c: char| c.is_ascii_digit()).next().unwrap_or("").trim().to_string();
            fail(&mut rep, format!("structure:{}", first), json!({"problems": v.problems}));
        }
        // adequacy of the validator itself: seeded corruptions of this very file must be reported
        if ci == 0 || ci == cases.len() - 1 {
            let find = |pat: &[u8]| bytes.windows(pat.len()).rposition(|w| w == pat);
            let mut corruptions: Vec<(&str, Vec<u8>)> = Vec::new();
            if let Some(p) = find(b"startxref\n") { let mut c = bytes.clone(); c[p + 10] = if c[p + 10] == b'9' { b'1' } else { c[p + 10] + 1 }; corruptions.push(("startxref", c)); }
            if let Some(p) = find(b"/Size ") { let mut c = bytes.clone(); c[p + 6] = b'1'; c[p + 7] = b' '; corruptions.push(("size", c)); }
            if let Some(p) = find(b"/Length ") { let mut c = bytes.clone(); c[p + 8] = if c[p + 8] == b'9' { b'1' } else { c[p + 8] + 1 }; corruptions.push(("length", c)); }
            if let Some(p) = find(b" 0 R") { let mut c = bytes.clone(); c[p - 1] = b'9'; c.insert(p, b'9'); corruptions.push(("dangling-ref", c)); }
            for (what, c) in corruptions {
                if validate::validate(&c).problems.is_empty() {
                    rep.notes.push(format!("VALIDATOR-SELFTEST-FAILED: corruption `{}` not reported", what));
                } else {
                    rep.count("validator_selftest_ok");
                }
            }
        }
        // (2) reload
        match guarded(|| FileOptions::uncached().load(bytes.clone())) {
            Outcome::Done(Ok(f)) => {
                let r = f.resolver();
                if f.num_pages() as usize != pages.len() {
                    fail(&mut rep, "reload:num_pages".into(), json!({"expected": pages.len(), "observed": f.num_pages()}));
                }
                for (pi, p) in pages.iter().enumerate() {
                    match guarded(|| f.get_page(pi as u32)) {
                        Outcome::Done(Ok(page)) => {
                            let want_media = if p["boxes"] == "none" { None } else { Some(rect(pi as f32)) };
                            let want_crop = if p["boxes"] == "media+crop" { Some(rect(10.0 + pi as f32)) } else { None };
                            if format!("{:?}", page.media_box) != format!("{:?}", want_media) || format!("{:?}", page.crop_box) != format!("{:?}", want_crop) {
                                fail(&mut rep, "reload:boxes".into(), json!({"page": pi, "media": format!("{:?}", page.media_box), "crop": format!("{:?}", page.crop_box)}));
                            }
                            if page.rotate as i64 != p["rot"].as_i64().unwrap() {
                                fail(&mut rep, "reload:rotate".into(), json!({"page": pi, "observed": page.rotate}));
                            }
                            let extra_ok = if p["other"].as_u64().unwrap() == 1 {
                                page.other.get("Extra") == Some(&Primitive::Integer(40 + pi as i32)) && page.other.get("ExtraName") == Some(&Primitive::Name("Some Name".into()))
                            } else { page.other.get("Extra").is_none() };
                            if !extra_ok {
                                fail(&mut rep, "reload:other".into(), json!({"page": pi, "observed": format!("{:?}", page.other)}));
                            }
                            let want_ops = dbg(&ops_for(p["ops"].as_u64().unwrap()));
                            let got_ops = match guarded(|| page.contents.as_ref().map(|c| c.operations(&r)).transpose()) {
                                Outcome::Done(Ok(o)) => dbg(&o.unwrap_or_default()),
                                Outcome::Done(Err(e)) => vec![format!("err:{}", err_kind(&e))],
                                Outcome::Panic(pp) => vec![format!("panic:{}", pp.sym)],
                            };
                            if got_ops != want_ops {
                                fail(&mut rep, "reload:ops".into(), json!({"page": pi, "expected": want_ops, "observed": got_ops}));
                            }
                            let res = p["res"].as_str().unwrap();
                            match guarded(|| page.resources().map(|rs| (rs.fonts.keys().map(|k| k.as_str().to_string()).collect::<Vec<_>>(), rs.graphics_states.iter().map(|(k, g)| format!("{}:{:?}", k.as_str(), g.line_width)).collect::<Vec<_>>()))) {
                                Outcome::Done(Ok((fonts, gs))) => {
                                    let wf: Vec<String> = if res == "empty" { vec![] } else { vec!["F1".into()] };
                                    let wg: Vec<String> = if res == "font+gs" { vec!["GS1:Some(2.5)".into()] } else { vec![] };
                                    if fonts != wf || gs != wg {
                                        fail(&mut rep, "reload:resources".into(), json!({"page": pi, "fonts": fonts, "gs": gs}));
                                    }
                                    // the font itself must load
                                    if res != "empty" {
                                        let ok = page.resources().ok().and_then(|rs| rs.fonts.get("F1").map(|l| l.load(&r).map(|f| f.name.as_ref().map(|n| n.as_str().to_string())))).map(|x| x.map_err(|e| err_kind(&e).to_string()));
                                        if ok != Some(Ok(Some("Helvetica".to_string()))) {
                                            fail(&mut rep, "reload:font".into(), json!({"page": pi, "observed": format!("{:?}", ok)}));
                                        }
                                    }
                                }
                                Outcome::Done(Err(e)) => fail(&mut rep, "reload:resources".into(), json!({"page": pi, "observed": err_json(&e)})),
                                Outcome::Panic(pp) => fail(&mut rep, "reload:resources:panic".into(), json!({"page": pi, "observed": panic_json(&pp)})),
                            }
                        }
                        Outcome::Done(Err(e)) => fail(&mut rep, "reload:get_page".into(), json!({"page": pi, "observed": err_json(&e)})),
                        Outcome::Panic(pp) => fail(&mut rep, "reload:get_page:panic".into(), json!({"page": pi, "observed": panic_json(&pp)})),
                    }
                }
                // information dictionary
                let info = f.trailer.info_dict.as_ref();
                let title = info.and_then(|i| i.title.as_ref()).map(|t| t.as_bytes().to_vec());
                let want_title = if info_kind == "none" { None } else { Some(b"The (Title)".to_vec()) };
                let date = info.and_then(|i| i.creation_date.as_ref()).map(|d| format!("{:?}", d));
                let want_date = if info_kind == "title+dates" { Some(format!("{:?}", Date { year: 2024, month: 2, day: 29, hour: 23, minute: 59, second: 58, rel: TimeRel::Later, tz_hour: 2, tz_minute: 30 })) } else { None };
                let prod = info.and_then(|i| i.producer.as_ref()).map(|t| t.as_bytes().to_vec());
                let want_prod = if info_kind == "title+dates" { Some(vec![0xfe, 0xff, 0x00, 0x41]) } else { None };
                if title != want_title || date != want_date || prod != want_prod {
                    fail(&mut rep, "reload:info".into(), json!({"title": title, "date": date, "producer": prod}));
                }
            }
            Outcome::Done(Err(e)) => fail(&mut rep, "reload:load".into(), json!({"observed": err_json(&e)})),
            Outcome::Panic(p) => fail(&mut rep, format!("reload:panic:{}", p.sym), json!({"observed": panic_json(&p)})),
        }
        if ci < 2 { rep.sample(json!({"case": case, "bytes": bytes.len()})); }
    }
    rep.write(report_path);
}
