//! C06 – encrypted documents yield their plaintext with either password, and only then. Configurations come
//! from spec/Crypt.tla; documents are written by the harness' independent security handler (refcrypt.rs).

use crate::mkpdf::*;
use crate::observe::*;
use crate::refcrypt::{hash_2b_trace, variant, Handler};
use crate::report::*;
use pdf::file::FileOptions;
use pdf::object::{PlainRef, Resolve};
use pdf::primitive::Primitive;
use serde_json::{json, Value};

const ID0: &[u8] = b"0123456789ABCDEF";
fn hexs(d: &[u8]) -> String { format!("<{}>", d.iter().map(|b| format!("{:02X}", b)).collect::<String>()) }
fn plaintext(len: &str) -> Vec<u8> {
    match len { "empty" => vec![], "short" => b"hello".to_vec(), "block" => b"0123456789abcdef".to_vec(), _ => (0..100u8).map(|i| i.wrapping_mul(7) ^ 0x5a).collect() }
}

pub struct Built { pub bytes: Vec<u8>, pub target: (u64, u64), pub handler_o: Vec<u8> }

pub fn build(case: &Value) -> Built {
    let var = variant(case["variant"].as_str().unwrap());
    let enc_meta = case["encMeta"].as_bool().unwrap();
    let place = case["place"].as_str().unwrap();
    let pt = plaintext(case["len"].as_str().unwrap());
    let user: &[u8] = if case["pwrel"] == "empty-user" { b"" } else { b"userpw" };
    let mut h = Handler::new(var, user, b"ownerpw", -3904, ID0, enc_meta);
    h.dict_form = case["dform"].as_str().unwrap_or("plain").to_string();
    let (tid, tgen) = match case["idc"].as_str().unwrap() { "low" => (3u64, 0u64), "gen" => (4, 5), _ => (70000, 0) };
    let root_objstm = case["root"] == "objstm";
    let use_xref_stream = place == "string-in-objstm" || place == "xref-stream" || root_objstm;
    let mut d = Doc::new(b"");
    let mut e: Vec<(u64, XEntry)> = vec![(0, XEntry::Free { next: 0, gen: 65535 })];
    if root_objstm {
        // catalog and page tree root as members of object stream 11, whose data is encrypted as a whole with its own key
        let cat: &[u8] = b"<< /Type /Catalog /Pages 2 0 R /Metadata 5 0 R >>";
        let pages = empty_pages_body();
        let header = format!("1 0 2 {} ", cat.len() + 1);
        let mut body = header.clone().into_bytes();
        body.extend_from_slice(cat);
        body.push(b' ');
        body.extend_from_slice(&pages);
        let o = d.stream(11, 0, &format!("/Type /ObjStm /N 2 /First {}", header.len()), &h.encrypt(11, 0, &body), None, false);
        e.push((11, XEntry::InUse { off: o, gen: 0 }));
        e.push((1, XEntry::Compressed { container: 11, idx: 0 }));
        e.push((2, XEntry::Compressed { container: 11, idx: 1 }));
    } else {
        let o = d.obj(1, 0, b"<< /Type /Catalog /Pages 2 0 R /Metadata 5 0 R >>");
        e.push((1, XEntry::InUse { off: o, gen: 0 }));
        let o = d.obj(2, 0, &empty_pages_body());
        e.push((2, XEntry::InUse { off: o, gen: 0 }));
    }
    // metadata stream (object 5): encrypted unless EncryptMetadata is false
    let meta_pt: Vec<u8> = if place == "metadata-stream" { pt.clone() } else { b"<x:xmpmeta/>".to_vec() };
    // EncryptMetadata false is meaningful from V 4 on; below, the metadata stream is encrypted like any other
    let meta = if enc_meta || h.var.v < 4 { h.encrypt(5, 0, &meta_pt) } else { meta_pt.clone() };
    let o = d.stream(5, 0, "/Type /Metadata /Subtype /XML", &meta, None, false);
    e.push((5, XEntry::InUse { off: o, gen: 0 }));
    // baseline string object 9
    let o = d.obj(9, 0, format!("<< /S {} >>", hexs(&if h.dict_form == "strf-identity" { b"baseline".to_vec() } else { h.encrypt(9, 0, b"baseline") })).as_bytes());
    e.push((9, XEntry::InUse { off: o, gen: 0 }));
    // the target
    let (mut target, mut tgen_used) = (tid, tgen);
    match place {
        "stream" => { let o = d.stream(tid, tgen, "/T 1", &h.encrypt(tid, tgen, &pt), None, false); e.push((tid, XEntry::InUse { off: o, gen: tgen })); }
        "string-in-objstm" => {
            let lit = format!("<< /S {} /T 2 >>", hexs(&pt));
            let members = vec![(7u64, lit.into_bytes())];
            // the container's data is encrypted as a whole with the container's own key
            let mut body = Vec::new();
            let header = format!("7 0 ");
            body.extend_from_slice(header.as_bytes());
            body.extend_from_slice(&members[0].1);
            let encd = h.encrypt(6, 0, &body);
            let o = d.stream(6, 0, &format!("/Type /ObjStm /N 1 /First {}", header.len()), &encd, None, false);
            e.push((6, XEntry::InUse { off: o, gen: 0 }));
            e.push((7, XEntry::Compressed { container: 6, idx: 0 }));
            target = 7; tgen_used = 0;
        }
        "metadata-stream" => { target = 5; tgen_used = 0; }
        "encrypt-dict-indirect" | "encrypt-dict-direct" => { target = 8; tgen_used = 0; }
        "string-bare" => { let o = d.obj(tid, tgen, hexs(&h.encrypt(tid, tgen, &pt)).as_bytes()); e.push((tid, XEntry::InUse { off: o, gen: tgen })); }
        "string-in-array" => { let o = d.obj(tid, tgen, format!("[{} 7]", hexs(&h.encrypt(tid, tgen, &pt))).as_bytes()); e.push((tid, XEntry::InUse { off: o, gen: tgen })); }
        "string-nested" => { let o = d.obj(tid, tgen, format!("<< /A [ 1 << /S {} >> ] /T 4 >>", hexs(&h.encrypt(tid, tgen, &pt))).as_bytes()); e.push((tid, XEntry::InUse { off: o, gen: tgen })); }
        // (with /StrF /Identity strings are stored as they are)
        _ => { let st = if h.dict_form == "strf-identity" { pt.clone() } else { h.encrypt(tid, tgen, &pt) }; let o = d.obj(tid, tgen, format!("<< /S {} /T 3 >>", hexs(&st)).as_bytes()); e.push((tid, XEntry::InUse { off: o, gen: tgen })); }
    }
    let direct = place == "encrypt-dict-direct";
    if !direct {
        let o = d.obj(8, 0, h.dict().as_bytes());
        e.push((8, XEntry::InUse { off: o, gen: 0 }));
    }
    let enc_entry = if direct { h.dict() } else { "8 0 R".to_string() };
    let extra = format!("/Root 1 0 R /Encrypt {} /ID [{} {}]", enc_entry, hexs(ID0), hexs(&ID0.iter().rev().copied().collect::<Vec<u8>>()));
    let size = e.iter().map(|x| x.0).max().unwrap() + 2;
    if use_xref_stream { d.xref_stream(size - 1, &e, size, [1, 3, 2], &extra, None, Split::Min, Filter::Flate); }
    else { d.xref_table(&e, size, &extra, None, Split::Min); }
    Built { bytes: d.buf, target: (target, tgen_used), handler_o: h.o.clone() }
}

pub fn run(cases_path: &str, report_path: &str, _opts: &[String]) {
    let cases = read_cases(cases_path);
    let mut rep = Report::default();
    for (ci, case) in cases.iter().enumerate() {
        if let Some(path) = case["fixture"].as_str() {
            // Engine B on the repository's fixtures (written by third-party tools): every password that must work
            // yields the same complete observation, a wrong one is rejected with the password error
            rep.cases += 1;
            rep.nontrivial += 1;
            let bytes = std::fs::read(path).expect("fixture");
            let mut snaps = Vec::new();
            for pw in case["good"].as_array().unwrap() {
                rep.execs += 1;
                let s = snapshot(&bytes, pw.as_str().unwrap().as_bytes(), false);
                let txt = format!("{}", s);
                if s["load"] != "ok" || txt.contains("\"kind\":\"Decrypt\"") || txt.contains("\"k\":\"panic\"") {
                    rep.fail(&format!("fixture:unreadable:{}", path.rsplit('/').next().unwrap()), json!({"case": case, "password": pw, "load": s["load"], "first_error": txt.find("\"kind\"").map(|i| txt[i..].chars().take(120).collect::<String>())}));
                }
                snaps.push(s);
            }
            if snaps.windows(2).any(|w| w[0] != w[1]) {
                rep.fail(&format!("fixture:user-owner-differ:{}", path.rsplit('/').next().unwrap()), json!({"case": case}));
            }
            rep.execs += 1;
            match guarded(|| FileOptions::uncached().password(b"certainly wrong").load(bytes.clone())) {
                Outcome::Done(Err(_)) => {}          // rejected: which error variant says so is not part of the property
                Outcome::Done(Ok(_)) => rep.fail("fixture:wrong-password-accepted", json!({"case": case})),
                Outcome::Panic(p) => rep.fail("fixture:panic", json!({"case": case, "observed": panic_json(&p)})),
            }
            continue;
        }
        if case["kdf"] == true {
            kdf_case(&mut rep, case);
            continue;
        }
        rep.cases += 1;
        rep.execs += 1;
        let place = case["place"].as_str().unwrap();
        let pwrel = case["pwrel"].as_str().unwrap();
        if place != "string-in-object" || case["len"] != "short" { rep.nontrivial += 1; }
        let b = build(case);
        let pw: &[u8] = match pwrel { "user" => b"userpw", "owner" => b"ownerpw", "empty-user" => b"", _ => b"nope" };
        let pt = plaintext(case["len"].as_str().unwrap());
        let dform = case["dform"].as_str().unwrap_or("plain");
        let class_tail = if dform == "plain" { format!("{}:{}:{}", case["variant"].as_str().unwrap(), place, pwrel) } else { format!("{}:{}:{}:{}", case["variant"].as_str().unwrap(), place, pwrel, dform) };
        let fail = |rep: &mut Report, what: &str, extra: Value| {
            let mut d = json!({"case_index": ci, "case": case});
            for (k, v) in extra.as_object().unwrap() { d[k] = v.clone(); }
            rep.fail(&format!("{}:{}", what, class_tail), d);
        };
        let opened = guarded(|| FileOptions::uncached().password(pw).load(b.bytes.clone()));
        match opened {
            Outcome::Panic(p) => fail(&mut rep, "panic:open", json!({"observed": panic_json(&p)})),
            Outcome::Done(Err(e)) => {
                if pwrel == "wrong" {
                    let _ = &e;                   // rejected: which error variant says so is not part of the property
                } else {
                    fail(&mut rep, "rejected", json!({"observed": err_json(&e), "matches_asbuilt": case["mech"] != case["ideal"]}));
                }
            }
            Outcome::Done(Ok(f)) => {
                if pwrel == "wrong" { fail(&mut rep, "wrong-password-accepted", json!({})); continue; }
                let r = f.resolver();
                let get_s = |id: u64, gen: u64| -> Value {
                    match guarded(|| r.resolve(PlainRef { id, gen })) {
                        Outcome::Done(Ok(Primitive::String(s))) => json!({"k": "ok", "d": s.as_bytes()}),
                        Outcome::Done(Ok(Primitive::Array(a))) => match a.first() { Some(Primitive::String(s)) => json!({"k": "ok", "d": s.as_bytes()}), other => json!({"k": "nostring", "p": format!("{:?}", other)}) },
                        Outcome::Done(Ok(Primitive::Dictionary(d))) if d.get("A").is_some() => match d.get("A") {
                            Some(Primitive::Array(a)) => match a.get(1) { Some(Primitive::Dictionary(dd)) => match dd.get("S") { Some(Primitive::String(s)) => json!({"k": "ok", "d": s.as_bytes()}), other => json!({"k": "nostring", "p": format!("{:?}", other)}) }, other => json!({"k": "nostring", "p": format!("{:?}", other)}) },
                            other => json!({"k": "nostring", "p": format!("{:?}", other)}) },
                        Outcome::Done(Ok(Primitive::Dictionary(d))) => match d.get("S").or(d.get("O")) { Some(Primitive::String(s)) => json!({"k": "ok", "d": s.as_bytes()}), other => json!({"k": "nostring", "p": format!("{:?}", other)}) },
                        Outcome::Done(Ok(Primitive::Stream(s))) => match guarded(|| s.raw_data(&r)) { Outcome::Done(Ok(d)) => json!({"k": "ok", "d": d.to_vec()}), Outcome::Done(Err(e)) => err_json(&e), Outcome::Panic(p) => panic_json(&p) },
                        Outcome::Done(Ok(p)) => json!({"k": "other", "p": prim_json(&p)}),
                        Outcome::Done(Err(e)) => err_json(&e),
                        Outcome::Panic(p) => panic_json(&p),
                    }
                };
                // baseline object must always decrypt
                let base = get_s(9, 0);
                if base != json!({"k": "ok", "d": b"baseline"}) {
                    fail(&mut rep, "baseline", json!({"observed": base, "matches_asbuilt": case["mech"] != case["ideal"]}));
                }
                let want: Vec<u8> = if place.starts_with("encrypt-dict") { b.handler_o.clone() } else { pt.clone() };
                if place == "encrypt-dict-direct" {
                    // the dictionary is part of the trailer: it is enough that the document opened and the baseline decrypts
                } else {
                    let got = get_s(b.target.0, b.target.1);
                    if got != json!({"k": "ok", "d": want}) {
                        let what = if got["k"] == "panic" { "panic:read" } else { "plaintext" };
                        fail(&mut rep, what, json!({"expected_len": want.len(), "observed": got, "matches_asbuilt": case["mech"] != case["ideal"]}));
                    }
                }
            }
        }
        if ci % 700 == 1 { rep.sample(json!({"case": case, "file_len": b.bytes.len()})); }
    }
    rep.write(report_path);
}

/// C06, revision 6 hash iteration rule (spec/Kdf.tla): find a password whose reference hash, at the place named by
/// `role`, follows exactly the pattern of last-byte relations of the case; write a document with it; it must open
/// with that password and decrypt.
fn kdf_case(rep: &mut Report, case: &Value) {
    rep.cases += 1;
    rep.nontrivial += 1;
    let role = case["role"].as_str().unwrap();
    let pattern: Vec<&str> = case["pattern"].as_array().unwrap().iter().map(|v| v.as_str().unwrap()).collect();
    let var = variant("R6-AESV3");
    // U of the fixed user password (the owner hashes take it as extra input)
    let fixed_user: &[u8] = b"userpw";
    let u_fixed = Handler::new(var.clone(), fixed_user, b"x", -3904, ID0, true).u;
    let (salt, udata): (&[u8], Vec<u8>) = match role {
        "user-validation" => (b"uvalsalt", vec![]), "user-key" => (b"ukeysalt", vec![]),
        "owner-validation" => (b"ovalsalt", u_fixed.clone()), _ => (b"okeysalt", u_fixed.clone()),
    };
    let mut found: Option<Vec<u8>> = None;
    for n in 0..200000u32 {
        let pw = format!("k{}", n).into_bytes();
        if hash_2b_trace(&pw, salt, &udata).1 == pattern { found = Some(pw); break; }
    }
    let pw = match found { Some(p) => p, None => { rep.notes.push(format!("no password found for {} {:?}", role, pattern)); rep.count("kdf:not-found"); return; } };
    let (user, owner): (Vec<u8>, Vec<u8>) = if role.starts_with("user") { (pw.clone(), b"ownerpw".to_vec()) } else { (fixed_user.to_vec(), pw.clone()) };
    let h = Handler::new(var, &user, &owner, -3904, ID0, true);
    let mut d = Doc::new(b"");
    let mut e: Vec<(u64, XEntry)> = vec![(0, XEntry::Free { next: 0, gen: 65535 })];
    let o = d.obj(1, 0, b"<< /Type /Catalog /Pages 2 0 R >>"); e.push((1, XEntry::InUse { off: o, gen: 0 }));
    let o = d.obj(2, 0, &empty_pages_body()); e.push((2, XEntry::InUse { off: o, gen: 0 }));
    let o = d.obj(9, 0, format!("<< /S {} >>", hexs(&if h.dict_form == "strf-identity" { b"baseline".to_vec() } else { h.encrypt(9, 0, b"baseline") })).as_bytes()); e.push((9, XEntry::InUse { off: o, gen: 0 }));
    let o = d.stream(3, 0, "/T 1", &h.encrypt(3, 0, b"stream plaintext"), None, false); e.push((3, XEntry::InUse { off: o, gen: 0 }));
    let o = d.obj(8, 0, h.dict().as_bytes()); e.push((8, XEntry::InUse { off: o, gen: 0 }));
    d.xref_table(&e, 10, &format!("/Root 1 0 R /Encrypt 8 0 R /ID [{} {}]", hexs(ID0), hexs(&ID0.iter().rev().copied().collect::<Vec<u8>>())), None, Split::Min);
    let class = format!("kdf:{}:{}", role, pattern.join("-"));
    let detail = |what: &str, obs: Value| json!({"case": case, "password": String::from_utf8_lossy(&pw), "what": what, "observed": obs});
    for (who, p) in [("found", pw.clone()), ("other", if role.starts_with("user") { owner.clone() } else { user.clone() })] {
        rep.execs += 1;
        match guarded(|| FileOptions::uncached().password(&p).load(d.buf.clone())) {
            Outcome::Panic(pi) => rep.fail(&format!("panic:{}", class), detail(who, panic_json(&pi))),
            Outcome::Done(Err(er)) => rep.fail(&format!("rejected:{}", class), detail(who, err_json(&er))),
            Outcome::Done(Ok(f)) => {
                let r = f.resolver();
                let s_ok = matches!(guarded(|| r.resolve(PlainRef { id: 9, gen: 0 })), Outcome::Done(Ok(Primitive::Dictionary(ref dd))) if matches!(dd.get("S"), Some(Primitive::String(s)) if s.as_bytes() == b"baseline"));
                let st_ok = match guarded(|| r.resolve(PlainRef { id: 3, gen: 0 })) { Outcome::Done(Ok(Primitive::Stream(s))) => matches!(guarded(|| s.raw_data(&r)), Outcome::Done(Ok(ref dta)) if &dta[..] == b"stream plaintext"), _ => false };
                if !s_ok || !st_ok { rep.fail(&format!("plaintext:{}", class), detail(who, json!({"string_ok": s_ok, "stream_ok": st_ok}))); }
            }
        }
    }
    rep.execs += 1;
    match guarded(|| FileOptions::uncached().password(b"certainly wrong").load(d.buf.clone())) {
        Outcome::Done(Err(_)) => {}
        Outcome::Done(Ok(_)) => rep.fail(&format!("wrong-password-accepted:{}", class), detail("wrong", json!({}))),
        Outcome::Panic(pi) => rep.fail(&format!("panic:{}", class), detail("wrong", panic_json(&pi))),
    }
}
