//! C12 – Engine A: every call sequence emitted by TLC (spec/CacheView.tla) runs on a generated
//! document under the cache configuration of the case; each answer is compared with the spec's
//! `Uncached` value (and with a real uncached run).

use crate::mkpdf::*;
use crate::observe::*;
use crate::report::*;
use pdf::any::AnySync;
use pdf::error::{PdfError, Result};
use pdf::file::{Cache, File, FileOptions, NoCache, NoLog, SyncCache};
use pdf::object::{ImageXObject, MaybeRef, Object, PagesNode, PlainRef, Ref, Resolve};
use pdf::primitive::Dictionary;
use serde_json::{json, Value};
use std::sync::Arc;

pub const PAYLOAD: &[u8] = b"\x10\x20\x30\x40";

pub fn build() -> (Vec<u8>, Vec<u8>) {
    let mut d = Doc::new(b"");
    let mut e: Vec<(u64, XEntry)> = vec![(0, XEntry::Free { next: 0, gen: 65535 })];
    let o = d.obj(1, 0, b"<< /Type /Pages /Kids [] /Count 0 >>");
    e.push((1, XEntry::InUse { off: o, gen: 0 }));
    let o = d.obj(2, 0, b"<< /Type /Foo /X 1 >>");
    e.push((2, XEntry::InUse { off: o, gen: 0 }));
    let o = d.obj(3, 0, b"42");
    e.push((3, XEntry::InUse { off: o, gen: 0 }));
    let z = zlib(PAYLOAD);
    let data = hex(&z);
    let o = d.stream(4, 0, "/Type /XObject /Subtype /Image /Width 2 /Height 2 /ColorSpace /DeviceGray /BitsPerComponent 8 /Filter [/ASCIIHexDecode /FlateDecode]", &data, None, false);
    e.push((4, XEntry::InUse { off: o, gen: 0 }));
    let o = d.obj(5, 0, &catalog_body(6));
    e.push((5, XEntry::InUse { off: o, gen: 0 }));
    let o = d.obj(6, 0, &empty_pages_body());
    e.push((6, XEntry::InUse { off: o, gen: 0 }));
    let o = d.obj(8, 0, b"<< /Type /Page /Parent 7 0 R /MediaBox [0 0 1 1] >>");
    e.push((8, XEntry::InUse { off: o, gen: 0 }));
    e.push((7, XEntry::Free { next: 0, gen: 1 }));
    let o = d.obj(9, 0, b"[2 0 R 7 0 R]");
    e.push((9, XEntry::InUse { off: o, gen: 0 }));
    // 10: a page under 16 nested /Pages nodes 11 (root) .. 26
    for k in 11..=26u64 {
        let parent = if k == 11 { String::new() } else { format!(" /Parent {} 0 R", k - 1) };
        let kid = if k == 26 { 10 } else { k + 1 };
        let o = d.obj(k, 0, format!("<< /Type /Pages /Kids [{} 0 R] /Count 1{} >>", kid, parent).as_bytes());
        e.push((k, XEntry::InUse { off: o, gen: 0 }));
    }
    let o = d.obj(10, 0, b"<< /Type /Page /Parent 26 0 R /MediaBox [0 0 1 1] >>");
    e.push((10, XEntry::InUse { off: o, gen: 0 }));
    // 30 and 31: /Pages nodes that name each other as /Parent
    let o = d.obj(30, 0, b"<< /Type /Pages /Kids [] /Count 0 /Parent 31 0 R >>");
    e.push((30, XEntry::InUse { off: o, gen: 0 }));
    let o = d.obj(31, 0, b"<< /Type /Pages /Kids [] /Count 0 /Parent 30 0 R >>");
    e.push((31, XEntry::InUse { off: o, gen: 0 }));
    d.xref_table(&e, 32, "/Root 5 0 R", None, Split::Min);
    (d.buf, z)
}

fn ans<T>(r: Result<T>) -> String {
    match r {
        Ok(_) => "ok".into(),
        Err(e) => format!("err:{}", err_kind(&e)),
    }
}

fn classify(d: &[u8], zl: &[u8]) -> String {
    if d == PAYLOAD { "full".into() } else if d == zl { "partial".into() } else { format!("other:{}", d.len()) }
}

fn call<OC, SC>(f: &File<Vec<u8>, OC, SC, NoLog>, step: &Value, zl: &[u8]) -> String
where
    OC: Cache<Result<AnySync, Arc<PdfError>>>,
    SC: Cache<Result<Arc<[u8]>, Arc<PdfError>>>,
{
    let r = f.resolver();
    let id = step["arg"].as_u64().unwrap();
    let pr = PlainRef { id, gen: 0 };
    let image = || ImageXObject::from_primitive(r.resolve(pr)?, &r);
    match step["call"].as_str().unwrap() {
        "get" => match step["typ"].as_str().unwrap() {
            // members of the /Parent cycle: how much of the parent chain the loaded value holds is part of the answer
            "P" if id >= 30 => match r.get::<PagesNode>(Ref::new(pr)) {
                Ok(n) => match &*n { PagesNode::Tree(t) => if t.parent.is_some() { "ok+".into() } else { "ok-".into() }, _ => "ok".into() },
                Err(e) => format!("err:{}", err_kind(&e)),
            },
            "P" => ans(r.get::<PagesNode>(Ref::new(pr))),
            "VM" => ans(r.get::<Vec<MaybeRef<Dictionary>>>(Ref::new(pr))),
            "VR" => ans(r.get::<Vec<Ref<Dictionary>>>(Ref::new(pr))),
            _ => ans(r.get::<Dictionary>(Ref::new(pr))),
        },
        "resolve" => ans(r.resolve(pr)),
        "data" => match image().and_then(|im| im.inner.data(&r)) { Ok(d) => classify(&d, zl), Err(e) => format!("err:{}", err_kind(&e)) },
        "rawimage" => match image().and_then(|im| im.raw_image_data(&r).map(|(d, _)| d)) { Ok(d) => classify(&d, zl), Err(e) => format!("err:{}", err_kind(&e)) },
        "image" => match image().and_then(|im| im.image_data(&r)) { Ok(d) => classify(&d, zl), Err(e) => format!("err:{}", err_kind(&e)) },
        // the undecoded bytes of the stream object (Resolve::stream_data)
        "rawdata" => match r.resolve(pr).and_then(|p| p.into_stream(&r)).and_then(|st| st.raw_data(&r)) {
            Ok(d) => if crate::refcodec::hex_decode(&d).as_deref() == Some(zl) { "raw".into() } else { classify(&d, zl) },
            Err(e) => format!("err:{}", err_kind(&e)),
        },
        c => panic!("unknown call {}", c),
    }
}

fn run_seq<OC, SC>(f: File<Vec<u8>, OC, SC, NoLog>, path: &[Value], zl: &[u8]) -> Vec<String>
where
    OC: Cache<Result<AnySync, Arc<PdfError>>>,
    SC: Cache<Result<Arc<[u8]>, Arc<PdfError>>>,
{
    path.iter().map(|st| match guarded(|| call(&f, st, zl)) {
        Outcome::Done(a) => a,
        Outcome::Panic(p) => format!("panic:{}", p.sym),
    }).collect()
}

/// abstract answer: the model only distinguishes ok / err for loads and full / partial / bad for stream data
fn abstract_ans(call: &str, a: &str) -> String {
    if a.starts_with("err") && (call == "get" || call == "resolve") { "err".into() }
    else if call == "image" && a != "full" && !a.starts_with("panic") { "bad".into() }
    else { a.to_string() }
}

pub fn run(cases_path: &str, report_path: &str, _opts: &[String]) {
    let cases = read_cases(cases_path);
    let mut rep = Report::default();
    let (bytes, zl) = build();
    for (ci, case) in cases.iter().enumerate() {
        rep.cases += 1;
        let path = case["path"].as_array().unwrap();
        let oc = case["ocOn"].as_bool().unwrap();
        let sc = case["scOn"].as_bool().unwrap();
        if (oc || sc) && path.len() >= 2 {
            rep.nontrivial += 1;
        }
        rep.execs += path.len() as u64;
        let tol = case["tol"].as_bool().unwrap_or(false);
        let po = || if tol { pdf::object::ParseOptions::tolerant() } else { pdf::object::ParseOptions::strict() };
        let obs = match (oc, sc) {
            (true, true) => FileOptions::cached().parse_options(po()).load(bytes.clone()).map(|f| run_seq(f, path, &zl)),
            (true, false) => FileOptions::uncached().cache(SyncCache::new(), NoCache).parse_options(po()).load(bytes.clone()).map(|f| run_seq(f, path, &zl)),
            (false, true) => FileOptions::uncached().cache(NoCache, SyncCache::new()).parse_options(po()).load(bytes.clone()).map(|f| run_seq(f, path, &zl)),
            (false, false) => FileOptions::uncached().parse_options(po()).load(bytes.clone()).map(|f| run_seq(f, path, &zl)),
        };
        let obs = match obs {
            Ok(o) => o,
            Err(e) => { rep.fail("load", json!({"case_index": ci, "case": case, "observed": err_json(&e)})); continue; }
        };
        // reference: every call alone on a fresh uncached document (same kind of error required)
        for (k, st) in path.iter().enumerate() {
            let callname = st["call"].as_str().unwrap();
            let lone = FileOptions::uncached().parse_options(po()).load(bytes.clone()).map(|f| run_seq(f, &path[k..k + 1], &zl)).map(|v| v[0].clone()).unwrap_or_else(|_| "loaderr".into());
            let ideal = st["ideal"].as_str().unwrap();
            if abstract_ans(callname, &lone) != ideal {
                rep.fail("lone-answer-differs-from-spec", json!({"case_index": ci, "case": case, "step": k, "spec": ideal, "lone": lone}));
            }
            if obs[k] != lone {
                let asb = abstract_ans(callname, &obs[k]) == st["mech"].as_str().unwrap();
                let devs: Vec<&str> = case["dev"].as_array().map(|a| a.iter().filter_map(|x| x.as_str()).collect()).unwrap_or_default();
                let class = if asb && st["mech"] != st["ideal"] { format!("asbuilt:{}", devs.join("+")) } else { format!("answer:{}", callname) };
                rep.fail(&class, json!({"case_index": ci, "case": case, "step": k, "expected": lone, "observed": obs[k], "all_observed": obs, "matches_asbuilt": asb}));
            }
        }
        if ci < 2 {
            rep.sample(json!({"case": case, "observed": obs}));
        }
    }
    rep.write(report_path);
}
