//! C09 - Engine B: a random driver calls create / update / promise / fulfil / get / save on a real open document and
//! records every call with its result and what every reference resolves to afterwards (after a successful save also
//! what a reload of the written bytes resolves to). The concatenated runs are validated by TLC against
//! spec/StoreTrace.tla: every call must be the corresponding Store.tla action, the recorded observations must be the
//! model's, and the properties of Store.tla hold in every state.

use crate::observe::*;
use crate::rx_store::{abstract_val, base_file, concretise, open_store, Store};
use pdf::file::PromisedRef;
use pdf::object::PlainRef;
use pdf::primitive::Primitive;
use rand::{rngs::StdRng, seq::SliceRandom, Rng, SeedableRng};
use serde_json::{json, Value};
use std::collections::HashMap;
use std::io::Write;

const NB: u64 = 3;

fn obs(s: &dyn Store, refs: &HashMap<u64, PlainRef>, readable: &[u64], nid: u64) -> Vec<Value> {
    (1..=nid).map(|i| if readable.contains(&i) {
        match guarded(|| s.resolve(refs[&i])) { Outcome::Done(x) => abstract_val(s, &x), Outcome::Panic(p) => json!(["#PANIC", p.sym]) }
    } else { json!(["#NONE"]) }).collect()
}

/// usage: pdfverif storetrace <out.ndjson> <report.json> --seed S --runs N --calls C --maxnew M --mode free|nomerge
pub fn run(out_path: &str, report_path: &str, opts: &[String]) {
    let get = |k: &str, d: u64| opts.iter().position(|o| o == k).and_then(|i| opts.get(i + 1)).and_then(|v| v.parse().ok()).unwrap_or(d);
    let mode = opts.iter().position(|o| o == "--mode").and_then(|i| opts.get(i + 1)).cloned().unwrap_or("free".into());
    let (seed, runs, ncalls, maxnew) = (get("--seed", 1), get("--runs", 20), get("--calls", 40), get("--maxnew", 6));
    let nid = NB + maxnew;
    install_panic_hook();
    let mut rng = StdRng::seed_from_u64(seed);
    let mut out = std::io::BufWriter::new(std::fs::File::create(out_path).expect("trace file"));
    let tmp = format!("{}.tmp.pdf", out_path);
    let wvals = [json!(["A"]), json!(["B"]), json!(["A", "B"]), json!(["#I"]), json!(["A"]), json!(["B"]), json!(["A", "B"]), json!(["#I"]), json!(["A"]), json!(["B"]), json!(["#I"]), json!(["#BAD"])];
    let (mut calls, mut saves_ok, mut saves_err, mut merges_possible) = (0u64, 0u64, 0u64, 0u64);
    for run in 0..runs {
        let hdr = if rng.gen_bool(0.5) { 0 } else { 7 };
        let layout = rng.gen_range(0..2usize);
        let cached = rng.gen_bool(0.5);
        let base = base_file(hdr, layout);
        let mut s = open_store(base.clone(), cached, &tmp).expect("open base");
        let bad = s.resolve(PlainRef { id: 3, gen: 0 }).expect("base stream");
        let mut refs: HashMap<u64, PlainRef> = (1..=NB).map(|i| (i, PlainRef { id: i, gen: 0 })).collect();
        let mut promises: HashMap<u64, PromisedRef<Primitive>> = HashMap::new();
        let mut byreal: HashMap<u64, u64> = (1..=NB).map(|i| (i, i)).collect();
        let mut nnew = 0u64;
        let mut pending_dict: HashMap<u64, Value> = HashMap::new(); // ids with a pending dictionary value (merge candidates)
        writeln!(out, "{}", json!({"ev": "config", "run": run, "hdr": hdr, "cached": cached, "layout": layout, "r": 0, "v": [], "ret": 0, "res": "ok", "obs": [], "gobs": [], "reload": []})).unwrap();
        for _ in 0..ncalls {
            let readable: Vec<u64> = (1..=NB + nnew).filter(|i| !promises.contains_key(i)).collect();
            let mut choices = vec!["update", "update", "get", "get"];
            if nnew < maxnew { choices.push("create"); choices.push("promise"); }
            if !promises.is_empty() { choices.push("fulfil"); choices.push("fulfil"); }
            if promises.is_empty() { choices.push("save"); }
            let op = *choices.choose(&mut rng).unwrap();
            let pick_val = |rng: &mut StdRng, target: Option<u64>, pending_dict: &HashMap<u64, Value>| -> Value {
                loop {
                    let v = wvals.choose(rng).unwrap().clone();
                    if mode == "nomerge" {
                        // never write a dictionary over a different pending dictionary (the recorded merge finding)
                        if let Some(t) = target { if let Some(old) = pending_dict.get(&t) { if !v[0].as_str().unwrap().starts_with('#') && *old != v { continue; } } }
                    }
                    return v;
                }
            };
            let mut ev = json!({"ev": op, "run": run, "r": 0, "v": [], "ret": 0, "res": "ok", "gobs": [], "reload": []});
            match op {
                "create" => {
                    let v = pick_val(&mut rng, None, &pending_dict);
                    let pv = concretise(&v, &bad);
                    match guarded(|| s.create(pv)) {
                        Outcome::Done(Ok(r)) => { nnew += 1; let id = NB + nnew; refs.insert(id, r); byreal.insert(r.id, id); ev["ret"] = json!(id); if !v[0].as_str().unwrap().starts_with('#') { pending_dict.insert(id, v.clone()); } }
                        Outcome::Done(Err(_)) => ev["res"] = json!("err"),
                        Outcome::Panic(p) => ev["res"] = json!(format!("panic:{}", p.sym)),
                    }
                    ev["v"] = v;
                }
                "update" | "fulfil" => {
                    let r = if op == "update" { *readable.choose(&mut rng).unwrap() } else { *promises.keys().collect::<Vec<_>>().choose(&mut rng).unwrap().clone() };
                    let v = pick_val(&mut rng, Some(r), &pending_dict);
                    if let Some(old) = pending_dict.get(&r) { if !v[0].as_str().unwrap().starts_with('#') && *old != v { merges_possible += 1; } }
                    let pv = concretise(&v, &bad);
                    let res = if op == "update" { let rr = refs[&r]; guarded(|| s.update(rr, pv)) } else { let p = promises.remove(&r).unwrap(); guarded(|| s.fulfil(p, pv)) };
                    match res {
                        Outcome::Done(Ok(back)) => { ev["ret"] = json!(byreal.get(&back.id).cloned().unwrap_or(999)); }
                        Outcome::Done(Err(_)) => ev["res"] = json!("err"),
                        Outcome::Panic(p) => ev["res"] = json!(format!("panic:{}", p.sym)),
                    }
                    if v[0].as_str().unwrap().starts_with('#') { pending_dict.remove(&r); } else {
                        // under the as-built merge the pending value is the union; for the driver's purpose any pending dictionary counts
                        pending_dict.insert(r, v.clone());
                    }
                    ev["r"] = json!(r);
                    ev["v"] = v;
                }
                "promise" => {
                    let p = s.promise();
                    nnew += 1;
                    let id = NB + nnew;
                    refs.insert(id, p.get_inner());
                    byreal.insert(p.get_inner().id, id);
                    promises.insert(id, p);
                    ev["ret"] = json!(id);
                }
                "get" => {
                    let r = *readable.choose(&mut rng).unwrap();
                    let g = match guarded(|| s.get(refs[&r])) { Outcome::Done(x) => abstract_val(&*s, &x), Outcome::Panic(p) => json!(["#PANIC", p.sym]) };
                    ev["r"] = json!(r);
                    ev["ret"] = json!(r);
                    ev["gobs"] = g;
                }
                _ => {
                    match guarded(|| s.save()) {
                        Outcome::Done(Ok(bytes)) => {
                            saves_ok += 1;
                            pending_dict.clear();
                            // reload what was written and resolve every reference
                            let rl = match open_store(bytes, false, &tmp) {
                                Ok(s2) => obs(&*s2, &refs, &readable, nid),
                                Err(e) => vec![json!(["#RELOAD-ERR", err_kind(&e)]); nid as usize],
                            };
                            ev["reload"] = json!(rl);
                        }
                        Outcome::Done(Err(_)) => { saves_err += 1; ev["res"] = json!("err"); }
                        Outcome::Panic(p) => ev["res"] = json!(format!("panic:{}", p.sym)),
                    }
                }
            }
            let readable2: Vec<u64> = (1..=NB + nnew).filter(|i| !promises.contains_key(i)).collect();
            ev["obs"] = json!(obs(&*s, &refs, &readable2, nid));
            writeln!(out, "{}", ev).unwrap();
            calls += 1;
        }
    }
    out.flush().unwrap();
    std::fs::remove_file(&tmp).ok();
    std::fs::write(report_path, serde_json::to_vec(&json!({"runs": runs, "calls": calls, "saves_ok": saves_ok, "saves_err": saves_err, "merge_situations": merges_possible, "mode": mode})).unwrap()).unwrap();
}
