//! C07 – Engine A: every tree emitted by TLC (spec/PageTree.tla) becomes a real document;
//! num_pages, get_page(i) for all i in 0..count+2, pages(), media_box, crop_box, resources are
//! compared with the spec's DFS leaf order / nearest-ancestor attribute.

use crate::mkpdf::*;
use crate::observe::*;
use crate::report::*;
use pdf::file::FileOptions;
use pdf::object::{MaybeRef, PageRc, ParseOptions, Resources};
use pdf::primitive::Primitive;
use serde_json::{json, Value};

fn node_body(case: &Value, i: usize, numrefs: bool) -> Vec<u8> {
    let n = case["n"].as_u64().unwrap() as usize;
    let kind = case["kind"][i - 1].as_str().unwrap();
    let parent = case["parent"][i - 1].as_u64().unwrap();
    let has = |set: &str| case[set].as_array().unwrap().iter().any(|x| x.as_u64() == Some(i as u64));
    let mut s = String::from("<< ");
    if kind == "Pages" {
        let kids: Vec<String> = (2..=n).filter(|j| case["parent"][j - 1].as_u64() == Some(i as u64)).map(|j| format!("{} 0 R", j)).collect();
        s += &format!("/Type /Pages /Kids [{}] /Count {} ", kids.join(" "), case["count"][i - 1]);
    } else {
        s += &format!("/Type /Page /Marker {} ", i);
    }
    if parent != 0 {
        s += &format!("/Parent {} 0 R ", parent);
    }
    // in the plain layout the first coordinate of every second node's boxes is a reference to a number object (n + 5, n + 6)
    let (m0, c0) = if numrefs && i % 2 == 1 { (format!("{} 0 R", n + 5), format!("{} 0 R", n + 6)) } else { ("3".to_string(), "1".to_string()) };
    if has("mset") {
        s += &format!("/MediaBox [{} 7 {} {}] /Resources << /ExtGState << /GS{} << /LW 1 >> >> >> ", m0, 100 + i, 200 + i, i);
    }
    if has("cset") {
        s += &format!("/CropBox [{} 2 {} {}] ", c0, 50 + i, 60 + i);
    }
    s += ">>";
    s.into_bytes()
}

pub fn build(case: &Value, layout: usize) -> Vec<u8> {
    let n = case["n"].as_u64().unwrap() as usize;
    let cat = n as u64 + 1;
    let mut d = Doc::new(b"");
    let mut e: Vec<(u64, XEntry)> = vec![(0, XEntry::Free { next: 0, gen: 65535 })];
    let o = d.obj(cat, 0, &catalog_body(1));
    e.push((cat, XEntry::InUse { off: o, gen: 0 }));
    if layout == 0 {
        for i in 1..=n {
            let o = d.obj(i as u64, 0, &node_body(case, i, true));
            e.push((i as u64, XEntry::InUse { off: o, gen: 0 }));
        }
        let o = d.obj(n as u64 + 5, 0, b"3");
        e.push((n as u64 + 5, XEntry::InUse { off: o, gen: 0 }));
        let o = d.obj(n as u64 + 6, 0, b"1");
        e.push((n as u64 + 6, XEntry::InUse { off: o, gen: 0 }));
        d.xref_table(&e, n as u64 + 7, &format!("/Root {} 0 R", cat), None, Split::Min);
    } else {
        let members: Vec<(u64, Vec<u8>)> = (1..=n).map(|i| (i as u64, node_body(case, i, false))).collect();
        let cont = cat + 1;
        let o = d.objstm(cont, &members, Filter::Flate, " ", b" ", false, "");
        e.push((cont, XEntry::InUse { off: o, gen: 0 }));
        for i in 1..=n {
            e.push((i as u64, XEntry::Compressed { container: cont, idx: i - 1 }));
        }
        d.xref_stream(cont + 1, &e, cont + 2, [1, 2, 1], &format!("/Root {} 0 R", cat), None, Split::Min, Filter::Flate);
    }
    d.buf
}

fn marker(p: &PageRc) -> i64 {
    match p.other.get("Marker") {
        Some(Primitive::Integer(m)) => *m as i64,
        _ => -1,
    }
}

fn observe_page(p: &PageRc) -> Value {
    let m = match guarded(|| p.media_box()) {
        // node i carries /MediaBox [3 7 100+i 200+i]: all four numbers must be those of one node
        Outcome::Done(Ok(r)) => if r.left == 3.0 && r.bottom == 7.0 && r.top == r.right + 100.0 { json!(r.right as i64 - 100) } else { json!({"box": format!("{:?}", r)}) },
        Outcome::Done(Err(_)) => json!(0),      // no such attribute anywhere up the tree: an error value (the variant is the library's business)
        Outcome::Panic(pi) => panic_json(&pi),
    };
    let c = match guarded(|| p.crop_box()) {
        // /CropBox [1 2 50+i 60+i], or the media box it falls back to
        Outcome::Done(Ok(r)) => {
            let x = r.right as i64;
            let whole = if x >= 100 { r.left == 3.0 && r.bottom == 7.0 && r.top == r.right + 100.0 } else { r.left == 1.0 && r.bottom == 2.0 && r.top == r.right + 10.0 };
            if !whole { json!({"box": format!("{:?}", r)}) } else if x >= 100 { json!(100 + (x - 100)) } else { json!(x - 50) }
        }
        Outcome::Done(Err(_)) => json!(0),      // no such attribute anywhere up the tree: an error value (the variant is the library's business)
        Outcome::Panic(pi) => panic_json(&pi),
    };
    let r = match guarded(|| p.resources().map(|r: &MaybeRef<Resources>| {
        let keys: Vec<String> = r.graphics_states.keys().map(|k| k.as_str().to_string()).collect();
        keys
    })) {
        Outcome::Done(Ok(keys)) => {
            if keys.len() == 1 && keys[0].starts_with("GS") { json!(keys[0][2..].parse::<i64>().unwrap_or(-1)) } else { json!({"keys": keys}) }
        }
        Outcome::Done(Err(_)) => json!(0),      // no such attribute anywhere up the tree: an error value (the variant is the library's business)
        Outcome::Panic(pi) => panic_json(&pi),
    };
    json!({"leaf": marker(p), "m": m, "c": c, "r": r})
}

pub fn run(cases_path: &str, report_path: &str, opts: &[String]) {
    let cases = read_cases(cases_path);
    let all = opts.iter().any(|o| o == "--all-variants");
    let mut rep = Report::default();
    for (ci, case) in cases.iter().enumerate() {
        rep.cases += 1;
        let ideal = case["ideal"].as_array().unwrap();
        let count = ideal.len() as u32 - 3;
        if count >= 2 {
            rep.nontrivial += 1;
        }
        let variants: Vec<(usize, bool)> = if all { vec![(0, true), (0, false), (1, true), (1, false)] } else { vec![(ci % 2, ci % 4 < 2)] };
        for (layout, cached) in variants {
            let bytes = build(case, layout);
            let mut fail = |rep: &mut Report, class: String, extra: Value| {
                let mut d = json!({"case_index": ci, "case": case, "layout": layout, "cached": cached});
                for (k, v) in extra.as_object().unwrap() { d[k] = v.clone(); }
                rep.fail(&class, d);
            };
            macro_rules! with_file { ($f:ident, $body:block) => {
                if cached {
                    match guarded(|| FileOptions::cached().load(bytes.clone())) {
                        Outcome::Done(Ok($f)) => $body,
                        Outcome::Done(Err(e)) => fail(&mut rep, "load".into(), json!({"observed": err_json(&e)})),
                        Outcome::Panic(p) => fail(&mut rep, format!("load:panic:{}", p.sym), json!({"observed": panic_json(&p)})),
                    }
                } else {
                    match guarded(|| FileOptions::uncached().parse_options(ParseOptions::tolerant()).load(bytes.clone())) {
                        Outcome::Done(Ok($f)) => $body,
                        Outcome::Done(Err(e)) => fail(&mut rep, "load".into(), json!({"observed": err_json(&e)})),
                        Outcome::Panic(p) => fail(&mut rep, format!("load:panic:{}", p.sym), json!({"observed": panic_json(&p)})),
                    }
                }
            }}
            with_file!(f, {
                rep.execs += 1;
                if f.num_pages() != count {
                    fail(&mut rep, "num_pages".into(), json!({"expected": count, "observed": f.num_pages()}));
                }
                for (j, want) in ideal.iter().enumerate() {
                    rep.execs += 1;
                    let obs = match guarded(|| f.get_page(j as u32)) {
                        Outcome::Done(Ok(p)) => observe_page(&p),
                        // an index at or beyond the count: an error (which variant is the library's business)
                        Outcome::Done(Err(_)) => json!({"leaf": 0, "m": 0, "c": 0, "r": 0}),
                        Outcome::Panic(p) => panic_json(&p),
                    };
                    if obs != *want {
                        let asb = case["mech"].get(j).map(|m| *m == obs).unwrap_or(false);
                        let what = if obs.get("leaf").is_none() { "outcome" } else if obs["leaf"] != want["leaf"] { "leaf" } else { "attr" };
                        fail(&mut rep, format!("page:{}", what), json!({"index": j, "expected": want, "observed": obs, "matches_asbuilt": asb}));
                    }
                }
                // pages() must enumerate the leaves in document order
                let seq: Vec<Value> = f.pages().map(|p| match p { Ok(p) => json!(marker(&p)), Err(e) => err_json(&e) }).collect();
                let want_seq: Vec<Value> = ideal.iter().take(count as usize).map(|w| w["leaf"].clone()).collect();
                if seq != want_seq {
                    fail(&mut rep, "pages_iter".into(), json!({"expected": want_seq, "observed": seq}));
                }
            });
        }
        if ci < 2 {
            rep.sample(json!({"case": case}));
        }
    }
    rep.write(report_path);
}
