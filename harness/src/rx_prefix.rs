//! C17 – differential: a file and the same file behind h junk bytes must read identically
//! (every object, stream data, pages, trailer, recovery scan). Header positions and file kinds come
//! from spec/FileLayout.tla; corpus files are swept with the same header positions.

use crate::mkpdf::*;
use crate::observe::*;
use crate::report::*;
use rand::{Rng, SeedableRng};
use serde_json::{json, Value};

/// generated files exercising every consumer of a file offset
pub fn generated(kind: &str) -> Vec<u8> {
    let mut d = Doc::new(b"");
    let mut e: Vec<(u64, XEntry)> = vec![(0, XEntry::Free { next: 0, gen: 65535 })];
    let o = d.obj(1, 0, &catalog_body(2));
    e.push((1, XEntry::InUse { off: o, gen: 0 }));
    let o = d.obj(2, 0, b"<< /Type /Pages /Kids [3 0 R] /Count 1 >>");
    e.push((2, XEntry::InUse { off: o, gen: 0 }));
    let o = d.obj(3, 0, b"<< /Type /Page /Parent 2 0 R /MediaBox [0 0 10 10] /Contents 4 0 R >>");
    e.push((3, XEntry::InUse { off: o, gen: 0 }));
    let o = d.stream(4, 0, "", b"0 0 m 5 5 l S", None, false);
    e.push((4, XEntry::InUse { off: o, gen: 0 }));
    let o = d.stream(5, 0, "/Filter /FlateDecode", &zlib(b"some compressed stream data"), Some("6 0 R"), true);
    e.push((5, XEntry::InUse { off: o, gen: 0 }));
    let zl = zlib(b"some compressed stream data").len();
    let o = d.obj(6, 0, format!("{}", zl).as_bytes());
    e.push((6, XEntry::InUse { off: o, gen: 0 }));
    match kind {
        "classic" => { d.xref_table(&e, 7, "/Root 1 0 R", None, Split::Min); }
        "xrefstm" => { d.xref_stream(7, &e, 8, [1, 2, 1], "/Root 1 0 R", None, Split::Min, Filter::Flate); }
        "prev2" => {
            let p = d.xref_table(&e, 7, "/Root 1 0 R", None, Split::Min);
            let o = d.obj(7, 0, b"<< /New (object) >>");
            let o2 = d.obj(6, 0, format!("{}", zl).as_bytes());
            d.xref_stream(8, &[(7, XEntry::InUse { off: o, gen: 0 }), (6, XEntry::InUse { off: o2, gen: 0 })], 9, [1, 3, 1], "/Root 1 0 R", Some(p), Split::Max, Filter::None);
        }
        "objstm" => {
            let o = d.objstm(7, &[(8, b"<< /In (objstm) >>".to_vec()), (9, b"[1 2 3]".to_vec())], Filter::Flate, " ", b"\n", true, "");
            e.push((7, XEntry::InUse { off: o, gen: 0 }));
            e.push((8, XEntry::Compressed { container: 7, idx: 0 }));
            e.push((9, XEntry::Compressed { container: 7, idx: 1 }));
            d.xref_stream(10, &e, 11, [1, 2, 1], "/Root 1 0 R", None, Split::Min, Filter::None);
        }
        k => panic!("kind {}", k),
    }
    d.buf
}

fn prefix(h: usize, rng: &mut impl Rng, style: usize) -> Vec<u8> {
    (0..h).map(|i| {
        let b: u8 = match style % 3 { 0 => rng.gen(), 1 => b"junk line\r\n"[i % 11], _ => [0u8, 0xff, b'\n', b' '][i % 4] };
        if b == b'%' { b'#' } else { b }   // the prefix must not contain the header marker
    }).collect()
}

fn diff_keys(a: &Value, b: &Value) -> Vec<String> {
    let mut out = Vec::new();
    for k in ["load", "size", "root", "npages", "pages", "version"] {
        if a[k] != b[k] { out.push(k.to_string()); }
    }
    if a["objs"] != b["objs"] {
        let (x, y) = (a["objs"].as_array(), b["objs"].as_array());
        match (x, y) {
            (Some(x), Some(y)) if x.len() == y.len() => {
                for i in 0..x.len() { if x[i] != y[i] { out.push(format!("obj{}:{}", i, if x[i]["data"] != y[i]["data"] { "data" } else { "value" })); break; } }
            }
            _ => out.push("objs".into()),
        }
    }
    if a["scan"] != b["scan"] { out.push("scan".into()); }
    out
}

pub fn run(cases_path: &str, report_path: &str, opts: &[String]) {
    let cases = read_cases(cases_path);
    let seed: u64 = opts.iter().find_map(|o| o.strip_prefix("--seed=")).and_then(|s| s.parse().ok()).unwrap_or(1);
    let mut rng = rand::rngs::StdRng::seed_from_u64(seed);
    let mut rep = Report::default();
    let mut base_cache: std::collections::HashMap<String, (Vec<u8>, Value)> = std::collections::HashMap::new();
    let mut upd_cache: std::collections::HashMap<String, (Value, Option<Vec<u8>>)> = std::collections::HashMap::new();
    for (ci, case) in cases.iter().enumerate() {
        rep.cases += 1;
        let h = case["h"].as_u64().unwrap() as usize;
        let kind = case["kind"].as_str().unwrap().to_string();
        let pw: Vec<u8> = case["password"].as_str().unwrap_or("").as_bytes().to_vec();
        if h > 0 { rep.nontrivial += 1; }
        let (bytes, base) = base_cache.entry(kind.clone()).or_insert_with(|| {
            let b = if let Some(path) = kind.strip_prefix("file:") { std::fs::read(path).expect("corpus file") } else { generated(&kind) };
            let s = snapshot(&b, &pw, true);
            (b, s)
        }).clone();
        if base["load"] != "ok" && !kind.starts_with("file:") {
            rep.fail("generated-base-unreadable", json!({"case": case, "observed": base["load"]}));
            continue;
        }
        rep.execs += 1;
        // the property only speaks about prefixes that keep the header within the first kilobyte
        let base_hdr = bytes.windows(5).position(|w| w == b"%PDF-").unwrap_or(0);
        let in_domain = base_hdr + h <= 1019;
        let mut pre = prefix(h, &mut rng, ci);
        // the bytes before the header may end with a proper prefix of the marker itself ("progress: 100%", "%PD")
        let tail = case["tail"].as_str().unwrap_or("plain");
        if tail != "plain" && pre.len() >= tail.len() {
            let n = pre.len();
            pre[n - tail.len()..].copy_from_slice(tail.as_bytes());
        }
        pre.extend_from_slice(&bytes);
        let got = snapshot(&pre, &pw, true);
        let d = diff_keys(&base, &got);
        if !in_domain {
            if format!("{}", got).contains("\"k\":\"panic\"") {
                rep.fail("prefix:beyond-1k:panic", json!({"case_index": ci, "case": case, "prefixed": summarize(&got)}));
            }
            rep.count("header-beyond-first-kilobyte");
        } else if !d.is_empty() {
            let what = d[0].split(':').next().unwrap().trim_start_matches(|c: char| c.is_ascii_digit()).to_string();
            let what = if what.starts_with("obj") { format!("obj:{}", d[0].split(':').nth(1).unwrap_or("")) } else { what };
            let panic = format!("{}", got).contains("\"k\":\"panic\"");
            let class = format!("prefix:{}{}", what, if panic { ":panic" } else { "" });
            rep.fail(&class, json!({"case_index": ci, "case": case, "differs": d, "unprefixed": summarize(&base), "prefixed": summarize(&got)}));
        }
        // offsets are relative to the header on the way out as well: the same update saved by the document opened behind the
        // prefix reads like the one saved by the plain document - in the open document after the save and after a reload
        // (the revision's own cross-reference stream included, every number below /Size is read)
        if in_domain && base["load"] == "ok" && d.is_empty() && (h % 3 == 1 || !kind.starts_with("file:")) {
            let tmp = format!("{}.save.tmp", report_path);
            let (plain_upd, _) = upd_cache.entry(kind.clone()).or_insert_with(|| updated(&bytes, &pw, &tmp)).clone();
            let (pre_upd, saved) = updated(&pre, &pw, &tmp);
            let _ = std::fs::remove_file(&tmp);
            let d2 = diff_keys(&plain_upd, &pre_upd);
            let mut d3: Vec<String> = Vec::new();
            if let Some(sv) = &saved {
                if !sv.starts_with(&pre) { d3.push("saved file does not start with the loaded bytes".into()); }
            }
            if !d2.is_empty() || !d3.is_empty() {
                let first = d2.first().or(d3.first()).unwrap();
                let what = first.split(':').next().unwrap().trim_start_matches(|c: char| c.is_ascii_digit()).to_string();
                let what = if what.starts_with("obj") { format!("obj:{}", first.split(':').nth(1).unwrap_or("")) } else { what };
                rep.fail(&format!("prefix:update:{}", what), json!({"case_index": ci, "case": case, "differs": d2, "other": d3}));
            }
            rep.count("update-saved-behind-prefix");
        }
        if ci < 2 {
            rep.sample(json!({"case": case, "observation": summarize(&got)}));
        }
    }
    rep.write(report_path);
}

/// one object added to the document and the document saved: what the open document reads afterwards for every number below
/// /Size, and what a fresh load of the saved bytes reads (flattened into one observation with the keys of `snapshot`)
fn updated(bytes: &[u8], pw: &[u8], tmp: &str) -> (Value, Option<Vec<u8>>) {
    use pdf::file::FileOptions;
    use pdf::object::{PlainRef, Resolve, Updater};
    use pdf::primitive::{Dictionary, Primitive};
    let mut f = match guarded(|| FileOptions::cached().password(pw).load(bytes.to_vec())) {
        Outcome::Done(Ok(f)) => f,
        Outcome::Done(Err(e)) => return (json!({"load": err_json(&e)}), None),
        Outcome::Panic(p) => return (json!({"load": panic_json(&p)}), None),
    };
    let mut dict = Dictionary::new();
    dict.insert("AddedByUpdate", Primitive::Integer(17));
    let created = match guarded(|| f.create(Primitive::Dictionary(dict))) {
        Outcome::Done(Ok(r)) => json!(r.get_ref().get_inner().id),
        Outcome::Done(Err(e)) => err_json(&e),
        Outcome::Panic(p) => panic_json(&p),
    };
    let saved = match guarded(|| f.save_to(tmp).map(|_| ())) {
        Outcome::Done(Ok(())) => json!("ok"),
        Outcome::Done(Err(e)) => err_json(&e),
        Outcome::Panic(p) => return (json!({"load": "ok", "created": created, "size": panic_json(&p)}), None),
    };
    let r = f.resolver();
    let top = (f.trailer.size.max(0) as u64).min(5000) + 2;
    let mut open = Vec::new();
    for id in 0..top {
        open.push(match guarded(|| r.resolve(PlainRef { id, gen: 0 })) {
            Outcome::Done(Ok(Primitive::Stream(s))) => json!({"k": "ok", "p": prim_json(&Primitive::Stream(s))}),
            other => outcome_prim(other),
        });
    }
    let bytes2 = if saved == "ok" { std::fs::read(tmp).ok() } else { None };
    let re = match &bytes2 { Some(b) => snapshot(b, pw, true), None => json!({"load": "not saved"}) };
    (json!({"load": re["load"], "size": re["size"], "root": re["root"], "objs": re["objs"], "npages": re["npages"], "pages": re["pages"], "scan": re["scan"],
            "version": json!({"created": created, "saved": saved, "open": open})}), bytes2)
}

fn summarize(v: &Value) -> Value {
    json!({"load": v["load"], "size": v["size"], "npages": v["npages"], "n_objs": v["objs"].as_array().map(|a| a.len()), "scan_items": v["scan"].as_array().map(|a| a.len()),
           "scan_tail": v["scan"].as_array().and_then(|a| a.last().cloned())})
}
