//! Engine C: baton scheduler. Real threads are driven through exactly the interleaving a TLC
//! behaviour prescribes: one scheduler step = run thread t from its current yield point to its
//! next one (the cfg-guarded hooks `guard?`, `cache?`, `exit?` in StorageResolver::get, and
//! `publish?` / "blocked" inside the instrumented cache below).

use pdf::file::Cache;
use pdf::object::PlainRef;
use std::cell::Cell;
use std::collections::HashMap;
use std::sync::atomic::{AtomicBool, AtomicU64, Ordering};

/// how long the controller waits for a granted thread to reach its next yield point
pub static STEP_TIMEOUT_MS: AtomicU64 = AtomicU64::new(20_000);
/// exit the process as soon as a hang is observed (threads stuck in a real condvar cannot be joined)
pub static EXIT_ON_HANG: AtomicBool = AtomicBool::new(false);
use std::sync::mpsc::{channel, Receiver, Sender};
use std::sync::{Arc, Condvar, Mutex};
use std::time::Duration;

#[derive(Debug, Clone)]
pub enum Event {
    Yield { t: usize, site: &'static str, key: u64 },
    Blocked { t: usize, key: u64 },
    Finished { t: usize, results: Vec<String> },
}

pub struct Sched {
    tx: Mutex<Sender<Event>>,
    go: Vec<(Mutex<u32>, Condvar)>,
    pub log: Mutex<Vec<(usize, &'static str, u64)>>,
    pub abort: AtomicBool,
}

thread_local! {
    static TIDX: Cell<Option<usize>> = Cell::new(None);
}
static CURRENT: Mutex<Option<Arc<Sched>>> = Mutex::new(None);

fn current() -> Option<(usize, Arc<Sched>)> {
    let t = TIDX.with(|c| c.get())?;
    let s = CURRENT.lock().unwrap().clone()?;
    Some((t, s))
}

impl Sched {
    fn park(&self, t: usize, ev: Event) {
        if self.abort.load(Ordering::SeqCst) {
            return;
        }
        self.tx.lock().unwrap().send(ev).ok();
        let (m, cv) = &self.go[t];
        let mut g = m.lock().unwrap();
        while *g == 0 {
            g = cv.wait(g).unwrap();
        }
        *g -= 1;
    }
    pub fn grant(&self, t: usize) {
        let (m, cv) = &self.go[t];
        *m.lock().unwrap() += 1;
        cv.notify_all();
    }
}

// ------------------------------------------------------------------------------------------------
// Engine B: free-running threads, events recorded for validation against spec/ResolverTrace.tla.
// Log points are called inside the lock that orders them (chain mutex, cache mutex); the recorder's own
// mutex gives one total order that respects each of those locks and every thread's program order.
pub static TRACE_ON: AtomicBool = AtomicBool::new(false);
pub static TRACE: Mutex<Vec<(usize, String, u64)>> = Mutex::new(Vec::new());
pub fn set_thread_index(t: Option<usize>) { TIDX.with(|c| c.set(t)); }
pub fn trace_event(site: &str, key: u64) {
    if let Some(t) = TIDX.with(|c| c.get()) {
        TRACE.lock().unwrap().push((t, site.to_string(), key));
    }
}
thread_local! { static RNG: Cell<u64> = Cell::new(0x9e3779b97f4a7c15); }
pub fn seed_thread_rng(s: u64) { RNG.with(|c| c.set(s | 1)); }
fn perturb() {
    let r = RNG.with(|c| { let mut x = c.get(); x ^= x << 13; x ^= x >> 7; x ^= x << 17; c.set(x); x });
    match r % 8 { 0 | 1 | 2 => std::thread::yield_now(), 3 => std::thread::sleep(Duration::from_micros(r % 40)), _ => {} }
}

pub trait IsOk { fn is_ok_value(&self) -> bool; }
impl<A, B> IsOk for Result<A, B> { fn is_ok_value(&self) -> bool { self.is_ok() } }

/// compute-once cache with the protocol of SyncCache (in-process marker, condvar), every transition logged
pub struct TCache<T> { inner: Mutex<HashMap<PlainRef, Option<T>>>, cv: Condvar, pub deadlocked: AtomicBool }
pub struct TCacheRef<T>(pub Arc<TCache<T>>);
impl<T> TCache<T> {
    pub fn new() -> TCacheRef<T> { TCacheRef(Arc::new(TCache { inner: Mutex::new(HashMap::new()), cv: Condvar::new(), deadlocked: AtomicBool::new(false) })) }
}
impl<T: Clone + IsOk> Cache<T> for TCacheRef<T> {
    fn get_or_compute(&self, key: PlainRef, compute: impl FnOnce() -> T) -> T {
        let c = &self.0;
        let mut g = c.inner.lock().unwrap();
        let mut waited = false;
        loop {
            match g.get(&key) {
                Some(Some(v)) => {
                    let ok = v.is_ok_value();
                    trace_event(match (waited, ok) { (false, true) => "c_hit_ok", (false, false) => "c_hit_err", (true, true) => "c_wake_ok", (true, false) => "c_wake_err" }, key.id);
                    return v.clone();
                }
                Some(None) => {
                    if !waited { trace_event("c_block", key.id); waited = true; }
                    let (g2, to) = c.cv.wait_timeout(g, Duration::from_millis(15000)).unwrap();
                    g = g2;
                    if to.timed_out() && matches!(g.get(&key), Some(None)) {
                        c.deadlocked.store(true, Ordering::SeqCst);
                        drop(g);
                        std::panic::resume_unwind(Box::new(Aborted));
                    }
                }
                None => {
                    g.insert(key, None);
                    trace_event("c_mark", key.id);
                    drop(g);
                    perturb();
                    let v = compute();
                    perturb();
                    let mut g = c.inner.lock().unwrap();
                    trace_event(if v.is_ok_value() { "c_publish_ok" } else { "c_publish_err" }, key.id);
                    g.insert(key, Some(v.clone()));
                    c.cv.notify_all();
                    return v;
                }
            }
        }
    }
    fn clear(&self) { self.0.inner.lock().unwrap().clear(); }
}
/// the cache-less configuration, with its (trivial) step logged
pub struct TNoCache;
impl<T: Clone> Cache<T> for TNoCache {
    fn get_or_compute(&self, key: PlainRef, compute: impl FnOnce() -> T) -> T {
        if TRACE_ON.load(Ordering::SeqCst) { trace_event("c_skip", key.id); }
        compute()
    }
    fn clear(&self) {}
}

/// the process-wide handler installed into pdf::verif
pub fn hook(site: &'static str, key: u64) {
    if TRACE_ON.load(Ordering::SeqCst) {
        if site.ends_with('?') { perturb(); } else { trace_event(site, key); }
        return;
    }
    if let Some((t, s)) = current() {
        if site.ends_with('?') {
            s.park(t, Event::Yield { t, site, key });
        } else {
            s.log.lock().unwrap().push((t, site, key));
        }
    }
}

pub fn install() {
    pdf::verif::set_hook(hook);
}

/// same protocol as globalcache::sync::SyncCache::get (in-process marker, waiters re-check after the
/// value is published), with the waiting made visible to the scheduler
pub struct VCache<T> {
    inner: Mutex<HashMap<PlainRef, Option<T>>>, // None = in process
}
pub struct VCacheRef<T>(pub Arc<VCache<T>>);
impl<T> VCache<T> {
    pub fn new() -> VCacheRef<T> {
        VCacheRef(Arc::new(VCache { inner: Mutex::new(HashMap::new()) }))
    }
}
pub struct Aborted;

impl<T: Clone> Cache<T> for VCacheRef<T> {
    fn get_or_compute(&self, key: PlainRef, compute: impl FnOnce() -> T) -> T {
        loop {
            let mut g = self.0.inner.lock().unwrap();
            match g.get(&key) {
                Some(Some(v)) => return v.clone(),
                Some(None) => {
                    drop(g);
                    match current() {
                        Some((t, s)) => {
                            if s.abort.load(Ordering::SeqCst) {
                                std::panic::resume_unwind(Box::new(Aborted));
                            }
                            s.park(t, Event::Blocked { t, key: key.id });
                        }
                        None => std::thread::sleep(Duration::from_micros(50)),
                    }
                }
                None => {
                    g.insert(key, None);
                    drop(g);
                    let v = compute();
                    hook("publish?", key.id);
                    self.0.inner.lock().unwrap().insert(key, Some(v.clone()));
                    return v;
                }
            }
        }
    }
    fn clear(&self) {
        self.0.inner.lock().unwrap().clear();
    }
}

#[derive(Debug, Clone, PartialEq)]
pub enum TState {
    AtYield(&'static str, u64),
    Blocked(u64),
    Finished,
    Lost, // no event within the time limit
}

pub struct Outcome {
    pub results: Vec<Vec<String>>,
    pub end: String, // "done" | "deadlock" | "hang"
    pub drift: u32,
    pub steps: u32,
    pub log: Vec<(usize, &'static str, u64)>,
}

/// Run `bodies.len()` threads; thread t executes `bodies[t]` (a list of loads) via `load(t, key)`.
/// `schedule` is the sequence of thread indices (0-based) to step.
pub fn run_schedule<F>(nthreads: usize, loads: &[Vec<u64>], schedule: &[usize], load: F) -> Outcome
where
    F: Fn(usize, u64) -> String + Sync,
{
    let (tx, rx): (Sender<Event>, Receiver<Event>) = channel();
    let sched = Arc::new(Sched {
        tx: Mutex::new(tx),
        go: (0..nthreads).map(|_| (Mutex::new(0), Condvar::new())).collect(),
        log: Mutex::new(Vec::new()),
        abort: AtomicBool::new(false),
    });
    *CURRENT.lock().unwrap() = Some(sched.clone());
    let mut state: Vec<TState> = vec![TState::Lost; nthreads];
    let mut results: Vec<Vec<String>> = vec![Vec::new(); nthreads];
    let mut drift = 0u32;
    let mut steps = 0u32;
    let mut end = String::from("done");
    let load = &load;
    std::thread::scope(|scope| {
        for t in 0..nthreads {
            let s = sched.clone();
            let my = loads[t].clone();
            scope.spawn(move || {
                TIDX.with(|c| c.set(Some(t)));
                s.park(t, Event::Yield { t, site: "start?", key: 0 });
                let r = std::panic::catch_unwind(std::panic::AssertUnwindSafe(|| {
                    let mut out = Vec::new();
                    for k in my {
                        out.push(load(t, k));
                    }
                    out
                }));
                let res = match r {
                    Ok(v) => v,
                    Err(e) => {
                        if e.downcast_ref::<Aborted>().is_some() { vec!["aborted".to_string()] } else { vec!["panic".to_string()] }
                    }
                };
                TIDX.with(|c| c.set(None));
                s.tx.lock().unwrap().send(Event::Finished { t, results: res }).ok();
            });
        }
        // wait for an event of thread t (events of other threads cannot occur: only t was granted)
        let mut wait = |state: &mut Vec<TState>, results: &mut Vec<Vec<String>>, t: usize| {
            match rx.recv_timeout(Duration::from_millis(STEP_TIMEOUT_MS.load(Ordering::SeqCst))) {
                Ok(Event::Yield { t: u, site, key }) => state[u] = TState::AtYield(site, key),
                Ok(Event::Blocked { t: u, key }) => state[u] = TState::Blocked(key),
                Ok(Event::Finished { t: u, results: r }) => {
                    state[u] = TState::Finished;
                    results[u] = r;
                }
                Err(_) => state[t] = TState::Lost,
            }
        };
        // all threads arrive at start?
        for t in 0..nthreads {
            wait(&mut state, &mut results, t);
        }
        // pre-roll: from start? to the first guard? (or straight to the end for an empty workload)
        for t in 0..nthreads {
            sched.grant(t);
            wait(&mut state, &mut results, t);
        }
        for &t in schedule {
            match state[t] {
                TState::Finished | TState::Lost => {
                    drift += 1;
                    continue;
                }
                _ => {}
            }
            let before = state[t].clone();
            sched.grant(t);
            wait(&mut state, &mut results, t);
            steps += 1;
            if let (TState::Blocked(a), TState::Blocked(b)) = (&before, &state[t]) {
                if a == b {
                    drift += 1; // the model expected this thread to be runnable
                }
            }
            if state[t] == TState::Lost {
                end = "hang".into();
                if EXIT_ON_HANG.load(Ordering::SeqCst) {
                    println!("PROBE end=hang after_steps={} thread={}", steps, t + 1);
                    std::process::exit(0);
                }
                break;
            }
        }
        // the schedule is exhausted: drive whatever is left to completion
        if end != "hang" {
            let mut fuel = 10_000;
            loop {
                if state.iter().all(|s| *s == TState::Finished) {
                    break;
                }
                let mut progressed = false;
                for t in 0..nthreads {
                    match state[t].clone() {
                        TState::Finished | TState::Lost => {}
                        st => {
                            sched.grant(t);
                            wait(&mut state, &mut results, t);
                            if state[t] != st {
                                progressed = true;
                            }
                        }
                    }
                }
                fuel -= 1;
                if state.iter().any(|s| *s == TState::Lost) {
                    end = "hang".into();
                    break;
                }
                if !progressed || fuel == 0 {
                    // every unfinished thread is blocked inside the cache and a grant does not help
                    end = "deadlock".into();
                    break;
                }
            }
        }
        // release everything that is still parked so that the scope can end
        if end != "done" {
            sched.abort.store(true, Ordering::SeqCst);
            for _ in 0..64 {
                for t in 0..nthreads {
                    if state[t] != TState::Finished {
                        sched.grant(t);
                    }
                }
                while let Ok(ev) = rx.recv_timeout(Duration::from_millis(20)) {
                    if let Event::Finished { t, .. } = ev {
                        state[t] = TState::Finished;
                    }
                }
                if state.iter().all(|s| *s == TState::Finished) {
                    break;
                }
            }
        }
    });
    *CURRENT.lock().unwrap() = None;
    let log = sched.log.lock().unwrap().clone();
    Outcome { results, end, drift, steps, log }
}
