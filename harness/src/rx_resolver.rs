//! C13 – Engine C: schedules emitted by TLC (spec/Resolver.tla) are replayed on real threads that
//! load objects of one open document through StorageResolver::get; the per-call results must be
//! those of a lone thread (spec: SeqAnswer), with no panic, deadlock or hang.

use crate::mkpdf::*;
use crate::observe::*;
use crate::report::*;
use crate::sched::{self, VCache};
use pdf::file::{FileOptions, NoCache};
use pdf::object::{PagesNode, Ref, Resolve};
use serde_json::{json, Value};

/// document realising `deps`: object k is a /Pages node whose /Parent is its (single) eager typed dependency; a dependency
/// on a *direct* key g is an ExtGState given by reference in the node's resources (`/Resources << /ExtGState << /G g 0 R >> >>`):
/// decoded in place, after the parent, through Resolve::with_loading
pub fn build(deps: &[Vec<u64>]) -> Vec<u8> { build_direct(deps, &[]) }
pub fn direct_of(case: &Value) -> Vec<bool> {
    case["direct"].as_array().map(|a| a.iter().map(|x| x.as_bool().unwrap_or(false)).collect()).unwrap_or_default()
}
pub fn build_direct(deps: &[Vec<u64>], direct: &[bool]) -> Vec<u8> {
    let n = deps.len() as u64;
    let is_direct = |k: u64| direct.get(k as usize - 1).copied().unwrap_or(false);
    let mut d = Doc::new(b"");
    let mut e: Vec<(u64, XEntry)> = vec![(0, XEntry::Free { next: 0, gen: 65535 })];
    for (i, ds) in deps.iter().enumerate() {
        let k = i as u64 + 1;
        if is_direct(k) {
            assert!(ds.is_empty(), "direct keys are leaves");
            let o = d.obj(k, 0, b"<< /Type /ExtGState /LW 1 >>");
            e.push((k, XEntry::InUse { off: o, gen: 0 }));
            continue;
        }
        let typed: Vec<u64> = ds.iter().copied().filter(|&x| !is_direct(x)).collect();
        let dir: Vec<u64> = ds.iter().copied().filter(|&x| is_direct(x)).collect();
        assert!(typed.len() <= 1 && dir.len() <= 1, "only graphs with at most one typed and one direct dependency per key are realisable");
        assert!(dir.is_empty() || ds.last() == dir.first(), "the direct dependency is decoded after the parent");
        let parent = typed.first().map(|p| format!(" /Parent {} 0 R", p)).unwrap_or_default();
        let res = dir.first().map(|g| format!(" /Resources << /ExtGState << /G {} 0 R >> >>", g)).unwrap_or_default();
        let o = d.obj(k, 0, format!("<< /Type /Pages /Kids [] /Count 0{}{} >>", parent, res).as_bytes());
        e.push((k, XEntry::InUse { off: o, gen: 0 }));
    }
    let o = d.obj(n + 1, 0, &catalog_body(n + 2));
    e.push((n + 1, XEntry::InUse { off: o, gen: 0 }));
    let o = d.obj(n + 2, 0, &empty_pages_body());
    e.push((n + 2, XEntry::InUse { off: o, gen: 0 }));
    d.xref_table(&e, n + 3, &format!("/Root {} 0 R", n + 1), None, Split::Min);
    d.buf
}

fn answer<T>(r: pdf::error::Result<T>) -> String {
    match r {
        Ok(_) => "ok".into(),
        Err(e) => format!("err:{}", err_kind(&e)),
    }
}

fn ideal_str(v: &Value) -> &'static str {
    if v == "ok" { "ok" } else { "err" }
}
/// the specification distinguishes a value from an error; which error variant the library uses is not part of the property
fn coarse(a: &str) -> &str { if a.starts_with("err") { "err" } else { a } }

fn seq_answer(bytes: &[u8], key: u64) -> String {
    match guarded(|| {
        let f = FileOptions::uncached().load(bytes.to_vec())?;
        let r = f.resolver();
        let x = r.get::<PagesNode>(Ref::from_id(key));
        Ok::<_, pdf::error::PdfError>(answer(x))
    }) {
        Outcome::Done(Ok(a)) => a,
        Outcome::Done(Err(e)) => format!("loaderr:{}", err_kind(&e)),
        Outcome::Panic(p) => format!("panic:{}", p.sym),
    }
}

pub fn run(cases_path: &str, report_path: &str, _opts: &[String]) {
    // the model is checked with a bound of 2 on the repeated loads of one outermost load (spec/Resolver*.cfg MaxRepeats);
    // the library's own bound (2^16) is lowered to the same value through the verification hook
    pdf::verif::set_repeat_bound(2);
    sched::install();
    install_panic_hook();
    let cases = read_cases(cases_path);
    let mut rep = Report::default();
    let progress = format!("{}.progress", report_path);
    for (ci, case) in cases.iter().enumerate() {
        std::fs::write(&progress, format!("{}", ci)).ok();
        rep.cases += 1;
        let deps: Vec<Vec<u64>> = case["deps"].as_array().unwrap().iter().map(|d| d.as_array().unwrap().iter().map(|x| x.as_u64().unwrap()).collect()).collect();
        let loads: Vec<Vec<u64>> = case["loads"].as_array().unwrap().iter().map(|d| d.as_array().unwrap().iter().map(|x| x.as_u64().unwrap()).collect()).collect();
        let schedule: Vec<usize> = case["sched"].as_array().unwrap().iter().map(|x| x.as_u64().unwrap() as usize - 1).collect();
        let shared = case["shared"].as_bool().unwrap();
        let cache_on = case["cacheOn"].as_bool().unwrap();
        let nt = loads.len();
        let bytes = build_direct(&deps, &direct_of(case));
        let mut fail = |rep: &mut Report, class: String, extra: Value| {
            let mut d = json!({"case_index": ci, "case": case});
            for (k, v) in extra.as_object().unwrap() { d[k] = v.clone(); }
            rep.fail(&class, d);
        };
        // the spec's SeqAnswer must be what a lone thread really gets (binding of Deps to the document)
        for (t, ls) in loads.iter().enumerate() {
            for (j, k) in ls.iter().enumerate() {
                let lone = seq_answer(&bytes, *k);
                let want = ideal_str(&case["ideal"][t][j]);
                if coarse(&lone) != want {
                    fail(&mut rep, "lone-answer-differs-from-spec".into(), json!({"key": k, "spec": want, "lone": lone}));
                }
            }
        }
        if schedule.iter().collect::<std::collections::HashSet<_>>().len() >= 2 {
            rep.nontrivial += 1;
        }
        let out = if cache_on {
            let oc = VCache::new();
            match FileOptions::uncached().cache(oc, NoCache).load(bytes.clone()) {
                Ok(f) => {
                    if shared {
                        let r = f.resolver();
                        sched::run_schedule(nt, &loads, &schedule, |_t, k| answer(r.get::<PagesNode>(Ref::from_id(k))))
                    } else {
                        sched::run_schedule(nt, &loads, &schedule, |_t, k| { let r = f.resolver(); answer(r.get::<PagesNode>(Ref::from_id(k))) })
                    }
                }
                Err(e) => { fail(&mut rep, "load".into(), json!({"observed": err_json(&e)})); continue; }
            }
        } else {
            match FileOptions::uncached().load(bytes.clone()) {
                Ok(f) => {
                    if shared {
                        let r = f.resolver();
                        sched::run_schedule(nt, &loads, &schedule, |_t, k| answer(r.get::<PagesNode>(Ref::from_id(k))))
                    } else {
                        sched::run_schedule(nt, &loads, &schedule, |_t, k| { let r = f.resolver(); answer(r.get::<PagesNode>(Ref::from_id(k))) })
                    }
                }
                Err(e) => { fail(&mut rep, "load".into(), json!({"observed": err_json(&e)})); continue; }
            }
        };
        if ci < 2 {
            rep.sample(json!({"case": case, "observed": out.results, "end": out.end, "log": out.log.iter().take(40).map(|(t, s, k)| format!("{}:{}:{}", t + 1, s, k)).collect::<Vec<_>>()}));
        }
        rep.execs += out.steps as u64;
        rep.add("steps", out.steps as u64);
        rep.add("drift", out.drift as u64);
        let model_end = case["endst"].as_str().unwrap_or("done");
        let devs: Vec<&str> = case["dev"].as_array().map(|a| a.iter().filter_map(|x| x.as_str()).collect()).unwrap_or_default();
        if out.end != "done" {
            let dlprone = case["dlprone"].as_bool().unwrap_or(false);
            let asb = model_end == out.end || (out.end == "deadlock" && model_end == "running" && dlprone);
            let class = if asb { format!("asbuilt:{}", devs.join("+")) } else { out.end.clone() };
            fail(&mut rep, class, json!({"observed_end": out.end, "model_end": model_end, "matches_asbuilt": asb, "results": out.results}));
            continue;
        }
        if model_end != "done" && model_end != "running" {
            // the as-built model predicted a deadlock/panic that did not happen: drift, not a violation
            rep.count("model-end-not-reproduced");
        }
        for (t, ls) in loads.iter().enumerate() {
            for j in 0..ls.len() {
                let want = ideal_str(&case["ideal"][t][j]);
                let got = out.results[t].get(j).cloned().unwrap_or_else(|| "missing".into());
                if coarse(&got) != want {
                    let class = if got.starts_with("panic") { "panic".to_string() } else { "answer".to_string() };
                    fail(&mut rep, class, json!({"thread": t + 1, "load": j + 1, "key": ls[j], "expected": want, "observed": got, "results": out.results, "matches_asbuilt": false}));
                }
            }
        }
    }
    std::fs::remove_file(&progress).ok();
    rep.write(report_path);
}

/// the recorded C13 finding against the *real* globalcache SyncCache: the schedule of the TLC
/// counterexample (Resolver_w_cache_wait.cfg) on a document whose objects 1 and 2 eagerly load each other
pub fn synccache_probe() {
    sched::install();
    install_panic_hook();
    sched::STEP_TIMEOUT_MS.store(1500, std::sync::atomic::Ordering::SeqCst);
    sched::EXIT_ON_HANG.store(true, std::sync::atomic::Ordering::SeqCst);
    let bytes = build(&[vec![2], vec![1], vec![1]]);
    let f = FileOptions::cached().load(bytes).expect("load");
    let loads = vec![vec![1u64], vec![2u64]];
    // t1: guard,cache(mark 1, nested guard? 2) ; t2: guard,cache(mark 2, nested guard? 1) ; t1: guard(2),cache(2) -> waits
    let schedule = vec![0, 0, 1, 1, 0, 0, 1, 1];
    let out = sched::run_schedule(2, &loads, &schedule, |_t, k| { let r = f.resolver(); answer(r.get::<PagesNode>(Ref::from_id(k))) });
    println!("PROBE end={} results={:?}", out.end, out.results);
}
