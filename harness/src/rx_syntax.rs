//! C03 – every spec-conformant spelling parses to the value it denotes. Spellings (item sequences with
//! separators and a context) come from spec/Spelling.tla; the atom catalogue below gives the bytes of every
//! variant. Oracles: the value denoted by construction (via the independent reference parser on each atom) and
//! the reference parser on the whole text; checked: value, exact consumption, the follower parses next.

use crate::observe::*;
use crate::refparse::{Val, P};
use crate::report::*;
use pdf::object::NoResolve;
use pdf::parser::{parse, parse_indirect_object, parse_with_lexer, Lexer, ParseFlags};
use serde_json::{json, Value};

pub fn atom_text(kind: &str, var: usize) -> &'static [u8] {
    let t: &[&'static [u8]] = match kind {
        "int" => &[b"17", b"+17", b"-17", b"0017", b"-0", b"2147483647"],
        "real" => &[b"3.5", b"4.", b".5", b"-.5", b"+1.5", b"003.140", b"0.0", b"-3.14159"],
        "name" => &[b"/A", b"/", b"/A#20B", b"/#41", b"/A#23B", b"/a.b-c_d*", b"/A#2FB", b"/Name1"],
        "lit" => &[b"(abc)", b"()", b"(a\\(b\\)c)", b"(a(b)c)", b"(\\n\\r\\t\\b\\f)", b"(\\101\\7\\53x)", b"(\\400)", b"(a\\\nb)", b"(a\\\r\nb)", b"(a\nb)", b"(a\r\nb\rc)", b"(\\q\\\\)"],
        "hex" => &[b"<4142>", b"<41 42>", b"<414>", b"<>", b"< 4 1\n>", b"<4a4B>"],
        "bool" => &[b"true", b"false"],
        "null" => &[b"null"],
        "ref" => &[b"12 0 R", b"12  0\nR", b"0012 00 R"],
        "key" => &[b"/K1", b"/K#202"],
        "aopen" => &[b"["], "aclose" => &[b"]"], "dopen" => &[b"<<"], "dclose" => &[b">>"],
        k => panic!("kind {}", k),
    };
    t[var - 1]
}

pub fn sep_text(s: &str) -> &'static [u8] {
    match s {
        "none" => b"", "sp" => b" ", "tab" => b"\t", "lf" => b"\n", "cr" => b"\r", "crlf" => b"\r\n", "ff" => b"\x0c", "nul" => b"\x00",
        "comment-lf" => b"% a comment ( [ <<\n", "comment-cr" => b"%c\r", "two" => b"  \n",
        "comments2" => b"%one\r\n\n  % two\n", "comments3" => b"%\r%\n%%\r\n",
        s => panic!("sep {}", s),
    }
}

fn feature(kind: &str, var: usize) -> String {
    // one feature per construct, so that a finding is keyed to a construct
    let f = match (kind, var) {
        ("int", 2) | ("real", 5) => "plus-sign", ("int", 4) | ("real", 6) | ("ref", 3) => "leading-zeros", ("real", 2) => "real-trailing-dot", ("real", 3) | ("real", 4) => "real-leading-dot",
        ("name", 2) => "empty-name", ("name", 3..=5) | ("name", 7) => "name-hash", ("lit", 3) | ("lit", 4) => "string-parens", ("lit", 5) => "string-escapes",
        ("lit", 6) | ("lit", 7) => "string-octal", ("lit", 8) | ("lit", 9) => "string-line-continuation", ("lit", 10) => "string-raw-lf", ("lit", 11) => "string-raw-cr", ("lit", 12) => "string-unknown-escape",
        ("hex", 2) | ("hex", 5) => "hex-whitespace", ("hex", 3) => "hex-odd", ("ref", 2) => "ref-whitespace", ("key", 2) => "key-hash",
        _ => "plain",
    };
    format!("{}:{}", kind, f)
}

pub fn run(cases_path: &str, report_path: &str, _opts: &[String]) {
    let cases = read_cases(cases_path);
    let mut rep = Report::default();
    for (ci, case) in cases.iter().enumerate() {
        rep.cases += 1;
        rep.execs += 1;
        let items = case["items"].as_array().unwrap();
        let seps = case["seps"].as_array().unwrap();
        let ctx = case["ctx"].as_str().unwrap();
        let mut text: Vec<u8> = Vec::new();
        let mut feats: Vec<String> = Vec::new();
        for (i, it) in items.iter().enumerate() {
            let (k, v) = (it["kind"].as_str().unwrap(), it["var"].as_u64().unwrap() as usize);
            text.extend_from_slice(atom_text(k, v));
            let f = feature(k, v);
            if !f.ends_with(":plain") { feats.push(f); }
            if i + 1 < items.len() {
                let s = seps[i].as_str().unwrap();
                text.extend_from_slice(sep_text(s));
                if s != "sp" && s != "none" && s != "lf" { feats.push(format!("sep:{}", s)); }
            }
        }
        if case["shape"] == "stream" {
            // << /K1 v >> -> << /K1 v /Length n >> stream EOL data EOL endstream, parsed as an indirect object
            let data: &[u8] = b"stream data with endstream inside\r\n";
            let mut t = b"7 0 obj\n".to_vec();
            t.extend_from_slice(&text[..text.len() - 2]);
            t.extend_from_slice(format!(" /Length {} >>", data.len()).as_bytes());
            t.extend_from_slice(sep_text(seps[2].as_str().unwrap()));
            t.extend_from_slice(b"stream");
            t.extend_from_slice(sep_text(seps[3].as_str().unwrap()));
            t.extend_from_slice(data);
            t.extend_from_slice(b"\nendstream\nendobj\n");
            let r = guarded(|| { let mut lx = Lexer::new(&t); parse_indirect_object(&mut lx, &NoResolve, None, ParseFlags::ANY) });
            match r {
                Outcome::Done(Ok((_, pdf::primitive::Primitive::Stream(st)))) => {
                    let ok_len = st.info.get("Length") == Some(&pdf::primitive::Primitive::Integer(data.len() as i32));
                    // the data range must be exactly the bytes after the EOL that follows the keyword
                    let dbg = format!("{:?}", st);
                    let start = t.windows(data.len()).position(|w| w == data).unwrap();
                    if !ok_len || !dbg.contains(&format!("{}..{}", start, start + data.len())) {
                        rep.fail("stream:range", json!({"case_index": ci, "case": case, "text": String::from_utf8_lossy(&t), "observed": dbg, "expected_range": [start, start + data.len()]}));
                    }
                }
                Outcome::Done(Ok((_, p))) => rep.fail("stream:not-a-stream", json!({"case_index": ci, "case": case, "observed": prim_json(&p)})),
                Outcome::Done(Err(e)) => rep.fail("stream:rejected", json!({"case_index": ci, "case": case, "text": String::from_utf8_lossy(&t), "observed": err_json(&e)})),
                Outcome::Panic(p) => rep.fail("stream:panic", json!({"case_index": ci, "case": case, "observed": panic_json(&p)})),
            }
            continue;
        }
        let own_len = text.len();
        let last_sep = seps[items.len() - 1].as_str().unwrap();
        if items.len() > 1 || last_sep != "sp" { rep.nontrivial += 1; }
        // the value the spelling denotes, by the reference parser on the object's own text
        let want = match P::new(&text).value(0) {
            Ok(v) => v,
            Err(e) => { rep.notes.push(format!("TOOL: reference parser rejects a generated spelling {:?}: {:?}", String::from_utf8_lossy(&text), e)); continue; }
        };
        let mut full = text.clone();
        let follower: (&[u8], Option<Val>) = match ctx {
            "int" => (b"42", Some(Val::Int(42))), "name" => (b"/Next", Some(Val::Name(b"Next".to_vec()))),
            "endobj" => (b"endobj", None), "operator" => (b"Tj", None), _ => (b"", None),
        };
        full.extend_from_slice(sep_text(last_sep));
        full.extend_from_slice(follower.0);
        if last_sep != "sp" && last_sep != "none" && last_sep != "lf" { feats.push(format!("sep:{}", last_sep)); }
        feats.sort(); feats.dedup();
        let class_tail = if feats.is_empty() { "plain".to_string() } else { feats.join("+") };
        let fail = |rep: &mut Report, what: &str, extra: Value| {
            let mut d = json!({"case_index": ci, "case": case, "text": String::from_utf8_lossy(&full)});
            for (k, v) in extra.as_object().unwrap() { d[k] = v.clone(); }
            rep.fail(&format!("{}:{}", what, class_tail), d);
        };
        let want_json = want.to_json();
        let got = guarded(|| -> pdf::error::Result<(Value, usize, Option<Value>)> {
            match ctx {
                "eof" => { let p = parse(&full, &NoResolve, ParseFlags::ANY)?; Ok((prim_json(&p), own_len, None)) }
                "endobj" => {
                    let mut t = b"7 0 obj\n".to_vec(); t.extend_from_slice(&full);
                    let mut lx = Lexer::new(&t);
                    let (r, p) = parse_indirect_object(&mut lx, &NoResolve, None, ParseFlags::ANY)?;
                    if r.id != 7 { return Err(pdf::error::PdfError::Other { msg: "wrong id".into() }); }
                    Ok((prim_json(&p), own_len, None))
                }
                _ => {
                    let mut lx = Lexer::new(&full);
                    let p = parse_with_lexer(&mut lx, &NoResolve, ParseFlags::ANY)?;
                    let pos = lx.get_pos();
                    let next = if ctx == "operator" { let t = lx.next()?; json!(String::from_utf8_lossy(t.as_slice())) } else { prim_json(&parse_with_lexer(&mut lx, &NoResolve, ParseFlags::ANY)?) };
                    Ok((prim_json(&p), pos, Some(next)))
                }
            }
        });
        match got {
            Outcome::Done(Ok((v, pos, next))) => {
                if v != want_json {
                    fail(&mut rep, "value", json!({"expected": want_json, "observed": v}));
                } else if pos != own_len {
                    fail(&mut rep, "consumed", json!({"expected": own_len, "observed": pos}));
                } else if let Some(n) = next {
                    let want_next = match &follower.1 { Some(f) => f.to_json(), None => json!(String::from_utf8_lossy(follower.0)) };
                    if n != want_next { fail(&mut rep, "follower", json!({"expected": want_next, "observed": n})); }
                }
            }
            Outcome::Done(Err(e)) => fail(&mut rep, "rejected", json!({"expected": want_json, "observed": err_json(&e)})),
            Outcome::Panic(p) => fail(&mut rep, "panic", json!({"observed": panic_json(&p)})),
        }
        if ci % 20000 == 7 { rep.sample(json!({"case": case, "text": String::from_utf8_lossy(&full)})); }
    }
    rep.write(report_path);
}
