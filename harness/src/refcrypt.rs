//! Independent implementation of the standard security handler (encryption side), transcribed from
//! ISO 32000-1 §7.6 (Algorithms 1-5) and ISO 32000-2 §7.6.4 (Algorithms 1.A, 2.A, 2.B, 8, 9) on top of the
//! md5 / sha2 / aes / cbc primitive crates and an own RC4. Shares no code with pdf/src/crypt.rs.

use aes::cipher::{block_padding::{NoPadding, Pkcs7}, BlockEncryptMut, KeyIvInit};
use sha2::{Digest, Sha256, Sha384, Sha512};

const PAD: [u8; 32] = [0x28, 0xBF, 0x4E, 0x5E, 0x4E, 0x75, 0x8A, 0x41, 0x64, 0x00, 0x4E, 0x56, 0xFF, 0xFA, 0x01, 0x08,
                       0x2E, 0x2E, 0x00, 0xB6, 0xD0, 0x68, 0x3E, 0x80, 0x2F, 0x0C, 0xA9, 0xFE, 0x64, 0x53, 0x69, 0x7A];

pub fn rc4(key: &[u8], data: &[u8]) -> Vec<u8> {
    let mut s: Vec<u8> = (0..=255u8).collect();
    let mut j = 0usize;
    for i in 0..256 {
        j = (j + s[i] as usize + key[i % key.len()] as usize) % 256;
        s.swap(i, j);
    }
    let (mut i, mut j) = (0usize, 0usize);
    data.iter().map(|b| {
        i = (i + 1) % 256;
        j = (j + s[i] as usize) % 256;
        s.swap(i, j);
        b ^ s[(s[i] as usize + s[j] as usize) % 256]
    }).collect()
}

fn pad_pw(pw: &[u8]) -> Vec<u8> {
    let mut v = pw[..pw.len().min(32)].to_vec();
    v.extend_from_slice(&PAD[..32 - v.len()]);
    v
}

#[derive(Clone, Debug)]
pub struct Variant {
    pub name: &'static str,
    pub v: u32,
    pub r: u32,
    pub bits: u32,
    pub method: &'static str, // "RC4" | "AESV2" | "AESV3"
}
pub fn variant(name: &str) -> Variant {
    match name {
        "R2-RC4-40" => Variant { name: "R2-RC4-40", v: 1, r: 2, bits: 40, method: "RC4" },
        "R3-RC4-56" => Variant { name: "R3-RC4-56", v: 2, r: 3, bits: 56, method: "RC4" },
        "R3-RC4-128" => Variant { name: "R3-RC4-128", v: 2, r: 3, bits: 128, method: "RC4" },
        "R4-RC4-128" => Variant { name: "R4-RC4-128", v: 4, r: 4, bits: 128, method: "RC4" },
        "R4-AESV2" => Variant { name: "R4-AESV2", v: 4, r: 4, bits: 128, method: "AESV2" },
        "R5-AESV3" => Variant { name: "R5-AESV3", v: 5, r: 5, bits: 256, method: "AESV3" },
        "R6-AESV3" => Variant { name: "R6-AESV3", v: 5, r: 6, bits: 256, method: "AESV3" },
        n => panic!("variant {}", n),
    }
}

pub struct Handler {
    pub var: Variant,
    pub key: Vec<u8>,
    pub o: Vec<u8>,
    pub u: Vec<u8>,
    pub oe: Vec<u8>,
    pub ue: Vec<u8>,
    pub p: i32,
    pub encrypt_metadata: bool,
    /// spelling of the key length in the dictionary of a V 4 document: "plain" | "cf-length-bits" | "cf-no-length" | "no-length"
    pub dict_form: String,
    iv_counter: std::cell::Cell<u8>,
}

/// Algorithm 2.B
pub fn hash_2b(pw: &[u8], salt: &[u8], udata: &[u8]) -> [u8; 32] { hash_2b_trace(pw, salt, udata).0 }

/// Algorithm 2.B with the relation of each round's last ciphertext byte to (round - 32), from round 64 on
/// ("lt" | "eq" | "gt"; the run stops at the first "lt" or "eq")
pub fn hash_2b_trace(pw: &[u8], salt: &[u8], udata: &[u8]) -> ([u8; 32], Vec<&'static str>) {
    let mut trace = Vec::new();
    let mut k: Vec<u8> = Sha256::new().chain_update(pw).chain_update(salt).chain_update(udata).finalize().to_vec();
    let mut i = 0usize;
    loop {
        let mut k1 = Vec::new();
        for _ in 0..64 { k1.extend_from_slice(pw); k1.extend_from_slice(&k); k1.extend_from_slice(udata); }
        let len = k1.len();
        let e = cbc::Encryptor::<aes::Aes128>::new_from_slices(&k[..16], &k[16..32]).unwrap().encrypt_padded_mut::<NoPadding>(&mut k1, len).unwrap().to_vec();
        let m: u32 = e[..16].iter().map(|b| *b as u32).sum::<u32>() % 3;
        k = match m { 0 => Sha256::digest(&e).to_vec(), 1 => Sha384::digest(&e).to_vec(), _ => Sha512::digest(&e).to_vec() };
        i += 1;
        if i >= 64 {
            let last = *e.last().unwrap() as usize;
            trace.push(if last < i - 32 { "lt" } else if last == i - 32 { "eq" } else { "gt" });
            if last <= i - 32 { break; }
        }
    }
    let mut out = [0u8; 32];
    out.copy_from_slice(&k[..32]);
    (out, trace)
}

fn aes256_nopad(key: &[u8], data: &[u8]) -> Vec<u8> {
    let mut d = data.to_vec();
    let len = d.len();
    cbc::Encryptor::<aes::Aes256>::new_from_slices(key, &[0u8; 16]).unwrap().encrypt_padded_mut::<NoPadding>(&mut d, len).unwrap().to_vec()
}

impl Handler {
    pub fn new(var: Variant, user: &[u8], owner: &[u8], p: i32, id0: &[u8], encrypt_metadata: bool) -> Handler {
        let n = (var.bits / 8) as usize;
        if var.r <= 4 {
            // Algorithm 3: O
            let mut h = md5::compute(pad_pw(if owner.is_empty() { user } else { owner })).0.to_vec();
            if var.r >= 3 { for _ in 0..50 { h = md5::compute(&h).0.to_vec(); } }
            let okey = &h[..n];
            let mut o = rc4(okey, &pad_pw(user));
            if var.r >= 3 { for i in 1..=19u8 { let k: Vec<u8> = okey.iter().map(|b| b ^ i).collect(); o = rc4(&k, &o); } }
            // Algorithm 2: file key
            let mut ctx = md5::Context::new();
            ctx.consume(pad_pw(user)); ctx.consume(&o); ctx.consume((p as u32).to_le_bytes()); ctx.consume(id0);
            if var.r >= 4 && !encrypt_metadata { ctx.consume([0xff, 0xff, 0xff, 0xff]); }
            let mut k = ctx.compute().0.to_vec();
            if var.r >= 3 { for _ in 0..50 { k = md5::compute(&k[..n]).0.to_vec(); } }
            let key = k[..n].to_vec();
            // Algorithm 4 / 5: U
            let u = if var.r == 2 { rc4(&key, &PAD) } else {
                let mut ctx = md5::Context::new();
                ctx.consume(PAD); ctx.consume(id0);
                let mut x = rc4(&key, &ctx.compute().0);
                for i in 1..=19u8 { let kk: Vec<u8> = key.iter().map(|b| b ^ i).collect(); x = rc4(&kk, &x); }
                x.extend_from_slice(&[0u8; 16]);
                x
            };
            Handler { var, key, o, u, oe: vec![], ue: vec![], p, encrypt_metadata, dict_form: "plain".into(), iv_counter: Default::default() }
        } else {
            // Algorithms 8 and 9 (R6) and their SHA-256 predecessors (R5)
            let key: Vec<u8> = (0..32u8).map(|i| i.wrapping_mul(37).wrapping_add(11)).collect();
            let (uvs, uks, ovs, oks) = (b"uvalsalt", b"ukeysalt", b"ovalsalt", b"okeysalt");
            let hash = |pw: &[u8], salt: &[u8], ud: &[u8]| -> Vec<u8> {
                if var.r == 6 { hash_2b(pw, salt, ud).to_vec() } else { Sha256::new().chain_update(pw).chain_update(salt).chain_update(ud).finalize().to_vec() }
            };
            let mut u = hash(user, uvs, b"");
            u.extend_from_slice(uvs); u.extend_from_slice(uks);
            let ue = aes256_nopad(&hash(user, uks, b""), &key);
            let mut o = hash(owner, ovs, &u);
            o.extend_from_slice(ovs); o.extend_from_slice(oks);
            let oe = aes256_nopad(&hash(owner, oks, &u), &key);
            Handler { var, key, o, u, oe, ue, p, encrypt_metadata, dict_form: "plain".into(), iv_counter: Default::default() }
        }
    }

    fn iv(&self) -> [u8; 16] {
        let c = self.iv_counter.get().wrapping_add(1);
        self.iv_counter.set(c);
        let mut iv = [0u8; 16];
        for (i, b) in iv.iter_mut().enumerate() { *b = c.wrapping_mul(31).wrapping_add(i as u8 * 7); }
        iv
    }

    /// Algorithm 1 / 1.A: encrypt a string or stream of object (id, gen)
    pub fn encrypt(&self, id: u64, gen: u64, data: &[u8]) -> Vec<u8> {
        match self.var.method {
            "AESV3" => {
                let iv = self.iv();
                let mut buf = data.to_vec(); buf.resize(data.len() + 16, 0);
                let ct = cbc::Encryptor::<aes::Aes256>::new_from_slices(&self.key, &iv).unwrap().encrypt_padded_mut::<Pkcs7>(&mut buf, data.len()).unwrap().to_vec();
                [iv.to_vec(), ct].concat()
            }
            m => {
                let mut k = self.key.clone();
                k.extend_from_slice(&(id as u32).to_le_bytes()[..3]);
                k.extend_from_slice(&(gen as u32).to_le_bytes()[..2]);
                if m == "AESV2" { k.extend_from_slice(b"sAlT"); }
                let h = md5::compute(&k).0;
                let ok = &h[..(self.key.len() + 5).min(16)];
                if m == "AESV2" {
                    let iv = self.iv();
                    let mut buf = data.to_vec(); buf.resize(data.len() + 16, 0);
                    let ct = cbc::Encryptor::<aes::Aes128>::new_from_slices(ok, &iv).unwrap().encrypt_padded_mut::<Pkcs7>(&mut buf, data.len()).unwrap().to_vec();
                    [iv.to_vec(), ct].concat()
                } else {
                    rc4(ok, data)
                }
            }
        }
    }

    /// body of the /Encrypt dictionary
    pub fn dict(&self) -> String {
        let hex = |d: &[u8]| d.iter().map(|b| format!("{:02X}", b)).collect::<String>();
        let form = self.dict_form.as_str();
        let top_len = if form == "no-length" { String::new() } else { format!(" /Length {}", self.var.bits) };
        // "uo-padded": /U and /O padded with zero bytes to 127 bytes (only the first 48 count)
        let pad = |d: &[u8]| -> Vec<u8> { let mut v = d.to_vec(); if form == "uo-padded" { v.resize(127, 0); } v };
        let mut s = format!("<< /Filter /Standard /V {} /R {}{} /P {} /O <{}> /U <{}>", self.var.v, self.var.r, top_len, self.p, hex(&pad(&self.o)), hex(&pad(&self.u)));
        if self.var.v >= 4 {
            let cfm = match self.var.method { "RC4" => "V2", m => m };
            let cf_len = match form { "cf-length-bits" => format!(" /Length {}", self.var.bits), "cf-no-length" | "no-length" => String::new(), _ => format!(" /Length {}", self.var.bits / 8) };
            s += &format!(" /CF << /StdCF << /Type /CryptFilter /CFM /{} /AuthEvent /DocOpen{} >> >> /StmF /StdCF /StrF {}", cfm, cf_len, if form == "strf-identity" { "/Identity" } else { "/StdCF" });
        }
        if self.var.r >= 5 { s += &format!(" /OE <{}> /UE <{}> /Perms <{}>", hex(&self.oe), hex(&self.ue), hex(&[0u8; 16])); }
        if !self.encrypt_metadata { s += " /EncryptMetadata false"; }
        s += " >>";
        s
    }
}
