//! C03/C01 token layer – every byte string emitted by TLC (spec/Syntax.tla) is tokenised with the
//! library's Lexer; the token boundaries must be those of the reference tokenizer of the spec.

use crate::observe::*;
use crate::report::*;
use pdf::parser::Lexer;
use serde_json::{json, Value};

pub fn lib_tokens(bytes: &[u8]) -> Result<Vec<(usize, usize)>, String> {
    match guarded(|| {
        let mut lx = Lexer::new(bytes);
        let mut out = Vec::new();
        let mut guard = 0;
        loop {
            match lx.next() {
                Ok(s) => {
                    let r = s.file_range();
                    out.push((r.start + 1, r.end + 1)); // 1-based like the spec
                }
                Err(_) => break,
            }
            guard += 1;
            if guard > bytes.len() + 2 { return Err("no progress".to_string()); }
        }
        Ok(out)
    }) {
        Outcome::Done(r) => r,
        Outcome::Panic(p) => Err(format!("panic:{}:{}", p.sym, p.msg)),
    }
}

pub fn run(cases_path: &str, report_path: &str, _opts: &[String]) {
    let cases = read_cases(cases_path);
    let mut rep = Report::default();
    for (ci, case) in cases.iter().enumerate() {
        rep.cases += 1;
        rep.execs += 1;
        let bytes: Vec<u8> = case["bytes"].as_array().unwrap().iter().map(|b| b.as_u64().unwrap() as u8).collect();
        let ideal: Vec<(usize, usize)> = case["ideal"].as_array().unwrap().iter().map(|t| (t[0].as_u64().unwrap() as usize, t[1].as_u64().unwrap() as usize)).collect();
        let mech: Vec<(usize, usize)> = case["mech"].as_array().unwrap().iter().map(|t| (t[0].as_u64().unwrap() as usize, t[1].as_u64().unwrap() as usize)).collect();
        if ideal.len() >= 2 { rep.nontrivial += 1; }
        match lib_tokens(&bytes) {
            Ok(got) => {
                if got != ideal {
                    // which byte class is involved
                    let what = if bytes.contains(&12) && bytes.iter().filter(|b| **b != 12).map(|b| *b).collect::<Vec<u8>>() == bytes.iter().filter(|b| **b != 12).map(|b| *b).collect::<Vec<u8>>() && lib_tokens(&bytes.iter().map(|b| if *b == 12 { 32 } else { *b }).collect::<Vec<u8>>()).ok() == Some(ideal.clone()) { "formfeed" }
                        else if bytes.contains(&37) { "comment" } else { "other" };
                    rep.fail(&format!("tokens:{}", what), json!({"case_index": ci, "case": case, "text": String::from_utf8_lossy(&bytes), "expected": ideal, "observed": got, "matches_asbuilt": got == mech}));
                }
            }
            Err(e) => rep.fail(&format!("tokens:{}", e.split(':').next().unwrap_or("err")), json!({"case_index": ci, "case": case, "observed": e})),
        }
        if ci > 5000 && rep.samples.len() < 2 { rep.sample(json!({"case": case})); }
    }
    rep.write(report_path);
}
