//! C03/C01 token layer – every byte string emitted by TLC (spec/Syntax.tla) is tokenised with the
//! library's Lexer; the token boundaries must be those of the reference tokenizer of the spec.

use crate::observe::*;
use crate::report::*;
use pdf::parser::Lexer;
use serde_json::{json, Value};

pub fn lib_tokens(bytes: &[u8]) -> Result<Vec<(usize, usize)>, String> {
    match guarded(|| {
        let mut lx = Lexer::new(bytes);
        let mut out = Vec::new();
        let mut guard = 0;
        loop {
            match lx.next() {
                Ok(s) => {
                    let r = s.file_range();
                    out.push((r.start + 1, r.end + 1)); // 1-based like the spec
                }
                Err(_) => break,
            }
            guard += 1;
            if guard > bytes.len() + 2 { return Err("no progress".to_string()); }
        }
        Ok(out)
    }) {
        Outcome::Done(r) => r,
        Outcome::Panic(p) => Err(format!("panic:{}:{}", p.sym, p.msg)),
    }
}

pub fn run(cases_path: &str, report_path: &str, _opts: &[String]) {
    let cases = read_cases(cases_path);
    let mut rep = Report::default();
    for (ci, case) in cases.iter().enumerate() {
        rep.cases += 1;
        rep.execs += 1;
        let bytes: Vec<u8> = case["bytes"].as_array().unwrap().iter().map(|b| b.as_u64().unwrap() as u8).collect();
        if case["strlit"] == true {
            strlit_case(&mut rep, ci, case, &bytes);
            continue;
        }
        if let Some(part) = case["literal"].as_str() {
            literal_case(&mut rep, ci, case, part, &bytes);
            continue;
        }
        let ideal: Vec<(usize, usize)> = case["ideal"].as_array().unwrap().iter().map(|t| (t[0].as_u64().unwrap() as usize, t[1].as_u64().unwrap() as usize)).collect();
        let mech: Vec<(usize, usize)> = case["mech"].as_array().unwrap().iter().map(|t| (t[0].as_u64().unwrap() as usize, t[1].as_u64().unwrap() as usize)).collect();
        if ideal.len() >= 2 { rep.nontrivial += 1; }
        match lib_tokens(&bytes) {
            Ok(got) => {
                if got != ideal {
                    // which byte class is involved
                    let what = if bytes.contains(&12) && bytes.iter().filter(|b| **b != 12).map(|b| *b).collect::<Vec<u8>>() == bytes.iter().filter(|b| **b != 12).map(|b| *b).collect::<Vec<u8>>() && lib_tokens(&bytes.iter().map(|b| if *b == 12 { 32 } else { *b }).collect::<Vec<u8>>()).ok() == Some(ideal.clone()) { "formfeed" }
                        else if bytes.contains(&37) { "comment" } else { "other" };
                    rep.fail(&format!("tokens:{}", what), json!({"case_index": ci, "case": case, "text": String::from_utf8_lossy(&bytes), "expected": ideal, "observed": got, "matches_asbuilt": got == mech}));
                }
            }
            Err(e) => rep.fail(&format!("tokens:{}", e.split(':').next().unwrap_or("err")), json!({"case_index": ci, "case": case, "observed": e})),
        }
        if ci > 5000 && rep.samples.len() < 2 { rep.sample(json!({"case": case})); }
    }
    rep.write(report_path);
}

/// spec/StrLit.tla: `bytes` is what follows the opening parenthesis; the spec's Ref gives the value and the end
fn strlit_case(rep: &mut Report, ci: usize, case: &Value, bytes: &[u8]) {
    use pdf::object::NoResolve;
    use pdf::parser::{parse_with_lexer, Lexer, ParseFlags};
    use pdf::primitive::Primitive;
    let text = [b"(".as_slice(), bytes].concat();
    let ideal = &case["ideal"];
    let ok = ideal["k"] == "ok";
    if ok && bytes.len() >= 3 { rep.nontrivial += 1; }
    let which = || -> &'static str {
        if bytes.windows(2).any(|w| w[0] == 92 && (48..=55).contains(&w[1])) { "octal" }
        else if bytes.windows(2).any(|w| w[0] == 92 && (w[1] == 13 || w[1] == 10)) { "continuation" }
        else if bytes.contains(&13) { "raw-cr" }
        else if bytes.contains(&92) { "escape" } else { "plain" }
    };
    let out = crate::observe::guarded(|| { let mut lx = Lexer::new(&text); let r = parse_with_lexer(&mut lx, &NoResolve, ParseFlags::ANY); (r, lx.get_pos()) });
    match out {
        crate::observe::Outcome::Panic(p) => rep.fail(&format!("strlit:panic:{}", p.sym), json!({"case_index": ci, "case": case, "observed": crate::observe::panic_json(&p)})),
        crate::observe::Outcome::Done((Ok(Primitive::String(s)), pos)) => {
            let want: Vec<u8> = ideal["val"].as_array().map(|a| a.iter().map(|b| b.as_u64().unwrap() as u8).collect()).unwrap_or_default();
            let want_end = ideal["end"].as_u64().unwrap_or(0) as usize; // 1-based position after `)` within bytes = 0-based position in text
            if !ok { rep.fail(&format!("strlit:accepted-unterminated:{}", which()), json!({"case_index": ci, "case": case, "text": String::from_utf8_lossy(&text), "observed": s.as_bytes()})); }
            else if s.as_bytes() != &want[..] { rep.fail(&format!("strlit:value:{}", which()), json!({"case_index": ci, "case": case, "text": String::from_utf8_lossy(&text), "expected": want, "observed": s.as_bytes()})); }
            else if pos != want_end { rep.fail(&format!("strlit:consumed:{}", which()), json!({"case_index": ci, "case": case, "text": String::from_utf8_lossy(&text), "expected": want_end, "observed": pos})); }
        }
        crate::observe::Outcome::Done((Ok(p), _)) => rep.fail("strlit:not-a-string", json!({"case_index": ci, "case": case, "observed": format!("{:?}", p)})),
        crate::observe::Outcome::Done((Err(e), _)) => {
            if ok { rep.fail(&format!("strlit:rejected:{}", which()), json!({"case_index": ci, "case": case, "text": String::from_utf8_lossy(&text), "observed": crate::observe::err_json(&e)})); }
        }
    }
}

/// spec/Literals.tla: hex strings (after `<`), names (after `/`), number tokens; the spec's Ref gives class, value and end
fn literal_case(rep: &mut Report, ci: usize, case: &Value, part: &str, bytes: &[u8]) {
    use crate::observe::{guarded, Outcome};
    use pdf::object::NoResolve;
    use pdf::parser::{parse_with_lexer, Lexer, ParseFlags};
    use pdf::primitive::Primitive;
    let ideal = &case["ideal"];
    let k = ideal["k"].as_str().unwrap_or("");
    let want: Vec<u8> = ideal["val"].as_array().map(|a| a.iter().map(|b| b.as_u64().unwrap() as u8).collect()).unwrap_or_default();
    let want_end = ideal["end"].as_u64().unwrap_or(0) as usize;
    let text: Vec<u8> = match part { "hex" => [b"<".as_slice(), bytes].concat(), "name" => [b"/".as_slice(), bytes, b" "].concat(), _ => [bytes, b" ".as_slice()].concat() };
    let out = guarded(|| { let mut lx = Lexer::new(&text); let r = parse_with_lexer(&mut lx, &NoResolve, ParseFlags::ANY); (r, lx.get_pos()) });
    let (res, pos) = match out {
        Outcome::Panic(p) => { rep.fail(&format!("literal:{}:panic:{}", part, p.sym), json!({"case_index": ci, "case": case, "text": String::from_utf8_lossy(&text), "observed": crate::observe::panic_json(&p)})); return; }
        Outcome::Done(x) => x,
    };
    let fail = |rep: &mut Report, what: &str, obs: Value| rep.fail(&format!("literal:{}:{}", part, what), json!({"case_index": ci, "case": case, "text": String::from_utf8_lossy(&text), "observed": obs}));
    match part {
        "hex" => {
            if bytes.len() >= 3 && k == "ok" { rep.nontrivial += 1; }
            match (k, res) {
                ("ok", Ok(Primitive::String(s))) => {
                    if s.as_bytes() != &want[..] { fail(rep, "value", json!(s.as_bytes())); }
                    else if pos != want_end { fail(rep, "consumed", json!({"expected": want_end, "observed": pos})); }
                }
                ("ok", Ok(p)) => fail(rep, "not-a-string", json!(format!("{:?}", p))),
                ("ok", Err(e)) => fail(rep, if bytes.contains(&0) { "rejected:nul-whitespace" } else { "rejected" }, crate::observe::err_json(&e)),
                (_, Ok(p)) => fail(rep, "accepted-invalid", json!(format!("{:?}", p))),
                (_, Err(_)) => {}
            }
        }
        "name" => {
            if k != "ok" || std::str::from_utf8(&want).is_err() { return; }      // `#` without two hex digits / names that are not UTF-8: only "no panic" (DESIGN 5.21)
            if bytes.contains(&35) { rep.nontrivial += 1; }
            match res {
                Ok(Primitive::Name(n)) => {
                    if n.as_bytes() != &want[..] { fail(rep, "value", json!(n.as_bytes())); }
                    else if pos != want_end { fail(rep, "consumed", json!({"expected": want_end, "observed": pos})); }
                }
                Ok(p) => fail(rep, "not-a-name", json!(format!("{:?}", p))),
                Err(e) => fail(rep, "rejected", crate::observe::err_json(&e)),
            }
        }
        _ => {
            if k == "other" { return; }                                             // not a number by the standard: only "no panic"
            rep.nontrivial += 1;
            let t = String::from_utf8_lossy(bytes).to_string();
            let norm = { let u = t.trim_start_matches('+'); let u = if u.starts_with('.') { format!("0{}", u) } else if u.starts_with("-.") { format!("-0{}", &u[1..]) } else { u.to_string() }; if u.ends_with('.') { format!("{}0", u) } else { u } };
            let v: f64 = norm.parse().expect("reference number");
            match (k, res) {
                ("int", Ok(Primitive::Integer(i))) => { if i as f64 != v { fail(rep, "int-value", json!(i)); } }
                ("int", Ok(Primitive::Number(x))) if v.abs() > i32::MAX as f64 => { if (x as f64 - v).abs() > v.abs() * 1e-6 { fail(rep, "int-value", json!(x)); } }
                ("real", Ok(Primitive::Number(x))) => { if x != v as f32 { fail(rep, "real-value", json!(x)); } }
                ("real", Ok(Primitive::Integer(i))) => fail(rep, "real-read-as-integer", json!(i)),
                (_, Ok(p)) => fail(rep, "wrong-kind", json!(format!("{:?}", p))),
                (_, Err(e)) => fail(rep, "rejected", crate::observe::err_json(&e)),
            }
            if pos != bytes.len() && pos != bytes.len() + 1 { fail(rep, "consumed", json!({"expected": bytes.len(), "observed": pos})); }
        }
    }
}
