//! C02 – Engine A: every update history emitted by TLC (spec/XRef.tla) is realised as a real
//! multi-revision file and read back through the library; the merged table must answer every
//! object number with the spec's `Ideal` (newest mention).

use crate::mkpdf::*;
use crate::observe::*;
use crate::report::*;
use pdf::file::{FileOptions, NoCache, NoLog, Storage};
use pdf::object::{ParseOptions, PlainRef, Resolve};
use pdf::primitive::Primitive;
use serde_json::{json, Value};
use std::collections::HashMap;

#[derive(Clone, Copy, Debug)]
pub struct Variant {
    pub split: Split,
    pub w: [usize; 3],
    pub xfilter: Filter,
    pub ofilter: Filter,
    pub prefix: usize,
    /// every cross-reference stream of the file has the same object number (an update may redefine the number of the older
    /// section's stream, which is still reached through /Prev by its offset)
    pub same_xid: bool,
    /// a cross-reference stream whose entries are all in use leaves the type field out (/W [0 n m]: the type defaults to 1)
    pub typeless: bool,
}

pub fn variants() -> Vec<Variant> {
    let mut v = Vec::new();
    for (i, split) in [Split::Min, Split::Max].iter().enumerate() {
        for (j, w) in [[1usize, 2, 1], [1, 4, 2], [2, 3, 2]].iter().enumerate() {
            for (k, xf) in [Filter::None, Filter::Flate].iter().enumerate() {
                let ofilter = if (i + j + k) % 2 == 0 { Filter::Flate } else { Filter::None };
                let prefix = if (i + j) % 3 == 1 { 7 } else { 0 };
                v.push(Variant { split: *split, w: *w, xfilter: *xf, ofilter, prefix, same_xid: (j + k) % 2 == 1, typeless: (i + k) % 2 == 0 });
            }
        }
    }
    v
}

enum Loc {
    Dir(usize),
    Cmp(u64, usize),
}

pub struct Built {
    pub bytes: Vec<u8>,
    pub nobj: u64,
}

/// concretise a history
pub fn build(case: &Value, var: &Variant) -> Built {
    let sections = case["sections"].as_array().unwrap();
    let nobj = sections[0]["ch"].as_array().unwrap().len() as u64;
    let cat = nobj + 1;
    let pages = nobj + 2;
    let prefix: Vec<u8> = (0..var.prefix).map(|i| b"junk\n\x00\xff"[i % 7]).collect();
    let mut d = Doc::new(&prefix);
    let mut vmap: HashMap<i64, Loc> = HashMap::new();
    let mut prev: Option<usize> = None;
    let mut max_id = pages;
    for (si, sec) in sections.iter().enumerate() {
        let i = si as u64 + 1;
        let fmt = sec["fmt"].as_str().unwrap();
        let container = nobj + 2 + 2 * i - 1;
        let xid = if var.same_xid { nobj + 40 } else { nobj + 2 + 2 * i };
        let mut entries: Vec<(u64, XEntry)> = Vec::new();
        if si == 0 {
            entries.push((0, XEntry::Free { next: 0, gen: 65535 }));
            let o = d.obj(cat, 0, &catalog_body(pages));
            entries.push((cat, XEntry::InUse { off: o, gen: 0 }));
            let o = d.obj(pages, 0, &empty_pages_body());
            entries.push((pages, XEntry::InUse { off: o, gen: 0 }));
        }
        let mut members: Vec<(u64, Vec<u8>)> = Vec::new();
        let mut deferred: Vec<(u64, i64)> = Vec::new();
        for e in sec["ch"].as_array().unwrap() {
            let o = e["o"].as_u64().unwrap();
            let g = e["g"].as_u64().unwrap();
            let v = e["v"].as_i64().unwrap();
            let fresh = v / 100 == i as i64;
            match e["k"].as_str().unwrap() {
                "none" => {}
                "free" => entries.push((o, XEntry::Free { next: 0, gen: g })),
                "dir" => {
                    if fresh {
                        let off = d.obj(o, g, format!("<< /V {} /O {} >>", v, o).as_bytes());
                        vmap.insert(v, Loc::Dir(off));
                    }
                    match vmap.get(&v).expect("restated value known") {
                        Loc::Dir(off) => entries.push((o, XEntry::InUse { off: *off, gen: g })),
                        Loc::Cmp(..) => panic!("mkpdf: dir entry restating compressed value"),
                    }
                }
                "cmp" => {
                    if fresh {
                        vmap.insert(v, Loc::Cmp(container, members.len()));
                        members.push((o, format!("<< /V {} /O {} >>", v, o).into_bytes()));
                    }
                    deferred.push((o, v));
                }
                k => panic!("unknown kind {}", k),
            }
        }
        for (o, v) in deferred {
            match vmap.get(&v).unwrap() {
                Loc::Cmp(c, idx) => entries.push((o, XEntry::Compressed { container: *c, idx: *idx })),
                Loc::Dir(_) => panic!("mkpdf: cmp entry restating direct value"),
            }
        }
        if !members.is_empty() {
            let off = d.objstm(container, &members, var.ofilter, " ", b"\n", true, "");
            entries.push((container, XEntry::InUse { off, gen: 0 }));
            max_id = max_id.max(container);
        }
        // the free entries of a section form a linked list, as a writer that follows 7.5.4 produces it: each names the next
        // free object number of the section, the last one names 0
        {
            let mut frees: Vec<u64> = entries.iter().filter_map(|(o, x)| if let XEntry::Free { .. } = x { if *o != 0 { Some(*o) } else { None } } else { None }).collect();
            frees.sort();
            for (o, x) in entries.iter_mut() {
                if let XEntry::Free { next, .. } = x {
                    *next = if *o == 0 { frees.first().copied().unwrap_or(0) } else { frees.iter().copied().find(|f| *f > *o).unwrap_or(0) };
                }
            }
        }
        let extra = format!("/Root {} 0 R /Marker {}", cat, i);
        let off = if fmt == "table" {
            d.xref_table(&entries, max_id + 1, &extra, prev, var.split)
        } else {
            max_id = max_id.max(xid);
            let all_in_use = entries.iter().all(|(_, x)| matches!(x, XEntry::InUse { .. }));
            let w = if var.typeless && all_in_use { [0, var.w[1].max(3), var.w[2]] } else { var.w };
            d.xref_stream(xid, &entries, max_id + 1, w, &extra, prev, var.split, var.xfilter)
        };
        prev = Some(off);
    }
    Built { bytes: d.buf, nobj }
}

fn project(r: Outcome<pdf::error::Result<Primitive>>) -> Value {
    match r {
        Outcome::Done(Ok(Primitive::Dictionary(d))) => match d.get("V") {
            Some(Primitive::Integer(v)) => json!({"k": "val", "v": v}),
            _ => json!({"k": "err", "kind": "NoV"}),
        },
        Outcome::Done(Ok(p)) => json!({"k": "err", "kind": "NotDict", "p": prim_json(&p)}),
        Outcome::Done(Err(e)) => match err_kind(&e) {
            "Missing" | "Free" => json!({"k": "absent", "v": 0}),
            _ => err_json(&e),
        },
        Outcome::Panic(p) => panic_json(&p),
    }
}

fn same(ideal: &Value, obs: &Value) -> bool {
    ideal["k"] == obs["k"] && (ideal["k"] != "val" || ideal["v"] == obs["v"])
}

/// observations through the Storage API (no catalog needed) and through File::load
pub fn observe(b: &Built, tolerant: bool) -> (Vec<Value>, Value, Vec<Value>) {
    let opts = || if tolerant { ParseOptions::tolerant() } else { ParseOptions::strict() };
    let mut obs = Vec::new();
    let mut trailer = json!(null);
    let r = guarded(|| {
        let mut st = Storage::with_cache(b.bytes.clone(), opts(), NoCache, NoCache, NoLog)?;
        let tr = st.load_storage_and_trailer()?;
        Ok::<_, pdf::error::PdfError>((st, tr))
    });
    match r {
        Outcome::Done(Ok((st, tr))) => {
            trailer = match tr.get("Marker") {
                Some(Primitive::Integer(m)) => json!(m),
                _ => json!("nomarker"),
            };
            for o in 1..=b.nobj {
                let res = st.resolver();
                obs.push(project(guarded(|| res.resolve(PlainRef { id: o, gen: 0 }))));
            }
        }
        Outcome::Done(Err(e)) => {
            for _ in 1..=b.nobj {
                obs.push(json!({"k": "err", "kind": "Load", "e": err_json(&e)}));
            }
        }
        Outcome::Panic(p) => {
            for _ in 1..=b.nobj {
                obs.push(panic_json(&p));
            }
        }
    }
    // second path: the File front door with caches
    let mut obs2 = Vec::new();
    let r = guarded(|| FileOptions::cached().parse_options(opts()).load(b.bytes.clone()));
    match r {
        Outcome::Done(Ok(f)) => {
            for o in 1..=b.nobj {
                let res = f.resolver();
                obs2.push(project(guarded(|| res.resolve(PlainRef { id: o, gen: 0 }))));
            }
        }
        Outcome::Done(Err(e)) => {
            for _ in 1..=b.nobj {
                obs2.push(json!({"k": "err", "kind": "Load", "e": err_json(&e)}));
            }
        }
        Outcome::Panic(p) => {
            for _ in 1..=b.nobj {
                obs2.push(panic_json(&p));
            }
        }
    }
    (obs, trailer, obs2)
}

fn class_of(case: &Value, o: usize) -> String {
    // the kinds of all mentions of object o, newest first, e.g. "cmp<dir"
    let mut ks = Vec::new();
    for sec in case["sections"].as_array().unwrap().iter().rev() {
        let k = sec["ch"][o]["k"].as_str().unwrap();
        if k != "none" {
            ks.push(format!("{}:{}", &sec["fmt"].as_str().unwrap()[..1], k));
        }
    }
    ks.join("<")
}

pub fn run(cases_path: &str, report_path: &str, opts: &[String]) {
    let cases = read_cases(cases_path);
    let all_variants = opts.iter().any(|o| o == "--all-variants");
    let seed: usize = opts.iter().find_map(|o| o.strip_prefix("--seed=")).and_then(|s| s.parse().ok()).unwrap_or(0);
    let vars = variants();
    let mut rep = Report::default();
    for (ci, case) in cases.iter().enumerate() {
        rep.cases += 1;
        let ideal = case["ideal"].as_array().unwrap();
        let mech = case["mech"].as_array().unwrap();
        // non-trivial: some object is mentioned by at least two sections
        let nsec = case["sections"].as_array().unwrap().len();
        let nobj = ideal.len();
        let multi = (0..nobj).any(|o| (0..nsec).filter(|s| case["sections"][*s]["ch"][o]["k"] != "none").count() >= 2);
        if multi {
            rep.nontrivial += 1;
        }
        let picks: Vec<usize> = if all_variants { (0..vars.len()).collect() } else { vec![(ci + seed) % vars.len(), (ci * 7 + 3 + seed) % vars.len()] };
        for vi in picks {
            let var = &vars[vi];
            let built = build(case, var);
            for tolerant in [false, true] {
                rep.execs += 1;
                let (obs, trailer, obs2) = observe(&built, tolerant);
                if ci < 2 && vi == picks_first(ci, seed, vars.len(), all_variants) && !tolerant {
                    rep.sample(json!({"case": case, "variant": format!("{:?}", var), "observed": obs, "file_len": built.bytes.len()}));
                }
                for o in 0..nobj {
                    for (path, ob) in [("storage", &obs[o]), ("file", &obs2[o])] {
                        if !same(&ideal[o], ob) {
                            let asbuilt = same(&mech[o], ob);
                            rep.fail(&class_of(case, o), json!({"case_index": ci, "case": case, "variant": format!("{:?}", var), "variant_index": vi,
                                "tolerant": tolerant, "path": path, "object": o + 1, "expected": ideal[o], "observed": ob, "matches_asbuilt": asbuilt}));
                        }
                    }
                }
                let want_tr = json!(nsec);
                if trailer != want_tr {
                    rep.fail("trailer", json!({"case_index": ci, "case": case, "variant": format!("{:?}", var), "variant_index": vi,
                        "tolerant": tolerant, "expected": want_tr, "observed": trailer}));
                }
            }
        }
    }
    rep.write(report_path);
}

fn picks_first(ci: usize, seed: usize, n: usize, all: bool) -> usize {
    if all { 0 } else { (ci + seed) % n }
}
