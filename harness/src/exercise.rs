//! Walks everything reachable through the public read interface of a document (the entry points listed for
//! C01 / C14) and classifies each call's outcome: a value, an error value, or a panic. Process-level failures
//! (stack overflow, abort, non-termination) are observed by the caller through the progress file + watchdog.

use crate::observe::*;
use pdf::content::Op;
use pdf::file::{FileOptions, ScanItem};
use pdf::font::Font;
use pdf::object::*;
use pdf::primitive::{PdfString, Primitive};
use std::sync::atomic::{AtomicU64, Ordering};
use std::time::{SystemTime, UNIX_EPOCH};

static DEADLINE_MS: AtomicU64 = AtomicU64::new(0);
fn now_ms() -> u64 { SystemTime::now().duration_since(UNIX_EPOCH).unwrap().as_millis() as u64 }

/// a call that does not return within `secs` ends the process with exit code 3 (the progress file names the case)
pub fn arm_watchdog(secs: u64) {
    DEADLINE_MS.store(if secs == 0 { 0 } else { now_ms() + secs * 1000 }, Ordering::SeqCst);
}
pub fn start_watchdog() {
    std::thread::spawn(|| loop {
        std::thread::sleep(std::time::Duration::from_millis(200));
        let d = DEADLINE_MS.load(Ordering::SeqCst);
        if d != 0 && now_ms() > d {
            eprintln!("WATCHDOG: a call did not return in time");
            if let Ok(l) = crate::observe::PANIC_LOG.lock() { for p in l.iter() { eprintln!("EARLIER-PANIC: {}", p); } }
            std::process::exit(3);
        }
    });
}
pub fn limit_memory(bytes: u64) {
    unsafe {
        let lim = libc::rlimit { rlim_cur: bytes, rlim_max: bytes };
        libc::setrlimit(libc::RLIMIT_AS, &lim);
    }
}

pub struct Obs { pub calls: Vec<(String, String)> }
impl Obs {
    fn rec<T>(&mut self, name: &str, o: Outcome<pdf::error::Result<T>>) -> Option<T> {
        match o {
            Outcome::Done(Ok(v)) => { self.calls.push((name.to_string(), "ok".into())); Some(v) }
            Outcome::Done(Err(e)) => { self.calls.push((name.to_string(), format!("err:{}", err_kind(&e)))); None }
            Outcome::Panic(p) => { self.calls.push((name.to_string(), format!("panic:{}:{}", p.sym, p.msg))); None }
        }
    }
    fn rec_plain<T>(&mut self, name: &str, o: Outcome<T>) -> Option<T> {
        match o {
            Outcome::Done(v) => { self.calls.push((name.to_string(), "ok".into())); Some(v) }
            Outcome::Panic(p) => { self.calls.push((name.to_string(), format!("panic:{}:{}", p.sym, p.msg))); None }
        }
    }
    pub fn panics(&self) -> Vec<&(String, String)> { self.calls.iter().filter(|c| c.1.starts_with("panic")).collect() }
}

fn font_calls(o: &mut Obs, tag: &str, font: &Font, r: &impl Resolve) {
    o.rec(&format!("{}.widths", tag), guarded(|| font.widths(r).map(|w| w.map(|w| (0..300usize).map(|c| w.get(c)).sum::<f32>()))));
    o.rec_plain(&format!("{}.to_unicode", tag), guarded(|| font.to_unicode(r).map(|m| m.map(|m| m.len()).map_err(|e| err_kind(&e)))));
    o.rec_plain(&format!("{}.embedded_data", tag), guarded(|| font.embedded_data(r).map(|d| d.map(|d| d.len()).map_err(|e| err_kind(&e)))));
}

fn colorspace_calls(o: &mut Obs, tag: &str, cs: &ColorSpace) {
    match cs {
        ColorSpace::Separation(_, alt, f) => {
            o.rec(&format!("{}.tint.apply", tag), guarded(|| { let n = f.input_dim(); let mut out = vec![0.0f32; f.output_dim().min(64)]; f.apply(&vec![0.5f32; n.min(64)], &mut out) }));
            colorspace_calls(o, tag, alt);
        }
        ColorSpace::DeviceN { tint, .. } => {
            o.rec(&format!("{}.tint.apply", tag), guarded(|| { let n = tint.input_dim(); let mut out = vec![0.0f32; tint.output_dim().min(64)]; tint.apply(&vec![0.25f32; n.min(64)], &mut out) }));
        }
        ColorSpace::Indexed(base, _, _) => colorspace_calls(o, tag, base),
        _ => {}
    }
}

fn resources_calls(o: &mut Obs, tag: &str, res: &Resources, r: &impl Resolve, depth: usize) {
    for (name, f) in res.fonts.iter().take(20) {
        if let Some(font) = o.rec(&format!("{}.font[{}].load", tag, name.as_str()), guarded(|| f.load(r))) {
            font_calls(o, &format!("{}.font[{}]", tag, name.as_str()), &font, r);
        }
    }
    for (name, x) in res.xobjects.iter().take(20) {
        if let Some(xo) = o.rec(&format!("{}.xobject[{}].get", tag, name.as_str()), guarded(|| r.get(*x))) {
            match *xo {
                XObject::Image(ref im) => {
                    o.rec(&format!("{}.xobject[{}].raw_image_data", tag, name.as_str()), guarded(|| im.raw_image_data(r).map(|d| d.0.len())));
                    o.rec(&format!("{}.xobject[{}].image_data", tag, name.as_str()), guarded(|| im.image_data(r).map(|d| d.len())));
                }
                XObject::Form(ref fx) => {
                    o.rec(&format!("{}.xobject[{}].operations", tag, name.as_str()), guarded(|| fx.operations(r).map(|v| v.len())));
                    if depth > 0 {
                        if let Some(fr) = fx.dict().resources.as_ref() { resources_calls(o, &format!("{}.xobject[{}].resources", tag, name.as_str()), fr, r, depth - 1); }
                    }
                }
                XObject::Postscript(_) => {}
            }
        }
    }
    for (name, cs) in res.color_spaces.iter().take(20) { colorspace_calls(o, &format!("{}.colorspace[{}]", tag, name.as_str()), cs); }
    for (name, p) in res.pattern.iter().take(10) { o.rec(&format!("{}.pattern[{}].get", tag, name.as_str()), guarded(|| r.get(*p).map(|_| ()))); }
}

/// typed loads (model name of the registry, object number) that `exercise` performs in addition; set per case by the runner
pub static TYPED: std::sync::Mutex<Vec<(String, u64)>> = std::sync::Mutex::new(Vec::new());

/// every read entry point; `with_scan` also runs the recovery scan
pub fn exercise(bytes: &[u8], tolerant: bool, cached: bool, password: &[u8]) -> Obs {
    let mut o = Obs { calls: Vec::new() };
    let opts = || if tolerant { ParseOptions::tolerant() } else { ParseOptions::strict() };
    macro_rules! body { ($f:expr) => {{
        let f = $f;
        let r = f.resolver();
        let n = f.num_pages();
        for i in (0..n.min(40)).chain([n, n.wrapping_add(1), u32::MAX]) {
            if let Some(page) = o.rec(&format!("get_page[{}]", if i < 40 { i.to_string() } else { "beyond".into() }), guarded(|| f.get_page(i))) {
                let tag = format!("page[{}]", i);
                o.rec(&format!("{}.media_box", tag), guarded(|| page.media_box().map(|_| ())));
                o.rec(&format!("{}.crop_box", tag), guarded(|| page.crop_box().map(|_| ())));
                if let Some(res) = o.rec(&format!("{}.resources", tag), guarded(|| page.resources().map(|x| x.clone()))) { resources_calls(&mut o, &tag, &res, &r, 2); }
                if let Some(c) = page.contents.as_ref() {
                    o.rec(&format!("{}.operations", tag), guarded(|| c.operations(&r).map(|ops| ops.iter().filter(|op| matches!(op, Op::InlineImage { .. })).count())));
                }
                if let Some(annots) = o.rec(&format!("{}.annotations", tag), guarded(|| page.annotations.load(&r).map(|a| (*a).clone()))) {
                    // the appearance streams of each annotation: lazy references, followed by the caller
                    for (k, a) in annots.iter().take(8).enumerate() {
                        if let Some(ap) = a.appearance_streams.as_ref() {
                            let entries = [("N", Some(ap.normal)), ("R", ap.rollover), ("D", ap.down)];
                            for (kind, e) in entries {
                                if let Some(e) = e {
                                    o.rec(&format!("{}.annot[{}].AP.{}", tag, k, kind), guarded(|| r.get(e).map(|x| match &*x {
                                        pdf::object::AppearanceStreamEntry::Single(f) => f.operations(&r).map(|ops| ops.len()).unwrap_or(0),
                                        pdf::object::AppearanceStreamEntry::Dict(d) => d.len(),
                                    })));
                                }
                            }
                        }
                    }
                }
            }
        }
        o.rec_plain("pages()", guarded(|| f.pages().take(60).filter(|p| p.is_ok()).count()));
        let cat = f.get_root();
        if let Some(names) = cat.names.as_ref() {
            macro_rules! walk { ($field:ident) => { if let Some(t) = names.$field.as_ref() { o.rec(concat!("names.", stringify!($field), ".walk"), guarded(|| { let mut n = 0usize; t.walk(&r, &mut |_k: &PdfString, _v| { n += 1; }).map(|_| n) })); } } }
            walk!(pages); walk!(dests); walk!(ap); walk!(javascript); walk!(templates); walk!(ids); walk!(urls); walk!(embedded_files);
        }
        if let Some(pl) = cat.page_labels.as_ref() {
            o.rec("page_labels.walk", guarded(|| { let mut n = 0usize; pl.walk(&r, &mut |_i, _v| { n += 1; }).map(|_| n) }));
        }
        if let Some(ol) = cat.outlines.as_ref() {
            // follow First / Next through typed loads with a harness-side step limit (the library offers no iterator)
            let mut cur = ol.first;
            let mut steps = 0;
            while let Some(rf) = cur {
                steps += 1;
                if steps > 50 { break; }
                match o.rec("outline.item.get", guarded(|| r.get(rf))) { Some(it) => cur = it.next, None => break }
            }
        }
        let size = (f.trailer.size.max(0) as u64).min(3000) + 2;
        for id in 0..size {
            if let Some(p) = o.rec(&format!("resolve[{}]", if id < 64 { id.to_string() } else { "n".into() }), guarded(|| r.resolve(PlainRef { id, gen: 0 }))) {
                if let Primitive::Stream(s) = p {
                    o.rec("stream.raw_data", guarded(|| s.raw_data(&r).map(|d| d.len())));
                    o.rec("stream.data", guarded(|| Stream::<()>::from_stream(s.clone(), &r).and_then(|st| st.data(&r)).map(|d| d.len())));
                }
            }
        }
        // typed loads by model name, asked for by the case: once as a direct entry (the reference is handed to the
        // decoder) and once the way `get` does it (the resolved value is handed to the decoder)
        let typed: Vec<(String, u64)> = TYPED.lock().map(|t| t.clone()).unwrap_or_default();
        let typed_first = bytes.len() % 2 == 0;
        for (model, id) in typed {
            let pr = PlainRef { id, gen: 0 };
            // first as a plain dictionary (a cached document then holds the object under that type), then as the model
            // through Resolve::get: the typed load finds a cache entry of another type
            // (every second object is first loaded as the model itself: the cache entry is then in the making while the entries of the value are followed)
            if id % 2 == 0 || typed_first {
                o.rec(&format!("typed[{}].get-first", model), guarded(|| crate::registry::get(&model, &r, id).unwrap_or(Ok(()))));
            }
            o.rec(&format!("typed[{}].as-dictionary", model), guarded(|| r.get::<pdf::primitive::Dictionary>(Ref::from_id(id)).map(|_| ())));
            o.rec(&format!("typed[{}].get", model), guarded(|| crate::registry::get(&model, &r, id).unwrap_or(Ok(()))));
            o.rec(&format!("typed[{}].direct", model), guarded(|| crate::registry::load(&model, Primitive::Reference(pr), &r).unwrap_or(Ok(()))));
            o.rec(&format!("typed[{}].resolved", model), guarded(|| {
                let p = r.resolve(pr)?;
                crate::registry::load(&model, p, &r).unwrap_or(Ok(()))
            }));
        }
        o.rec_plain("scan", guarded(|| f.scan().take(5000).map(|it| match it { Ok(ScanItem::Object(..)) => 1, Ok(ScanItem::Trailer(_)) => 2, Err(_) => 0 }).sum::<usize>()));
    }}}
    let loaded = if cached {
        if let Some(f) = o.rec("load", guarded(|| FileOptions::cached().password(password).parse_options(opts()).load(bytes.to_vec()))) { body!(f); true } else { false }
    } else {
        if let Some(f) = o.rec("load", guarded(|| FileOptions::uncached().password(password).parse_options(opts()).load(bytes.to_vec()))) { body!(f); true } else { false }
    };
    if !loaded {
        // the recovery scan is for files that do not load: it runs on the bare storage
        if let Some(st) = o.rec("storage", guarded(|| pdf::file::Storage::with_cache(bytes.to_vec(), opts(), pdf::file::NoCache, pdf::file::NoCache, pdf::file::NoLog))) {
            o.rec_plain("storage.scan", guarded(|| st.scan().take(5000).map(|it| match it { Ok(ScanItem::Object(..)) => 1, Ok(ScanItem::Trailer(_)) => 2, Err(_) => 0 }).sum::<usize>()));
        }
    }
    o
}
