//! C18 – references to missing or free objects read as null. Cases combine the outcome table of
//! spec/Dangling.tla (kind x carrier x mode x optional) with every keyed field of every typed model found in
//! the library's sources (tools/extract_models.py): the reference is planted in a minimal valid dictionary of
//! the model and the model is read through its real reader.

use crate::mkpdf::*;
use crate::observe::*;
use crate::registry;
use crate::report::*;
use pdf::error::{PdfError, Result};
use pdf::file::{FileOptions, PromisedRef};
use pdf::object::{Object, ObjectWrite, ParseOptions, PlainRef, RcRef, Resolve, Shared, Updater};
use pdf::primitive::Primitive;
use serde_json::{json, Value};

/// Updater that only hands out ids (models with `indirect` fields create objects while being written)
pub struct RecUpdater { pub next: u64, pub created: Vec<(u64, Primitive)> }
impl RecUpdater { pub fn new() -> Self { RecUpdater { next: 1000, created: Vec::new() } } }
impl Updater for RecUpdater {
    fn create<T: ObjectWrite>(&mut self, obj: T) -> Result<RcRef<T>> {
        let id = self.next; self.next += 1;
        let p = obj.to_primitive(self)?;
        self.created.push((id, p));
        Ok(RcRef::new(PlainRef { id, gen: 0 }, Shared::new(obj)))
    }
    fn update<T: ObjectWrite>(&mut self, old: PlainRef, obj: T) -> Result<RcRef<T>> {
        let p = obj.to_primitive(self)?;
        self.created.push((old.id, p));
        Ok(RcRef::new(old, Shared::new(obj)))
    }
    fn promise<T: Object>(&mut self) -> PromisedRef<T> { unimplemented!("promise is not needed by any writer") }
    fn fulfill<T: ObjectWrite>(&mut self, _p: PromisedRef<T>, _obj: T) -> Result<RcRef<T>> { unimplemented!() }
}

/// file: object 1 = `dict`, aux objects, id 60 free, id 61 inside a gap, ids >= 70 beyond the table
pub fn build(dict: &str, aux: &Value) -> Vec<u8> { build_with_trailer(dict, aux, "") }
pub fn build_with_trailer(dict: &str, aux: &Value, trailer_extra: &str) -> Vec<u8> {
    let mut d = Doc::new(b"");
    let mut e: Vec<(u64, XEntry)> = vec![(0, XEntry::Free { next: 60, gen: 65535 })];
    let o = d.obj(1, 0, dict.as_bytes());
    e.push((1, XEntry::InUse { off: o, gen: 0 }));
    for (k, v) in aux.as_object().unwrap() {
        let id: u64 = k.parse().unwrap();
        let o = d.obj(id, 0, v.as_str().unwrap().as_bytes());
        e.push((id, XEntry::InUse { off: o, gen: 0 }));
    }
    let o = d.stream(52, 0, "/S 1", b"data", None, false);
    e.push((52, XEntry::InUse { off: o, gen: 0 }));
    e.push((60, XEntry::Free { next: 0, gen: 1 }));
    let o = d.obj(68, 0, &catalog_body(51));
    e.push((68, XEntry::InUse { off: o, gen: 0 }));
    // 62: defined in the original body, freed by an incremental update (the newest mention is the free entry)
    let o = d.obj(62, 0, b"<< /Type /Pages /Kids [] /Count 0 /Stale true >>");
    e.push((62, XEntry::InUse { off: o, gen: 0 }));
    // 63: the same, but the update's free entry keeps generation 0 (`0000000000 00000 f`, or a cross-reference stream
    // without a generation column): common in practice, and the newest mention still says free
    let o = d.obj(63, 0, b"<< /Type /Pages /Kids [] /Count 0 /Stale true >>");
    e.push((63, XEntry::InUse { off: o, gen: 0 }));
    let tr = format!("/Root 68 0 R {}", trailer_extra);
    let first = d.xref_table(&e, 70, &tr, None, Split::Min);
    d.xref_table(&[(62, XEntry::Free { next: 0, gen: 1 }), (63, XEntry::Free { next: 0, gen: 0 })], 70, &tr, Some(first), Split::Min);
    d.buf
}

pub fn run(cases_path: &str, report_path: &str, _opts: &[String]) {
    let cases = read_cases(cases_path);
    let mut rep = Report::default();
    let mut unusable: std::collections::BTreeSet<String> = Default::default();
    let mut usable: std::collections::BTreeSet<String> = Default::default();
    for (ci, case) in cases.iter().enumerate() {
        let model = case["model"].as_str().unwrap();
        let tolerant = case["mode"] == "tolerant";
        let opts = || if tolerant { ParseOptions::tolerant() } else { ParseOptions::strict() };
        let load = |dict: &str| -> std::result::Result<Value, Value> {
            let bytes = build(dict, &case["aux"]);
            match guarded(|| {
                let f = FileOptions::uncached().parse_options(opts()).load(bytes)?;
                let r = f.resolver();
                let p = r.resolve(PlainRef { id: 1, gen: 0 })?;
                let mut u = RecUpdater::new();
                match registry::roundtrip(model, p, &r, &mut u) {
                    Some(x) => x.map(|w| w.map(|p| prim_json(&p))),
                    None => Err(PdfError::Other { msg: "model not in registry".into() }),
                }
            }) {
                Outcome::Done(Ok(w)) => Ok(json!({"k": "ok", "written": w})),
                Outcome::Done(Err(e)) => {
                    let mut names = Vec::new();
                    fields_named(&e, &mut names);
                    Err(json!({"k": "err", "kind": err_kind(&e), "root": format!("{}", root(&e)).chars().take(100).collect::<String>(), "names": names}))
                }
                Outcome::Panic(p) => Err(panic_json(&p)),
            }
        };
        // baseline: the minimal dictionary itself must load, otherwise the model is not covered
        let base = case["base"].as_str().unwrap();
        if !usable.contains(model) && !unusable.contains(model) {
            match load(base) {
                Ok(_) => { usable.insert(model.to_string()); }
                Err(e) => { unusable.insert(model.to_string()); rep.notes.push(format!("model {} not covered: minimal dictionary does not load: {}", model, e)); }
            }
        }
        if unusable.contains(model) {
            rep.count("skipped:model-not-covered");
            continue;
        }
        rep.cases += 1;
        rep.execs += 1;
        if case["role"] != "unfollowed" { rep.nontrivial += 1; }
        let planted = case["dict"].as_str().unwrap();
        let res = load(planted);
        let expect = case["expect"].as_str().unwrap();
        let class_tail = format!("{}:{}:{}:{}", case["role"].as_str().unwrap(), case["carrier"].as_str().unwrap(), case["kind"].as_str().unwrap(), case["mode"].as_str().unwrap());
        match (&res, expect) {
            (Ok(_), "ok") => {}
            (Err(e), "err_named") if e["k"] == "err" => {
                let key = case["key"].as_str().unwrap();
                let field = case["field"].as_str().unwrap();
                let named = e["names"].as_array().unwrap().iter().any(|n| n == key || n == field);
                if !named {
                    rep.fail(&format!("unnamed:{}", class_tail), json!({"case_index": ci, "case": case, "observed": e}));
                }
            }
            (Ok(w), "err_named") => {
                // "a required entry that refers to such an object is reported as an error naming the entry": reading on as if it were absent hides the damage
                rep.fail(&format!("accepted:{}", class_tail), json!({"case_index": ci, "case": case, "observed": w}));
            }
            (Err(e), _) => {
                let class = if e["k"] == "panic" { format!("panic:{}", class_tail) } else { format!("rejected:{}", class_tail) };
                rep.fail(&class, json!({"case_index": ci, "case": case, "observed": e, "matches_asbuilt": case["asbuilt"] == "err"}));
            }
            _ => {}
        }
        if ci < 2 { rep.sample(json!({"case": case})); }
    }
    rep.add("models_covered", usable.len() as u64);
    rep.add("models_not_covered", unusable.len() as u64);
    // the trailer's optional /Encrypt entry naming a free / undefined object: the document is not encrypted and loads
    for (label, r) in [("free", "60 0 R"), ("freed-by-update", "62 0 R"), ("gap", "61 0 R"), ("beyond", "99 0 R")] {
        for tolerant in [false, true] {
            rep.execs += 1;
            let bytes = build_with_trailer("<< /Type /Pages /Kids [] /Count 0 >>", &json!({"51": "<< /Type /Pages /Kids [] /Count 0 >>"}), &format!("/Encrypt {} /ID [<00> <00>]", r));
            let opts = if tolerant { ParseOptions::tolerant() } else { ParseOptions::strict() };
            match guarded(|| FileOptions::uncached().parse_options(opts).load(bytes.clone()).map(|f| f.get_root().pages.count)) {
                Outcome::Done(Ok(_)) => {}
                Outcome::Done(Err(e)) => rep.fail(&format!("rejected:trailer:Encrypt:{}:{}", label, if tolerant { "tolerant" } else { "strict" }), json!({"case": {"trailer": "Encrypt", "ref": r}, "observed": crate::observe::err_json(&e)})),
                Outcome::Panic(p) => rep.fail(&format!("panic:trailer:Encrypt:{}", label), json!({"case": {"trailer": "Encrypt", "ref": r}, "observed": panic_json(&p)})),
            }
        }
    }
    rep.write(report_path);
}
