mod mkpdf;
mod observe;
mod report;
mod rx_xref;
mod rx_store;
mod rx_pagetree;
mod sched;
mod rx_resolver;
mod rx_font;
mod rx_cache;
mod rx_objstm;
mod rx_prefix;
mod registry;
mod rx_dangling;
mod rx_content;
mod rx_derive;
mod refparse;
mod validate;
mod rx_build;
mod rx_import;
mod rx_lexer;
mod rx_syntax;
mod rx_serial;
mod refcodec;
mod rx_filters;
mod refcrypt;
mod rx_crypt;
mod exercise;
mod rx_walk;
mod rx_bytes;
mod rx_restrace;
mod rx_storetrace;
mod rx_system;

fn main() {
    let args: Vec<String> = std::env::args().collect();
    if args.len() < 2 {
        eprintln!("usage: pdfverif <module> <cases.ndjson> <report.json> [opts]");
        std::process::exit(2);
    }
    if args[1] == "synccache-probe" {
        rx_resolver::synccache_probe();
        return;
    }
    let opts: Vec<String> = args.iter().skip(4).cloned().collect();
    match args[1].as_str() {
        "xref" => rx_xref::run(&args[2], &args[3], &opts),
        "store" => rx_store::run(&args[2], &args[3], &opts),
        "pagetree" => rx_pagetree::run(&args[2], &args[3], &opts),
        "resolver" => rx_resolver::run(&args[2], &args[3], &opts),
        "objstm" => rx_objstm::run(&args[2], &args[3], &opts),
        "prefix" => rx_prefix::run(&args[2], &args[3], &opts),
        "dangling" => rx_dangling::run(&args[2], &args[3], &opts),
        "content" => rx_content::run(&args[2], &args[3], &opts),
        "derive" => rx_derive::run(&args[2], &args[3], &opts),
        "build" => rx_build::run(&args[2], &args[3], &opts),
        "import" => rx_import::run(&args[2], &args[3], &opts),
        "lexer" => rx_lexer::run(&args[2], &args[3], &opts),
        "syntax" => rx_syntax::run(&args[2], &args[3], &opts),
        "serial" => rx_serial::run(&args[2], &args[3], &opts),
        "filters" => rx_filters::run(&args[2], &args[3], &opts),
        "encoders" => rx_filters::run_encoders(&args[2], &args[3], &opts),
        "crypt" => rx_crypt::run(&args[2], &args[3], &opts),
        "walk" => rx_walk::run(&args[2], &args[3], &opts),
        "bytes" => rx_bytes::run(&args[2], &args[3], &opts),
        "restrace" => rx_restrace::run(&args[2], &args[3], &opts),
        "storetrace" => rx_storetrace::run(&args[2], &args[3], &opts),
        "system" => rx_system::run(&args[2], &args[3], &opts),
        "cache" => rx_cache::run(&args[2], &args[3], &opts),
        "widths" => rx_font::run_widths(&args[2], &args[3], &opts),
        "cmap" => rx_font::run_cmap(&args[2], &args[3], &opts),
        m => {
            eprintln!("unknown module {}", m);
            std::process::exit(2);
        }
    }
}
