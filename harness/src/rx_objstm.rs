//! C11 – Engine A: storage configurations emitted by TLC (spec/ObjStm.tla); a value stored inside an
//! object stream must resolve like its directly stored twin; a stream whose /Length is a reference to
//! an integer stored either way must yield the same data as its twin with a direct /Length.

use crate::mkpdf::*;
use crate::observe::*;
use crate::report::*;
use pdf::file::FileOptions;
use pdf::object::{ParseOptions, PlainRef, Resolve};
use pdf::primitive::Primitive;
use serde_json::{json, Value};

const SDATA: &[u8] = b"stream-data";   // 11 bytes

fn text_of(kind: &str, j: usize) -> Vec<u8> {
    match kind {
        "int" => b"11".to_vec(),
        "negint" => format!("-{}", 7 + j).into_bytes(),
        "real" => format!("3.{}5", j).into_bytes(),
        "name" => format!("/Nm{}", j).into_bytes(),
        "emptyname" => b"/".to_vec(),
        "null" => b"null".to_vec(),
        "true" => b"true".to_vec(),
        "lit" => format!("(a \\(b{}\\) c)", j).into_bytes(),
        "hex" => b"<41 42 4>".to_vec(),
        "arr" => format!("[1 /A (s) {}]", j).into_bytes(),
        "dict" => format!("<< /K {} /N /x >>", j).into_bytes(),
        "ref" => b"9 0 R".to_vec(),
        "nested" => format!("[[{}] << /A [2 3.5] /B << /C null >> >>]", j).into_bytes(),
        k => panic!("kind {}", k),
    }
}

/// object number of member j (large containers are numbered above the fixed objects of the file)
fn member_id(n: usize, j: usize) -> u64 { if n > 5 { 100 + j as u64 } else { j as u64 } }

pub fn build(case: &Value) -> Vec<u8> {
    let n = case["n"].as_u64().unwrap() as usize;
    let idx = case["idx"].as_u64().unwrap() as usize;
    let kinds: Vec<&str> = case["kinds"].as_array().unwrap().iter().map(|k| k.as_str().unwrap()).collect();
    let trail = case["sep"][n - 1].as_u64().unwrap() == 1;
    let filter = match case["filter"].as_str().unwrap() { "none" => Filter::None, "flate" => Filter::Flate, _ => Filter::HexFlate };
    let hdrsep = match case["hdrsep"].as_str().unwrap() { "sp" => " ", "nl" => "\n", "tight" => "tight", _ => "\r\n " };
    let lenstore = case["lenstore"].as_str().unwrap();
    let mut d = Doc::new(b"");
    let mut e: Vec<(u64, XEntry)> = vec![(0, XEntry::Free { next: 0, gen: 65535 })];
    let plain: Vec<Vec<u8>> = (1..=n).map(|j| text_of(kinds[j - 1], j)).collect();
    // every member carries its own separator (sep[j] = 0: the next member follows directly)
    let sepb: &[u8] = if idx % 2 == 0 { b"\n" } else { b" " };
    let members: Vec<(u64, Vec<u8>)> = (1..=n).map(|j| {
        let mut t = plain[j - 1].clone();
        if case["sep"][j - 1].as_u64().unwrap() == 1 { t.extend_from_slice(sepb); }
        (member_id(n, j), t)
    }).collect();
    // direct twin of the target member
    let o = d.obj(8, 0, &plain[idx - 1]);
    e.push((8, XEntry::InUse { off: o, gen: 0 }));
    // a raw integer for the "raw" length storage
    let o = d.obj(7, 0, b"11");
    e.push((7, XEntry::InUse { off: o, gen: 0 }));
    // the stream whose /Length is stored as the case says, and its twin with a direct length
    let len_txt = match lenstore { "raw" => Some("7 0 R".to_string()), "cmp" => Some(format!("{} 0 R", member_id(n, idx))), _ => None };
    let o = d.stream(9, 0, "/S 1", SDATA, len_txt.as_deref(), false);
    e.push((9, XEntry::InUse { off: o, gen: 0 }));
    let o = d.stream(6, 0, "/S 1", SDATA, None, false);
    e.push((6, XEntry::InUse { off: o, gen: 0 }));
    let _ = trail;
    let o = d.objstm(20, &members, filter, hdrsep, b"", false, "");
    e.push((20, XEntry::InUse { off: o, gen: 0 }));
    for j in 1..=n {
        e.push((member_id(n, j), XEntry::Compressed { container: 20, idx: j - 1 }));
    }
    let o = d.obj(21, 0, &catalog_body(22));
    e.push((21, XEntry::InUse { off: o, gen: 0 }));
    let o = d.obj(22, 0, &empty_pages_body());
    e.push((22, XEntry::InUse { off: o, gen: 0 }));
    let size = e.iter().map(|x| x.0).max().unwrap().max(23) + 1;
    d.xref_stream(23, &e, size, [1, 2, 1], "/Root 21 0 R", None, Split::Min, Filter::None);
    d.buf
}

pub fn run(cases_path: &str, report_path: &str, _opts: &[String]) {
    let cases = read_cases(cases_path);
    let mut rep = Report::default();
    for (ci, case) in cases.iter().enumerate() {
        rep.cases += 1;
        let idx = member_id(case["n"].as_u64().unwrap() as usize, case["idx"].as_u64().unwrap() as usize);
        let kind = case["kinds"][case["idx"].as_u64().unwrap() as usize - 1].as_str().unwrap().to_string();
        let lenstore = case["lenstore"].as_str().unwrap().to_string();
        if case["n"].as_u64().unwrap() >= 2 || lenstore != "direct" {
            rep.nontrivial += 1;
        }
        let bytes = build(case);
        for (cached, tolerant) in [(false, false), (true, true)] {
            rep.execs += 1;
            let mut fail = |rep: &mut Report, class: String, extra: Value| {
                let mut d = json!({"case_index": ci, "case": case, "cached": cached, "tolerant": tolerant});
                for (k, v) in extra.as_object().unwrap() { d[k] = v.clone(); }
                rep.fail(&class, d);
            };
            macro_rules! body { ($f:expr) => {{
                let f = $f;
                let r = f.resolver();
                let twin = outcome_prim(guarded(|| r.resolve(PlainRef { id: 8, gen: 0 })));
                let cmp = outcome_prim(guarded(|| r.resolve(PlainRef { id: idx, gen: 0 })));
                if twin["k"] != "ok" {
                    fail(&mut rep, format!("twin-unreadable:{}", kind), json!({"observed": twin}));
                } else if cmp != twin {
                    let class = if cmp["k"] == "panic" { format!("value:panic:{}", kind) } else if cmp["k"] == "err" { format!("value:err:{}", kind) } else { format!("value:differs:{}", kind) };
                    fail(&mut rep, class, json!({"expected": twin, "observed": cmp, "matches_asbuilt": case["mech"] == "err" && cmp["k"] == "err"}));
                }
                // stream data with the /Length stored as the case says vs direct length
                let data = |id: u64| -> Value {
                    match guarded(|| { match r.resolve(PlainRef { id, gen: 0 })? { Primitive::Stream(s) => s.raw_data(&r).map(|d| d.to_vec()), p => Err(pdf::error::PdfError::Other { msg: format!("not a stream: {}", p) }) } }) {
                        Outcome::Done(Ok(d)) => json!({"k": "ok", "data": d}),
                        Outcome::Done(Err(e)) => err_json(&e),
                        Outcome::Panic(p) => panic_json(&p),
                    }
                };
                let want = data(6);
                let got = data(9);
                if want["k"] != "ok" || want["data"] != json!(SDATA.to_vec()) {
                    fail(&mut rep, "stream-twin-unreadable".into(), json!({"observed": want}));
                } else if got != want {
                    fail(&mut rep, format!("length:{}:{}", lenstore, got["k"].as_str().unwrap_or("?")), json!({"expected": "stream-data", "observed": got, "matches_asbuilt": case["mech"] == "err" && got["k"] == "err"}));
                }
            }}}
            if cached {
                match guarded(|| FileOptions::cached().parse_options(if tolerant { ParseOptions::tolerant() } else { ParseOptions::strict() }).load(bytes.clone())) {
                    Outcome::Done(Ok(f)) => body!(f),
                    Outcome::Done(Err(e)) => fail(&mut rep, "load".into(), json!({"observed": err_json(&e)})),
                    Outcome::Panic(p) => fail(&mut rep, format!("load:panic:{}", p.sym), json!({"observed": panic_json(&p)})),
                }
            } else {
                match guarded(|| FileOptions::uncached().parse_options(if tolerant { ParseOptions::tolerant() } else { ParseOptions::strict() }).load(bytes.clone())) {
                    Outcome::Done(Ok(f)) => body!(f),
                    Outcome::Done(Err(e)) => fail(&mut rep, "load".into(), json!({"observed": err_json(&e)})),
                    Outcome::Panic(p) => fail(&mut rep, format!("load:panic:{}", p.sym), json!({"observed": panic_json(&p)})),
                }
            }
        }
        if ci < 2 {
            rep.sample(json!({"case": case}));
        }
    }
    // a wide array: 2100 dictionaries, stored as ordinary objects / as members of one object stream, all named by one array
    // that is loaded as a typed vector (one load per element, two when the element is a member of an object stream)
    {
        let n = 2100u64;
        let wide = |compressed: bool| -> Vec<u8> {
            let mut d = Doc::new(b"");
            let mut e: Vec<(u64, XEntry)> = vec![(0, XEntry::Free { next: 0, gen: 65535 })];
            let o = d.obj(1, 0, &catalog_body(2));
            e.push((1, XEntry::InUse { off: o, gen: 0 }));
            let o = d.obj(2, 0, &empty_pages_body());
            e.push((2, XEntry::InUse { off: o, gen: 0 }));
            let refs: Vec<String> = (0..n).map(|k| format!("{} 0 R", 10 + k)).collect();
            let o = d.obj(3, 0, format!("[{}]", refs.join(" ")).as_bytes());
            e.push((3, XEntry::InUse { off: o, gen: 0 }));
            if compressed {
                let members: Vec<(u64, Vec<u8>)> = (0..n).map(|k| (10 + k, format!("<< /K {} >>", k).into_bytes())).collect();
                let o = d.objstm(4, &members, Filter::Flate, " ", b" ", false, "");
                e.push((4, XEntry::InUse { off: o, gen: 0 }));
                for k in 0..n { e.push((10 + k, XEntry::Compressed { container: 4, idx: k as usize })); }
            } else {
                for k in 0..n { let o = d.obj(10 + k, 0, format!("<< /K {} >>", k).as_bytes()); e.push((10 + k, XEntry::InUse { off: o, gen: 0 })); }
            }
            d.xref_stream(5, &e, 10 + n, [1, 3, 2], "/Root 1 0 R", None, Split::Min, Filter::Flate);
            d.buf
        };
        let load = |bytes: Vec<u8>, cached: bool| -> String {
            let go = |r: &dyn Fn() -> pdf::error::Result<usize>| match guarded(r) { Outcome::Done(Ok(n)) => format!("ok:{}", n), Outcome::Done(Err(e)) => format!("err:{}", err_json(&e)), Outcome::Panic(p) => format!("panic:{}", p.sym) };
            if cached {
                go(&|| { let f = FileOptions::cached().load(bytes.clone())?; let r = f.resolver(); Ok(r.get::<Vec<pdf::object::MaybeRef<pdf::primitive::Dictionary>>>(pdf::object::Ref::from_id(3))?.len()) })
            } else {
                go(&|| { let f = FileOptions::uncached().load(bytes.clone())?; let r = f.resolver(); Ok(r.get::<Vec<pdf::object::MaybeRef<pdf::primitive::Dictionary>>>(pdf::object::Ref::from_id(3))?.len()) })
            }
        };
        for cached in [false, true] {
            rep.execs += 2;
            let (a, b) = (load(wide(false), cached), load(wide(true), cached));
            if a != format!("ok:{}", n) || a != b {
                rep.fail("wide-array", json!({"case": {"wide_array": n, "cached": cached}, "ordinary": a, "compressed": b}));
            }
        }
    }
    rep.write(report_path);
}
