//! C19 – Engine A: /W arrays (spec/Widths.tla) and character maps (spec/CMap.tla) emitted by TLC are
//! realised as font dictionaries / cmap texts; Font::widths(..).get(code) and Font::to_unicode are
//! compared with the spec's expectation.

use crate::mkpdf::*;
use crate::observe::*;
use crate::report::*;
use pdf::file::FileOptions;
use pdf::font::{write_cmap, Font, ToUnicodeMap};
use pdf::object::{Object, PlainRef, Resolve};
use serde_json::{json, Value};

fn load_font(bytes: &[u8], id: u64) -> Result<(Font, pdf::file::File<Vec<u8>, pdf::file::NoCache, pdf::file::NoCache, pdf::file::NoLog>), String> {
    match guarded(|| {
        let f = FileOptions::uncached().load(bytes.to_vec())?;
        let font = {
            let r = f.resolver();
            let p = r.resolve(PlainRef { id, gen: 0 })?;
            Font::from_primitive(p, &r)?
        };
        Ok::<_, pdf::error::PdfError>((font, f))
    }) {
        Outcome::Done(Ok(x)) => Ok(x),
        Outcome::Done(Err(e)) => Err(format!("{}", err_json(&e))),
        Outcome::Panic(p) => Err(format!("{}", panic_json(&p))),
    }
}

fn doc_with(objs: &[(u64, Vec<u8>)], streams: &[(u64, Vec<u8>)]) -> Vec<u8> {
    let mut d = Doc::new(b"");
    let mut e: Vec<(u64, XEntry)> = vec![(0, XEntry::Free { next: 0, gen: 65535 })];
    let mut max = 0;
    for (id, body) in objs {
        let o = d.obj(*id, 0, body);
        e.push((*id, XEntry::InUse { off: o, gen: 0 }));
        max = max.max(*id);
    }
    for (id, data) in streams {
        let o = d.stream(*id, 0, "", data, None, false);
        e.push((*id, XEntry::InUse { off: o, gen: 0 }));
        max = max.max(*id);
    }
    let cat = max + 1;
    let o = d.obj(cat, 0, &catalog_body(cat + 1));
    e.push((cat, XEntry::InUse { off: o, gen: 0 }));
    let o = d.obj(cat + 1, 0, &empty_pages_body());
    e.push((cat + 1, XEntry::InUse { off: o, gen: 0 }));
    d.xref_table(&e, cat + 2, &format!("/Root {} 0 R", cat), None, Split::Min);
    d.buf
}

// ---------------------------------------------------------------- widths

pub fn run_widths(cases_path: &str, report_path: &str, opts: &[String]) {
    let cases = read_cases(cases_path);
    let all = opts.iter().any(|o| o == "--all-variants");
    let mut rep = Report::default();
    for (ci, case) in cases.iter().enumerate() {
        rep.cases += 1;
        let arr = case["arr"].as_array().unwrap();
        let ideal: Vec<f64> = case["ideal"].as_array().unwrap().iter().map(|x| x.as_f64().unwrap()).collect();
        let mech: Vec<f64> = case["mech"].as_array().unwrap().iter().map(|x| x.as_f64().unwrap()).collect();
        let dflt = case["dflt"].as_f64().unwrap();
        if arr.len() >= 2 {
            rep.nontrivial += 1;
        }
        // the last offset puts the model's highest code on the highest CID, 65535
        let top = 65535 - (ideal.len() as u64 - 3);
        let offsets: Vec<u64> = if all { vec![0, 300, 65520, top] } else { vec![[0u64, 300, 65520, top][ci % 4]] };
        for off in offsets {
            for by_ref in [false, true] {
                if by_ref && !all && ci % 2 == 0 {
                    continue;
                }
                // the /W array; list groups optionally as a reference to an array object
                let mut w = String::new();
                let mut extra: Vec<(u64, Vec<u8>)> = Vec::new();
                for (gi, g) in arr.iter().enumerate() {
                    let c = g["c"].as_u64().unwrap() + off;
                    if g["k"] == "list" {
                        let ws: Vec<String> = g["ws"].as_array().unwrap().iter().map(|x| x.to_string()).collect();
                        if by_ref {
                            let id = 10 + gi as u64;
                            extra.push((id, format!("[{}]", ws.join(" ")).into_bytes()));
                            w += &format!("{} {} 0 R ", c, id);
                        } else if ci % 5 == 3 {
                            // the first width of the list as a reference to a number
                            let id = 20 + gi as u64;
                            extra.push((id, ws[0].clone().into_bytes()));
                            w += &format!("{} [{} 0 R {}] ", c, id, ws[1..].join(" "));
                        } else {
                            w += &format!("{} [{}] ", c, ws.join(" "));
                        }
                    } else if ci % 5 == 4 && !by_ref {
                        // the width of the range as a reference to a number
                        let id = 30 + gi as u64;
                        extra.push((id, g["w"].to_string().into_bytes()));
                        w += &format!("{} {} {} 0 R ", c, g["d"].as_u64().unwrap() + off, id);
                    } else {
                        w += &format!("{} {} {} ", c, g["d"].as_u64().unwrap() + off, g["w"]);
                    }
                }
                let mut objs = vec![
                    (1u64, b"<< /Type /Font /Subtype /Type0 /BaseFont /F /Encoding /Identity-H /DescendantFonts [2 0 R] >>".to_vec()),
                    (2, format!("<< /Type /Font /Subtype /CIDFontType2 /BaseFont /F /CIDSystemInfo << /Registry (Adobe) /Ordering (Identity) /Supplement 0 >> /FontDescriptor 3 0 R /DW {} /W [{}] >>", dflt, w.trim_end()).into_bytes()),
                    (3, b"<< /Type /FontDescriptor /FontName /F /Flags 4 /FontBBox [0 0 1000 1000] /ItalicAngle 0 >>".to_vec()),
                ];
                objs.extend(extra);
                let bytes = doc_with(&objs, &[]);
                for fid in [1u64, 2] {
                    rep.execs += 1;
                    let fail = |rep: &mut Report, class: &str, extra: Value| {
                        let mut d = json!({"case_index": ci, "case": case, "offset": off, "by_ref": by_ref, "font_object": fid});
                        for (k, v) in extra.as_object().unwrap() { d[k] = v.clone(); }
                        rep.fail(class, d);
                    };
                    match load_font(&bytes, fid) {
                        Err(e) => fail(&mut rep, "widths:load", json!({"observed": e})),
                        Ok((font, f)) => {
                            let r = f.resolver();
                            match guarded(|| font.widths(&r)) {
                                Outcome::Done(Ok(Some(wt))) => {
                                    let mut obs = Vec::new();
                                    for c in 0..ideal.len() {
                                        obs.push(wt.get(c + off as usize) as f64);
                                    }
                                    // codes below the offset and far above read the default
                                    let lo_ok = off == 0 || (wt.get(off as usize - 1) as f64 == dflt && wt.get(0) as f64 == dflt);
                                    let hi_ok = wt.get(off as usize + 500) as f64 == dflt;
                                    if obs != ideal || !lo_ok || !hi_ok {
                                        let asb = obs == mech;
                                        fail(&mut rep, "widths:value", json!({"expected": ideal, "observed": obs, "below_ok": lo_ok, "above_ok": hi_ok, "matches_asbuilt": asb && lo_ok && hi_ok}));
                                    }
                                }
                                Outcome::Done(Ok(None)) => fail(&mut rep, "widths:none", json!({})),
                                Outcome::Done(Err(e)) => fail(&mut rep, "widths:err", json!({"observed": err_json(&e)})),
                                Outcome::Panic(p) => fail(&mut rep, &format!("widths:panic:{}", p.sym), json!({"observed": panic_json(&p)})),
                            }
                        }
                    }
                }
            }
            // simple font: FirstChar / Widths from the first list group
            if let Some(g) = arr.iter().find(|g| g["k"] == "list") {
                let c = g["c"].as_u64().unwrap() + (off % 200);
                let ws: Vec<f64> = g["ws"].as_array().unwrap().iter().map(|x| x.as_f64().unwrap()).collect();
                let txt: Vec<String> = ws.iter().map(|x| x.to_string()).collect();
                // the four kinds of simple font; the width list direct, as a reference, or with one width as a reference to a number
                let subtype = ["/Type1 /BaseFont /Helvetica", "/TrueType /BaseFont /Arial", "/MMType1 /BaseFont /Helvetica_150_300",
                               "/Type3 /FontBBox [0 0 1 1] /FontMatrix [0.001 0 0 0.001 0 0] /CharProcs << >> /Encoding << /Type /Encoding /Differences [] >>"][ci % 4];
                let wtext = match (ci / 4) % 3 {
                    0 => format!("[{}]", txt.join(" ")),
                    1 => "7 0 R".to_string(),
                    _ => format!("[8 0 R {}]", txt[1..].join(" ")),
                };
                let objs = vec![(1u64, format!("<< /Type /Font /Subtype {} /FirstChar {} /LastChar {} /Widths {} >>", subtype, c, c + ws.len() as u64 - 1, wtext).into_bytes()),
                                (7, format!("[{}]", txt.join(" ")).into_bytes()), (8, txt[0].clone().into_bytes())];
                let bytes = doc_with(&objs, &[]);
                rep.execs += 1;
                match load_font(&bytes, 1) {
                    Err(e) => rep.fail("simple:load", json!({"case_index": ci, "case": case, "observed": e})),
                    Ok((font, f)) => {
                        let r = f.resolver();
                        match guarded(|| font.widths(&r)) {
                            Outcome::Done(Ok(Some(wt))) => {
                                let mut ok = true;
                                for (i, w) in ws.iter().enumerate() {
                                    ok &= wt.get(c as usize + i) as f64 == *w;
                                }
                                ok &= wt.get(c as usize + ws.len()) == 0.0 && (c == 0 || wt.get(c as usize - 1) == 0.0);
                                if !ok {
                                    rep.fail("simple:value", json!({"case_index": ci, "case": case, "first": c, "widths": ws}));
                                }
                            }
                            Outcome::Done(other) => rep.fail("simple:none", json!({"case_index": ci, "case": case, "observed": format!("{:?}", other.map(|o| o.is_some()).map_err(|e| err_kind(&e)))})),
                            Outcome::Panic(p) => rep.fail(&format!("simple:panic:{}", p.sym), json!({"case_index": ci, "case": case, "observed": panic_json(&p)})),
                        }
                    }
                }
            }
        }
        if ci < 2 {
            rep.sample(json!({"case": case}));
        }
    }
    rep.write(report_path);
}

// ---------------------------------------------------------------- cmap

fn units(v: &Value) -> Vec<u16> {
    v.as_array().unwrap().iter().map(|x| x.as_u64().unwrap() as u16).collect()
}
fn hex_units(u: &[u16], upper: bool) -> String {
    u.iter().map(|x| if upper { format!("{:04X}", x) } else { format!("{:04x}", x) }).collect()
}
fn code_hex(c: u32, one_byte: bool, upper: bool) -> String {
    match (one_byte, upper) {
        (true, true) => format!("{:02X}", c),
        (true, false) => format!("{:02x}", c),
        (false, true) => format!("{:04X}", c),
        (false, false) => format!("{:04x}", c),
    }
}

/// conformant printer of a ToUnicode CMap (ISO 32000-1 9.10.3, Adobe TN 5014)
fn print_cmap(entries: &[Value], off: u32, one_byte: bool, variant: usize, tshift: u16) -> String {
    // the last unit of every target text is shifted (see run_cmap)
    let units = |v: &Value| -> Vec<u16> { let mut u = units(v); if let Some(l) = u.last_mut() { *l += tshift; } u };
    let upper = variant % 2 == 0;
    let sep = if variant % 3 == 0 { " " } else { "\n" };
    let mut s = String::from("/CIDInit /ProcSet findresource begin\n12 dict begin\nbegincmap\n/CIDSystemInfo << /Registry (Adobe) /Ordering (UCS) /Supplement 0 >> def\n/CMapName /Adobe-Identity-UCS def\n/CMapType 2 def\n");
    s += &format!("1 begincodespacerange\n<{}> <{}>\nendcodespacerange\n", if one_byte { "00" } else { "0000" }, if one_byte { "FF" } else { "FFFF" });
    let mut i = 0;
    while i < entries.len() {
        // maximal run of the same section kind
        let is_char = entries[i]["k"] == "char";
        let mut j = i;
        while j < entries.len() && (entries[j]["k"] == "char") == is_char {
            j += 1;
        }
        s += &format!("{} {}\n", j - i, if is_char { "beginbfchar" } else { "beginbfrange" });
        for e in &entries[i..j] {
            let lo = e["lo"].as_u64().unwrap() as u32 + off;
            let hi = e["hi"].as_u64().unwrap() as u32 + off;
            let us = e["us"].as_array().unwrap();
            match e["k"].as_str().unwrap() {
                "char" => s += &format!("<{}>{}<{}>\n", code_hex(lo, one_byte, upper), sep, hex_units(&units(&us[0]), upper)),
                "rangeS" => s += &format!("<{}>{}<{}>{}<{}>\n", code_hex(lo, one_byte, upper), sep, code_hex(hi, one_byte, upper), sep, hex_units(&units(&us[0]), upper)),
                _ => {
                    let arr: Vec<String> = us.iter().map(|u| format!("<{}>", hex_units(&units(u), upper))).collect();
                    s += &format!("<{}> <{}> [{}]\n", code_hex(lo, one_byte, upper), code_hex(hi, one_byte, upper), arr.join(sep));
                }
            }
        }
        s += if is_char { "endbfchar\n" } else { "endbfrange\n" };
        i = j;
    }
    s += "endcmap\nCMapName currentdict /CMap defineresource pop\nend\nend\n";
    s
}

fn read_back(text: &str) -> Result<ToUnicodeMap, String> {
    let objs = vec![(1u64, b"<< /Type /Font /Subtype /Type1 /BaseFont /Helvetica /ToUnicode 2 0 R >>".to_vec())];
    let bytes = doc_with(&objs, &[(2, text.as_bytes().to_vec())]);
    let (font, f) = load_font(&bytes, 1)?;
    let r = f.resolver();
    match guarded(|| font.to_unicode(&r)) {
        Outcome::Done(Some(Ok(m))) => Ok(m),
        Outcome::Done(Some(Err(e))) => Err(format!("{}", err_json(&e))),
        Outcome::Done(None) => Err("no ToUnicode".into()),
        Outcome::Panic(p) => Err(format!("{}", panic_json(&p))),
    }
}

pub fn run_cmap(cases_path: &str, report_path: &str, opts: &[String]) {
    let cases = read_cases(cases_path);
    let all = opts.iter().any(|o| o == "--all-variants");
    let mut rep = Report::default();
    for (ci, case) in cases.iter().enumerate() {
        rep.cases += 1;
        let ideal0: Vec<Vec<u16>> = case["ideal"].as_array().unwrap().iter().map(units).collect();
        let mech0: Vec<Vec<u16>> = case["mech"].as_array().unwrap().iter().map(units).collect();
        // target shift: the model's texts are small numbers; every second case moves the last unit of all texts so that the
        // largest one ends on the byte 0xFF (a range written in string form increments the last byte up to and including 255)
        let maxu = ideal0.iter().filter_map(|u| u.last().copied()).max().unwrap_or(0);
        // (texts with surrogates or other large units stay as they are)
        let tshift: u16 = if maxu < 0x2000 && (ci % 2 == 1 || opts.iter().any(|o| o == "--all-variants") && ci % 3 == 0) { 0x20FF - maxu } else { 0 };
        let shift = |v: &Vec<Vec<u16>>| -> Vec<Vec<u16>> { v.iter().map(|u| { let mut u = u.clone(); if let Some(l) = u.last_mut() { *l += tshift; } u }).collect() };
        let ideal = shift(&ideal0);
        let mech = shift(&mech0);
        let n = ideal.len() as u32;
        let mode = case["mode"].as_str().unwrap();
        let assigned = ideal.iter().filter(|u| !u.is_empty()).count();
        if assigned >= 2 {
            rep.nontrivial += 1;
        }
        let offs: Vec<u32> = if all { vec![0, 0x1234, 65536 - n] } else { vec![[0u32, 0x1234, 65536 - n][ci % 3]] };
        for off in offs {
            let variants: Vec<(bool, usize)> = if mode == "rt" { vec![(false, 0)] }
                else if off == 0 { if all { vec![(false, 0), (true, 1), (false, 2), (true, 3)] } else { vec![(ci % 2 == 0, ci % 6)] } }
                else { vec![(false, ci % 6)] };
            for (one_byte, variant) in variants {
                rep.execs += 1;
                let text = if mode == "rt" {
                    let m = ToUnicodeMap::create(ideal.iter().enumerate().filter(|(_, u)| !u.is_empty())
                        .map(|(c, u)| ((c as u32 + off) as u16, String::from_utf16(u).unwrap().as_str().into())));
                    match guarded(|| write_cmap(&m)) {
                        Outcome::Done(t) => t,
                        Outcome::Panic(p) => {
                            rep.fail(&format!("cmap:write:panic:{}", p.sym), json!({"case_index": ci, "case": case, "offset": off, "observed": panic_json(&p)}));
                            continue;
                        }
                    }
                } else {
                    print_cmap(case["text"].as_array().unwrap(), off, one_byte, variant, tshift)
                };
                match read_back(&text) {
                    Err(e) => rep.fail(&format!("cmap:{}:read", mode), json!({"case_index": ci, "case": case, "offset": off, "text": text, "observed": e})),
                    Ok(m) => {
                        let obs: Vec<Vec<u16>> = (0..n).map(|c| m.get((c + off) as u16).map(|s| s.encode_utf16().collect()).unwrap_or_default()).collect();
                        if obs != ideal || m.len() != assigned {
                            let asb = obs == mech;
                            rep.fail(&format!("cmap:{}:value", mode), json!({"case_index": ci, "case": case, "offset": off, "one_byte": one_byte, "target_shift": tshift, "text": text,
                                "expected": ideal, "observed": obs, "len": m.len(), "matches_asbuilt": asb}));
                        }
                    }
                }
            }
        }
        if ci < 2 {
            rep.sample(json!({"case": case}));
        }
    }
    rep.write(report_path);
}
