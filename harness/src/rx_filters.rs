//! C05 / C16 – stream filters. Cases come from spec/Filters.tla (hex / ascii85 / run-length automata,
//! predictor rows, chains); encoders are the harness' reference encoders (refcodec.rs). Numeric cores that
//! TLC only samples are swept here against the spec's formulas (Paeth triples, hex pairs, RL headers, ASCII85 groups).

use crate::mkpdf::*;
use crate::observe::*;
use crate::refcodec as rc;
use crate::report::*;
use pdf::enc::{decode, encode, LZWFlateParams, PredictorType, StreamFilter};
use pdf::file::FileOptions;
use pdf::object::{Object, PlainRef, Resolve, Stream};
use rand::{Rng, SeedableRng};
use serde_json::{json, Value};

type R = rand::rngs::StdRng;

fn strs(v: &Value) -> Vec<String> { v.as_array().unwrap().iter().map(|x| x.as_str().unwrap().to_string()).collect() }

fn lib(data: &[u8], f: &StreamFilter) -> Value {
    match guarded(|| decode(data, f)) {
        Outcome::Done(Ok(d)) => json!({"k": "ok", "d": d}),
        Outcome::Done(Err(e)) => err_json(&e),
        Outcome::Panic(p) => panic_json(&p),
    }
}

fn ws(rng: &mut R) -> u8 { [b' ', b'\n', b'\r', b'\t', 12, 0][rng.gen_range(0..6)] }

fn hex_case(rep: &mut Report, ci: usize, case: &Value, rng: &mut R) {
    let syms = strs(&case["input"]);
    let mut data = Vec::new();
    for s in &syms {
        data.push(match s.as_str() { "d4" => b'4', "dA" => if rng.gen() { b'A' } else { b'a' }, "ws" => ws(rng), "eod" => b'>', _ => [b'x', b'G', b'~', b'('][rng.gen_range(0..4)] });
    }
    let got = lib(&data, &StreamFilter::ASCIIHexDecode);
    if case["ideal"] == json!(["err"]) {
        if got["k"] == "panic" { rep.fail("hex:panic", json!({"case_index": ci, "case": case, "data": String::from_utf8_lossy(&data), "observed": got})); }
    } else {
        let want: Vec<u8> = case["ideal"].as_array().unwrap().iter().map(|x| x.as_u64().unwrap() as u8).collect();
        if got != json!({"k": "ok", "d": want}) {
            let odd = syms.iter().take_while(|s| *s != "eod").filter(|s| s.starts_with('d')).count() % 2 == 1;
            rep.fail(if odd { "hex:odd-digit" } else { "hex:value" }, json!({"case_index": ci, "case": case, "data": String::from_utf8_lossy(&data), "expected": want, "observed": got}));
        }
    }
}

fn a85_case(rep: &mut Report, ci: usize, case: &Value, rng: &mut R) {
    let syms = strs(&case["input"]);
    let ideal = &case["ideal"];
    let corrupted = *ideal == json!(["err"]) || syms.iter().skip_while(|s| *s != "eod").skip(1).any(|s| s != "ws");
    // payload per group, then the characters of each group in input order
    let mut payload = Vec::new();
    let mut chars: Vec<u8> = Vec::new();
    if !corrupted {
        for g in strs(ideal) {
            match g.as_str() {
                "zero" => payload.extend_from_slice(&[0; 4]),
                "full" => { let mut b = [0u8; 4]; loop { rng.fill(&mut b); if b != [0; 4] { break; } } payload.extend_from_slice(&b); chars.extend_from_slice(&rc::a85_group(b)); }
                t => { let k = t[4..].parse::<usize>().unwrap(); let mut b = [0u8; 4]; for x in b.iter_mut().take(k - 1) { *x = rng.gen(); } payload.extend_from_slice(&b[..k - 1]); chars.extend_from_slice(&rc::a85_group(b)[..k]); }
            }
        }
    }
    let mut ci_chars = chars.into_iter();
    let mut data = Vec::new();
    for s in &syms {
        match s.as_str() {
            "dig" => data.push(if corrupted { b'!' + rng.gen_range(0..85) } else { ci_chars.next().unwrap() }),
            "z" => data.push(b'z'), "ws" => data.push([b' ', b'\n', b'\r', b'\t'][rng.gen_range(0..4)]), "eod" => data.extend_from_slice(b"~>"),
            _ => data.push([b'v', b'{', 0x7f, 0xff][rng.gen_range(0..4)]),
        }
    }
    let got = lib(&data, &StreamFilter::ASCII85Decode);
    if corrupted {
        if got["k"] == "panic" { rep.fail("a85:panic", json!({"case_index": ci, "case": case, "data": String::from_utf8_lossy(&data), "observed": got})); }
    } else if got != json!({"k": "ok", "d": payload}) {
        rep.fail("a85:value", json!({"case_index": ci, "case": case, "data": String::from_utf8_lossy(&data), "expected": payload, "observed": got}));
    }
}

fn rl_case(rep: &mut Report, ci: usize, case: &Value, rng: &mut R) {
    let mut data = Vec::new();
    let mut want = Vec::new();
    for r in case["input"].as_array().unwrap() {
        let (n, have) = (r["n"].as_u64().unwrap() as usize, r["have"].as_u64().unwrap() as usize);
        match r["h"].as_str().unwrap() {
            "lit" => { data.push(n as u8 - 1); for _ in 0..have { let b: u8 = rng.gen(); data.push(b); want.push(b); } }
            "rep" => { data.push((257 - n) as u8); if have > 0 { let b: u8 = rng.gen(); data.push(b); for _ in 0..n { want.push(b); } } }
            _ => { data.push(128); break; }
        }
    }
    let got = lib(&data, &StreamFilter::RunLengthDecode);
    if case["ideal"] == json!(["err"]) {
        if got["k"] == "panic" { rep.fail("rl:panic", json!({"case_index": ci, "case": case, "data": data, "observed": got})); }
    } else if got != json!({"k": "ok", "d": want}) {
        rep.fail("rl:value", json!({"case_index": ci, "case": case, "data": data, "expected": want, "observed": got}));
    }
}

fn params(pred: i32, colors: i32, bpc: i32, cols: i32, ec: i32) -> LZWFlateParams {
    LZWFlateParams { predictor: pred, n_components: colors, bits_per_component: bpc, columns: cols, early_change: ec }
}

fn pred_case(rep: &mut Report, ci: usize, case: &Value) {
    let row: Vec<u8> = case["input"].as_array().unwrap().iter().map(|x| x.as_u64().unwrap() as u8).collect();
    let prev: Vec<u8> = case["aux"]["prev"].as_array().unwrap().iter().map(|x| x.as_u64().unwrap() as u8).collect();
    let enc_row: Vec<u8> = case["ideal"].as_array().unwrap().iter().map(|x| x.as_u64().unwrap() as u8).collect();
    let tag = case["aux"]["tag"].as_u64().unwrap() as u8;
    let bpp = case["aux"]["bpp"].as_u64().unwrap() as usize;
    // two rows: the first unfiltered (tag 0), the second as the spec's reference encoder wrote it
    let mut filtered = vec![0u8];
    filtered.extend_from_slice(&prev);
    filtered.push(tag);
    filtered.extend_from_slice(&enc_row);
    // the harness' own encoder must agree with the spec's FilterRow (two independent transcriptions)
    let mut raw = prev.clone(); raw.extend_from_slice(&row);
    if rc::png_filter(&raw, row.len(), bpp, &[0, tag]) != filtered {
        rep.notes.push(format!("TOOL: harness PNG encoder disagrees with the spec's FilterRow on case {}", ci));
    }
    let want = raw;
    let cols = (row.len() / bpp) as i32;
    for (name, data) in [("zlib", rc::zlib(&filtered)), ("raw", rc::raw_deflate(&filtered))] {
        let got = lib(&data, &StreamFilter::FlateDecode(params(10 + tag as i32, bpp as i32, 8, cols, 1)));
        if got != json!({"k": "ok", "d": want}) {
            rep.fail(&format!("pred:png{}:{}", tag, name), json!({"case_index": ci, "case": case, "expected": want, "observed": got}));
        }
    }
}

fn chain_case(rep: &mut Report, ci: usize, case: &Value, rng: &mut R) {
    let chain = strs(&case["input"]);
    let parms = strs(&case["aux"]);
    let payload: Vec<u8> = (0..24).map(|i| if i % 5 == 0 { 0 } else { rng.gen() }).collect();
    // encode innermost (last filter) first
    let mut data = payload.clone();
    let mut names = Vec::new();
    let mut pdicts = Vec::new();
    for (f, p) in chain.iter().zip(parms.iter()).rev() {
        let (enc, name, pd): (Vec<u8>, &str, String) = match (f.as_str(), p.as_str()) {
            ("Hex", _) => (rc::hex_encode(&data), "ASCIIHexDecode", "null".into()),
            ("A85", _) => (rc::a85_encode(&data), "ASCII85Decode", "null".into()),
            ("RL", _) => (rc::rl_encode(&data), "RunLengthDecode", "null".into()),
            ("Flate", "p1") if data.len() % 4 == 0 => (rc::zlib(&rc::png_filter(&data, 4, 1, &[4, 1, 2, 3, 0])), "FlateDecode", "<< /Predictor 15 /Columns 4 >>".into()),
            ("Flate", "p2") => (rc::raw_deflate(&data), "FlateDecode", "<< /Predictor 1 >>".into()),
            ("Flate", _) => (rc::zlib(&data), "FlateDecode", "null".into()),
            ("LZW", "p1") => (rc::lzw_encode(&data, false), "LZWDecode", "<< /EarlyChange 0 >>".into()),
            ("LZW", "p2") => (rc::lzw_encode(&data, true), "LZWDecode", "<< /EarlyChange 1 >>".into()),
            (_, _) => (rc::lzw_encode(&data, true), "LZWDecode", "null".into()),
        };
        data = enc;
        names.push(name.to_string());
        pdicts.push(pd);
    }
    names.reverse(); pdicts.reverse();
    // as a stream object whose dictionary names the chain; single filter also in the non-array form
    let forms: Vec<(String, String)> = if names.len() == 1 {
        vec![(format!("/{}", names[0]), pdicts[0].clone()), (format!("[/{}]", names[0]), format!("[{}]", pdicts[0]))]
    } else {
        vec![(format!("[{}]", names.iter().map(|n| format!("/{}", n)).collect::<Vec<_>>().join(" ")), format!("[{}]", pdicts.join(" ")))]
    };
    for (fi, (filt, dp)) in forms.iter().enumerate() {
        let omit_parms = pdicts.iter().all(|p| p == "null") && fi == 0;
        let dict = if omit_parms { format!("/Filter {}", filt) } else { format!("/Filter {} /DecodeParms {}", filt, dp) };
        let mut d = Doc::new(b"");
        let mut e: Vec<(u64, XEntry)> = vec![(0, XEntry::Free { next: 0, gen: 65535 })];
        let o = d.stream(1, 0, &dict, &data, None, false);
        e.push((1, XEntry::InUse { off: o, gen: 0 }));
        let o = d.obj(2, 0, &catalog_body(3)); e.push((2, XEntry::InUse { off: o, gen: 0 }));
        let o = d.obj(3, 0, &empty_pages_body()); e.push((3, XEntry::InUse { off: o, gen: 0 }));
        d.xref_table(&e, 4, "/Root 2 0 R", None, Split::Min);
        let bytes = d.buf;
        let got = match guarded(|| -> pdf::error::Result<Vec<u8>> {
            let f = FileOptions::cached().load(bytes)?;
            let r = f.resolver();
            let s = Stream::<()>::from_primitive(r.resolve(PlainRef { id: 1, gen: 0 })?, &r)?;
            Ok(s.data(&r)?.to_vec())
        }) {
            Outcome::Done(Ok(d)) => json!({"k": "ok", "d": d}),
            Outcome::Done(Err(e)) => err_json(&e),
            Outcome::Panic(p) => panic_json(&p),
        };
        if got != json!({"k": "ok", "d": payload}) {
            rep.fail(&format!("chain:{}", chain.join("+")), json!({"case_index": ci, "case": case, "dict": dict, "expected": payload, "observed": got}));
        }
    }
}

/// parameter combinations the statement lists (fixed cases, one class each)
fn param_cases(rep: &mut Report, rng: &mut R) {
    let payload: Vec<u8> = (0..48).map(|_| rng.gen()).collect();
    let mut check = |rep: &mut Report, class: &str, data: Vec<u8>, f: StreamFilter, want: &[u8]| {
        rep.execs += 1;
        let got = lib(&data, &f);
        if got != json!({"k": "ok", "d": want}) {
            let mut g = got.clone();
            if let Some(d) = g.get_mut("d") { if d.as_array().map(|a| a.len() > 16).unwrap_or(false) { *d = json!(format!("{} bytes", d.as_array().unwrap().len())); } }
            rep.fail(class, json!({"params": format!("{:?}", f), "observed": g, "case": {"part": "params", "class": class}}));
        }
    };
    // PNG predictors with several colours / columns, all tags cycling
    for (colors, cols) in [(1usize, 8usize), (3, 4), (4, 3), (2, 6)] {
        let rowlen = colors * cols;
        let d = &payload[..rowlen * 4];
        check(rep, "params:flate:png", rc::zlib(&rc::png_filter(d, rowlen, colors, &[4, 3, 2, 1, 0])), StreamFilter::FlateDecode(params(15, colors as i32, 8, cols as i32, 1)), d);
        check(rep, "params:lzw:png", rc::lzw_encode(&rc::png_filter(d, rowlen, colors, &[4, 3, 2, 1, 0]), true), StreamFilter::LZWDecode(params(15, colors as i32, 8, cols as i32, 1)), d);
        check(rep, "params:flate:tiff2", rc::zlib(&rc::tiff_filter(d, rowlen, colors)), StreamFilter::FlateDecode(params(2, colors as i32, 8, cols as i32, 1)), d);
        check(rep, "params:lzw:tiff2", rc::lzw_encode(&rc::tiff_filter(d, rowlen, colors), false), StreamFilter::LZWDecode(params(2, colors as i32, 8, cols as i32, 0)), d);
    }
    // bits per component 4: two samples per byte, one colour, 6 columns -> rows of 3 bytes, bpp = 1
    let d = &payload[..12];
    check(rep, "params:flate:png-bpc4", rc::zlib(&rc::png_filter(d, 3, 1, &[1, 2, 4, 3])), StreamFilter::FlateDecode(params(15, 1, 4, 6, 1)), d);
    // bits per component 16, one colour, 2 columns -> rows of 4 bytes, bpp = 2
    let d = &payload[..16];
    check(rep, "params:flate:png-bpc16", rc::zlib(&rc::png_filter(d, 4, 2, &[1, 4, 3, 2])), StreamFilter::FlateDecode(params(15, 1, 16, 2, 1)), d);
    // several components of fewer than 8 bits share bytes: a row has ceil(columns*colors*bits/8) bytes, the "left" sample of the PNG
    // filters is ceil(colors*bits/8) bytes back (PNG specification: bytes per complete pixel, rounding up to one)
    for (colors, bits, cols) in [(2usize, 4usize, 5usize), (3, 4, 3), (4, 4, 4), (3, 1, 11), (4, 2, 6), (3, 2, 5), (2, 1, 9), (2, 16, 2), (3, 16, 1)] {
        let rowlen = (cols * colors * bits + 7) / 8;
        let bpp = (colors * bits + 7) / 8;
        let d = &payload[..rowlen * 5];
        let class = format!("params:flate:png-bpc{}x{}", bits, colors);
        check(rep, &class, rc::zlib(&rc::png_filter(d, rowlen, bpp, &[1, 3, 4, 2, 0])), StreamFilter::FlateDecode(params(15, colors as i32, bits as i32, cols as i32, 1)), d);
        let class = format!("params:lzw:png-bpc{}x{}", bits, colors);
        check(rep, &class, rc::lzw_encode(&rc::png_filter(d, rowlen, bpp, &[4, 1, 3, 2, 0]), true), StreamFilter::LZWDecode(params(15, colors as i32, bits as i32, cols as i32, 1)), d);
    }
    // TIFF predictor with samples of 1, 2, 4 and 16 bits
    for (colors, bits, cols) in [(1usize, 1usize, 13usize), (3, 1, 5), (1, 2, 7), (3, 2, 5), (1, 4, 5), (3, 4, 3), (4, 4, 2), (1, 16, 3), (3, 16, 2), (2, 8, 5)] {
        let rowlen = (cols * colors * bits + 7) / 8;
        let mut d = payload[..rowlen * 4].to_vec();
        // the unused bits at the end of a row are zero in well-formed data
        let used = cols * colors * bits;
        if used % 8 != 0 { for row in d.chunks_mut(rowlen) { let last = row.len() - 1; row[last] &= 0xffu8 << (8 - used % 8); } }
        let class = format!("params:flate:tiff2-bpc{}x{}", bits, colors);
        check(rep, &class, rc::zlib(&rc::tiff_filter_bits(&d, rowlen, colors, bits, cols * colors)), StreamFilter::FlateDecode(params(2, colors as i32, bits as i32, cols as i32, 1)), &d);
        let class = format!("params:lzw:tiff2-bpc{}x{}", bits, colors);
        check(rep, &class, rc::lzw_encode(&rc::tiff_filter_bits(&d, rowlen, colors, bits, cols * colors), true), StreamFilter::LZWDecode(params(2, colors as i32, bits as i32, cols as i32, 1)), &d);
    }
    // plain codecs
    check(rep, "params:lzw:ec0", rc::lzw_encode(&payload, false), StreamFilter::LZWDecode(params(1, 1, 8, 1, 0)), &payload);
    check(rep, "params:lzw:ec1", rc::lzw_encode(&payload, true), StreamFilter::LZWDecode(params(1, 1, 8, 1, 1)), &payload);
    check(rep, "params:flate:raw", rc::raw_deflate(&payload), StreamFilter::FlateDecode(params(1, 1, 8, 1, 1)), &payload);
    // truncation / corruption: an error or a value, never a panic
    for (name, enc, f) in [("hex", rc::hex_encode(&payload), StreamFilter::ASCIIHexDecode), ("a85", rc::a85_encode(&payload), StreamFilter::ASCII85Decode), ("rl", rc::rl_encode(&payload), StreamFilter::RunLengthDecode),
                           ("flate", rc::zlib(&payload), StreamFilter::FlateDecode(params(1, 1, 8, 1, 1))), ("flate-png", rc::zlib(&rc::png_filter(&payload, 8, 1, &[4, 2])), StreamFilter::FlateDecode(params(15, 1, 8, 8, 1))),
                           ("lzw", rc::lzw_encode(&payload, true), StreamFilter::LZWDecode(params(1, 1, 8, 1, 1)))] {
        for cut in 0..enc.len() {
            rep.execs += 1;
            let mut c = enc[..cut].to_vec();
            if cut % 3 == 1 && !c.is_empty() { let i = rng.gen_range(0..c.len()); c[i] ^= 1 << rng.gen_range(0..8); }
            if let Outcome::Panic(p) = guarded(|| decode(&c, &f)) {
                rep.fail(&format!("corrupt:{}:panic", name), json!({"cut": cut, "observed": panic_json(&p), "case": {"part": "corrupt", "filter": name}}));
            }
        }
    }
}

/// numeric cores against the formulas of the spec (transcribed in refcodec.rs)
fn sweeps(rep: &mut Report, rng: &mut R, thorough: bool) {
    // all (left, up, upper-left) Paeth triples through the library's unfilter
    let mut bad = 0u64;
    for a in 0..=255u8 { for b in 0..=255u8 { for c in 0..=255u8 {
        let prev = [c, b]; let inp = [a, 0]; let mut out = [0u8; 2];
        pdf::enc::unfilter(PredictorType::Paeth, 1, &prev, &inp, &mut out);
        // out[0] = a + paeth(0, c, 0) ; out[1] = paeth(out[0], b, c)
        let left = a.wrapping_add(rc::paeth(0, c as i32, 0) as u8);
        if out[0] != left || out[1] != rc::paeth(left as i32, b as i32, c as i32) as u8 { bad += 1; }
    } } }
    rep.add("sweep_paeth_triples", 1 << 24);
    if bad > 0 { rep.fail("sweep:paeth", json!({"mismatches": bad, "case": {"part": "sweep", "what": "paeth"}})); }
    // all hex digit pairs (upper and lower case)
    let mut bad = 0;
    for v in 0..=255u8 { for s in [format!("{:02X}>", v), format!("{:02x}>", v), format!("{:X} {:x}>", v >> 4, v & 15)] {
        if decode(s.as_bytes(), &StreamFilter::ASCIIHexDecode).ok() != Some(vec![v]) { bad += 1; }
    } }
    rep.add("sweep_hex_pairs", 768);
    if bad > 0 { rep.fail("sweep:hex", json!({"mismatches": bad, "case": {"part": "sweep", "what": "hex"}})); }
    // all run-length headers
    let mut bad = 0;
    for h in 0..=255u8 {
        let mut d = vec![h];
        let want: Vec<u8> = if h < 128 { (0..=h).map(|i| i ^ 0x5a).collect() } else if h == 128 { vec![] } else { vec![0x77; 257 - h as usize] };
        if h < 128 { d.extend_from_slice(&want); } else if h > 128 { d.push(0x77); }
        d.push(128);
        if decode(&d, &StreamFilter::RunLengthDecode).ok() != Some(want) { bad += 1; }
    }
    rep.add("sweep_rl_headers", 256);
    if bad > 0 { rep.fail("sweep:rl", json!({"mismatches": bad, "case": {"part": "sweep", "what": "rl"}})); }
    // ASCII85 groups: boundary words + seeded random words (thorough: 2^24 words)
    let n = if thorough { 1usize << 24 } else { 1 << 18 };
    let mut bad = 0;
    let boundary = [0u32, 1, 84, 85, 85 * 85, 85 * 85 * 85, 52200625 - 1, 52200625, u32::MAX, u32::MAX - 1, 0x00000100, 0xff000000, 0x01000000];
    for i in 0..n + boundary.len() {
        let w: u32 = if i < boundary.len() { boundary[i] } else { rng.gen() };
        let b = w.to_be_bytes();
        let mut enc = if w == 0 { b"z".to_vec() } else { rc::a85_group(b).to_vec() };
        enc.extend_from_slice(b"~>");
        if decode(&enc, &StreamFilter::ASCII85Decode).ok().as_deref() != Some(&b[..]) { bad += 1; }
    }
    rep.add("sweep_a85_words", (n + boundary.len()) as u64);
    if bad > 0 { rep.fail("sweep:a85", json!({"mismatches": bad, "case": {"part": "sweep", "what": "a85"}})); }
    // white-space inside the encoded text: each of the six white-space characters of the PDF syntax, between any two symbols
    // (ISO 32000-1 7.4.2 / 7.4.3: white-space characters are ignored)
    let sample: Vec<u8> = (0..23u8).map(|i| i.wrapping_mul(37) ^ 0xa5).collect();
    for (name, enc, f) in [("hex", rc::hex_encode(&sample), StreamFilter::ASCIIHexDecode), ("a85", rc::a85_encode(&sample), StreamFilter::ASCII85Decode)] {
        for ws in [0u8, 9, 10, 12, 13, 32] {
            let mut bad = 0;
            for pos in 0..enc.len() {
                // not inside the end marker "~>"
                if name == "a85" && pos + 1 == enc.len() { continue; }
                let mut e = enc.clone();
                e.insert(pos, ws);
                if decode(&e, &f).ok().as_deref() != Some(&sample[..]) { bad += 1; }
            }
            rep.add("sweep_whitespace_positions", enc.len() as u64);
            if bad > 0 { rep.fail(&format!("sweep:{}-whitespace-{}", name, ws), json!({"mismatches": bad, "case": {"part": "sweep", "what": format!("{} with white-space byte {}", name, ws)}})); }
        }
    }
    // the group above 2^32 - 1 must be rejected, not wrapped
    if decode(b"s8W-\"~>", &StreamFilter::ASCII85Decode).is_ok() { rep.fail("sweep:a85-overflow", json!({"case": {"part": "sweep", "what": "a85 overflow"}})); }
}

pub fn run(cases_path: &str, report_path: &str, opts: &[String]) {
    let cases = read_cases(cases_path);
    let seed: u64 = opts.iter().find_map(|o| o.strip_prefix("--seed=")).and_then(|s| s.parse().ok()).unwrap_or(1);
    let thorough = opts.iter().any(|o| o == "--all-variants");
    let mut rng = R::seed_from_u64(seed);
    let mut rep = Report::default();
    for (ci, case) in cases.iter().enumerate() {
        rep.cases += 1;
        rep.execs += 1;
        let part = case["part"].as_str().unwrap();
        if case["input"].as_array().map(|a| a.len() >= 2).unwrap_or(false) { rep.nontrivial += 1; }
        match part {
            "hex" => hex_case(&mut rep, ci, case, &mut rng),
            "a85" => a85_case(&mut rep, ci, case, &mut rng),
            "rl" => rl_case(&mut rep, ci, case, &mut rng),
            "pred" => pred_case(&mut rep, ci, case),
            "chain" => chain_case(&mut rep, ci, case, &mut rng),
            p => panic!("part {}", p),
        }
        if ci % 9000 == 5 { rep.sample(json!({"case": case})); }
    }
    param_cases(&mut rep, &mut rng);
    sweeps(&mut rep, &mut rng, thorough);
    rep.write(report_path);
}

// ------------------------------------------------------------------------------------------- C16
pub fn run_encoders(_cases_path: &str, report_path: &str, opts: &[String]) {
    let seed: u64 = opts.iter().find_map(|o| o.strip_prefix("--seed=")).and_then(|s| s.parse().ok()).unwrap_or(1);
    let thorough = opts.iter().any(|o| o == "--all-variants");
    let mut rng = R::seed_from_u64(seed);
    let mut rep = Report::default();
    let filters: Vec<(&str, StreamFilter)> = vec![("hex", StreamFilter::ASCIIHexDecode), ("a85", StreamFilter::ASCII85Decode),
        ("lzw", StreamFilter::LZWDecode(params(1, 1, 8, 1, 0))), ("flate", StreamFilter::FlateDecode(params(1, 1, 8, 1, 1)))];
    let mut inputs: Vec<Vec<u8>> = vec![vec![]];
    for a in 0..=255u8 { inputs.push(vec![a]); }
    for a in 0..=255u8 { for b in 0..=255u8 { inputs.push(vec![a, b]); } }
    if thorough { for a in (0..=255u8).step_by(1) { for b in 0..=255u8 { for c in (0..=255u8).step_by(51) { inputs.push(vec![a, b, c]); } } } }
    else { for _ in 0..4000 { inputs.push(vec![rng.gen(), rng.gen(), rng.gen()]); } }
    for v in [0u8, 1, 0x21, 0x75, 0x7a, 0xff] { for n in (1..=300usize).step_by(if thorough { 1 } else { 7 }) { inputs.push(vec![v; n]); } }            // single-value runs
    let sizes: Vec<usize> = if thorough { vec![3, 4, 5, 7, 8, 9, 255, 256, 4095, 4096, 4097, 65535, 65536] } else { vec![3, 4, 5, 7, 8, 9, 255, 256, 4097, 65536] };
    for n in sizes {
        inputs.push((0..n).map(|_| rng.gen()).collect());                                                        // random
        inputs.push((0..n).map(|i| (i / 7 % 3) as u8).collect());                                                // structured
        inputs.push((0..n).map(|i| if i % 4 == 0 { 0 } else { 0 }).collect());                                   // zeros (z groups)
    }
    for (ii, inp) in inputs.iter().enumerate() {
        rep.cases += 1;
        if inp.len() >= 2 { rep.nontrivial += 1; }
        for (name, f) in &filters {
            if (*name == "lzw" || *name == "flate") && inp.len() == 2 && ii % 64 != 0 && !thorough { continue; }   // the codec-backed encoders get every 64th 2-byte input in the quick tier
            rep.execs += 1;
            let class_len = match inp.len() { 0 => "empty", 1..=3 => "short", 4..=300 => "run", _ => "long" };
            match guarded(|| encode(inp, f)) {
                Outcome::Done(Ok(enc)) => {
                    let back = lib(&enc, f);
                    if back != json!({"k": "ok", "d": inp}) {
                        let mut b = back.clone(); if inp.len() > 32 { b = json!(format!("{}", b).chars().take(200).collect::<String>()); }
                        rep.fail(&format!("encode-decode:{}:{}", name, class_len), json!({"case": {"filter": name, "input_len": inp.len(), "input": if inp.len() <= 32 { json!(inp) } else { json!("long") }}, "encoded_len": enc.len(), "observed": b}));
                    }
                    let refd = match *name { "hex" => rc::hex_decode(&enc), "a85" => rc::a85_decode(&enc), "lzw" => rc::lzw_decode(&enc, false), _ => rc::inflate_zlib(&enc) };
                    if refd.as_deref() != Some(&inp[..]) {
                        rep.fail(&format!("reference-decoder:{}:{}", name, class_len), json!({"case": {"filter": name, "input_len": inp.len(), "input": if inp.len() <= 32 { json!(inp) } else { json!("long") }}, "encoded": if enc.len() <= 64 { json!(String::from_utf8_lossy(&enc)) } else { json!(enc.len()) }, "observed": refd.map(|d| d.len())}));
                    }
                }
                Outcome::Done(Err(_)) => rep.count(&format!("encoder-rejects:{}", name)),     // a filter the encoder does not support is not a violation
                Outcome::Panic(p) => rep.fail(&format!("encode:panic:{}", name), json!({"case": {"filter": name, "input_len": inp.len()}, "observed": panic_json(&p)})),
            }
        }
        if ii == 300 || ii == 70000 { rep.sample(json!({"input": inp})); }
    }
    // the same filters with predictor parameters: the encoder either applies the predictor the decoder will undo, or refuses
    let sample: Vec<u8> = (0..40u8).collect();
    for (name, f) in [("lzw-tiff", StreamFilter::LZWDecode(params(2, 1, 8, 4, 0))), ("flate-tiff", StreamFilter::FlateDecode(params(2, 1, 8, 4, 1))),
                      ("lzw-png", StreamFilter::LZWDecode(params(12, 1, 8, 4, 0))), ("flate-png", StreamFilter::FlateDecode(params(12, 1, 8, 4, 1))),
                      ("flate-png15", StreamFilter::FlateDecode(params(15, 2, 8, 5, 1))), ("flate-undefined-predictor", StreamFilter::FlateDecode(params(5, 1, 8, 4, 1))),
                      ("flate-negative-predictor", StreamFilter::FlateDecode(params(-1, 1, 8, 4, 1))), ("lzw-negative-predictor", StreamFilter::LZWDecode(params(-7, 1, 8, 4, 0))),
                      ("flate-predictor-zero", StreamFilter::FlateDecode(params(0, 1, 8, 4, 1)))] {
        rep.execs += 1;
        match guarded(|| encode(&sample, &f)) {
            Outcome::Done(Ok(enc)) => {
                let back = lib(&enc, &f);
                if back != json!({"k": "ok", "d": sample}) {
                    rep.fail(&format!("encode-decode:{}", name), json!({"case": {"filter": name, "params": format!("{:?}", f)}, "encoded_len": enc.len(), "observed": back}));
                }
            }
            Outcome::Done(Err(_)) => rep.count(&format!("encoder-rejects:{}", name)),
            Outcome::Panic(p) => rep.fail(&format!("encode:panic:{}", name), json!({"case": {"filter": name}, "observed": panic_json(&p)})),
        }
    }
    // filters the encoder does not support must be rejected with an error, not a panic
    for f in [StreamFilter::RunLengthDecode, StreamFilter::LZWDecode(params(1, 1, 8, 1, 1)), StreamFilter::JPXDecode] {
        rep.execs += 1;
        if let Outcome::Panic(p) = guarded(|| encode(b"abc", &f)) { rep.fail("encode:unsupported:panic", json!({"case": {"filter": format!("{:?}", f)}, "observed": panic_json(&p)})); }
    }
    rep.write(report_path);
}
