//! Reference tokenizer / parser for PDF object syntax, written from ISO 32000-1 §7.2–7.3.
//! Independent of the library under test (the concretisation of `RefParse` in spec/Syntax.tla).

#[derive(Clone, Debug, PartialEq)]
pub enum Val {
    Null,
    Bool(bool),
    Int(i64),
    Real(f64),
    Str(Vec<u8>),
    Name(Vec<u8>),
    Arr(Vec<Val>),
    Dict(Vec<(Vec<u8>, Val)>),
    Ref(u64, u64),
}

pub fn is_ws(b: u8) -> bool {
    matches!(b, 0 | 9 | 10 | 12 | 13 | 32)
}
pub fn is_delim(b: u8) -> bool {
    matches!(b, b'(' | b')' | b'<' | b'>' | b'[' | b']' | b'{' | b'}' | b'/' | b'%')
}
pub fn is_regular(b: u8) -> bool {
    !is_ws(b) && !is_delim(b)
}

pub struct P<'a> {
    pub b: &'a [u8],
    pub pos: usize,
}

#[derive(Debug, Clone, PartialEq)]
pub struct PErr(pub String, pub usize);

impl<'a> P<'a> {
    pub fn new(b: &'a [u8]) -> P<'a> {
        P { b, pos: 0 }
    }
    pub fn at(b: &'a [u8], pos: usize) -> P<'a> {
        P { b, pos }
    }
    fn peek(&self) -> Option<u8> {
        self.b.get(self.pos).copied()
    }
    /// white-space and comments (a comment runs to the next CR or LF)
    pub fn skip_ws(&mut self) {
        while let Some(c) = self.peek() {
            if is_ws(c) {
                self.pos += 1;
            } else if c == b'%' {
                while let Some(c) = self.peek() {
                    if c == b'\r' || c == b'\n' {
                        break;
                    }
                    self.pos += 1;
                }
            } else {
                break;
            }
        }
    }
    fn err<T>(&self, m: &str) -> Result<T, PErr> {
        Err(PErr(m.to_string(), self.pos))
    }
    /// a run of regular characters
    fn regular(&mut self) -> &'a [u8] {
        let s = self.pos;
        while let Some(c) = self.peek() {
            if is_regular(c) {
                self.pos += 1;
            } else {
                break;
            }
        }
        &self.b[s..self.pos]
    }
    pub fn keyword(&mut self, kw: &[u8]) -> bool {
        self.skip_ws();
        if self.b[self.pos..].starts_with(kw) && self.b.get(self.pos + kw.len()).map(|c| !is_regular(*c)).unwrap_or(true) {
            self.pos += kw.len();
            true
        } else {
            false
        }
    }
    fn number(tok: &[u8]) -> Option<Val> {
        let s = std::str::from_utf8(tok).ok()?;
        let body = s.strip_prefix('+').or_else(|| s.strip_prefix('-')).unwrap_or(s);
        if body.is_empty() || !body.bytes().all(|c| c.is_ascii_digit() || c == b'.') || body.bytes().filter(|c| *c == b'.').count() > 1 || body == "." {
            return None;
        }
        if body.contains('.') {
            let t = if s.starts_with('+') { &s[1..] } else { s };
            let t = if t.ends_with('.') { format!("{}0", t) } else { t.to_string() };
            let t = t.replacen("-.", "-0.", 1);
            let t = if t.starts_with('.') { format!("0{}", t) } else { t };
            t.parse::<f64>().ok().map(Val::Real)
        } else {
            let t = if s.starts_with('+') { &s[1..] } else { s };
            match t.parse::<i64>() {
                Ok(i) if i >= i32::MIN as i64 && i <= i32::MAX as i64 => Some(Val::Int(i)),
                _ => t.parse::<f64>().ok().map(Val::Real), // beyond the integer range: a real (7.3.3)
            }
        }
    }
    fn name(&mut self) -> Result<Val, PErr> {
        // after '/'
        let raw = self.regular();
        let mut out = Vec::new();
        let mut i = 0;
        while i < raw.len() {
            if raw[i] == b'#' {
                let h = raw.get(i + 1..i + 3).and_then(|x| std::str::from_utf8(x).ok()).and_then(|x| u8::from_str_radix(x, 16).ok());
                match h {
                    Some(v) => {
                        out.push(v);
                        i += 3;
                    }
                    None => return self.err("bad # escape in name"),
                }
            } else {
                out.push(raw[i]);
                i += 1;
            }
        }
        Ok(Val::Name(out))
    }
    fn literal_string(&mut self) -> Result<Val, PErr> {
        // after '('
        let mut out = Vec::new();
        let mut depth = 1;
        loop {
            let c = match self.peek() {
                Some(c) => c,
                None => return self.err("unterminated string"),
            };
            self.pos += 1;
            match c {
                b'(' => {
                    depth += 1;
                    out.push(c);
                }
                b')' => {
                    depth -= 1;
                    if depth == 0 {
                        break;
                    }
                    out.push(c);
                }
                b'\r' => {
                    // an end-of-line marker inside a string denotes LF
                    if self.peek() == Some(b'\n') {
                        self.pos += 1;
                    }
                    out.push(b'\n');
                }
                b'\\' => {
                    let e = match self.peek() {
                        Some(e) => e,
                        None => return self.err("unterminated string"),
                    };
                    self.pos += 1;
                    match e {
                        b'n' => out.push(b'\n'),
                        b'r' => out.push(b'\r'),
                        b't' => out.push(b'\t'),
                        b'b' => out.push(8),
                        b'f' => out.push(12),
                        b'(' | b')' | b'\\' => out.push(e),
                        b'\r' => {
                            if self.peek() == Some(b'\n') {
                                self.pos += 1;
                            }
                        }
                        b'\n' => {}
                        b'0'..=b'7' => {
                            let mut v = (e - b'0') as u32;
                            for _ in 0..2 {
                                match self.peek() {
                                    Some(d @ b'0'..=b'7') => {
                                        v = v * 8 + (d - b'0') as u32;
                                        self.pos += 1;
                                    }
                                    _ => break,
                                }
                            }
                            out.push((v & 0xff) as u8); // high-order overflow is ignored
                        }
                        other => out.push(other), // the backslash is ignored
                    }
                }
                _ => out.push(c),
            }
        }
        Ok(Val::Str(out))
    }
    fn hex_string(&mut self) -> Result<Val, PErr> {
        // after '<'
        let mut nib = Vec::new();
        loop {
            let c = match self.peek() {
                Some(c) => c,
                None => return self.err("unterminated hex string"),
            };
            self.pos += 1;
            if c == b'>' {
                break;
            }
            if is_ws(c) {
                continue;
            }
            match (c as char).to_digit(16) {
                Some(d) => nib.push(d as u8),
                None => return self.err("bad hex digit"),
            }
        }
        if nib.len() % 2 == 1 {
            nib.push(0);
        }
        Ok(Val::Str(nib.chunks(2).map(|p| p[0] << 4 | p[1]).collect()))
    }

    /// one object; integers followed by `g R` become references
    pub fn value(&mut self, depth: usize) -> Result<Val, PErr> {
        if depth > 64 {
            return self.err("nesting too deep");
        }
        self.skip_ws();
        let c = match self.peek() {
            Some(c) => c,
            None => return self.err("end of input"),
        };
        match c {
            b'/' => {
                self.pos += 1;
                self.name()
            }
            b'(' => {
                self.pos += 1;
                self.literal_string()
            }
            b'<' if self.b.get(self.pos + 1) == Some(&b'<') => {
                self.pos += 2;
                let mut d = Vec::new();
                loop {
                    self.skip_ws();
                    if self.b[self.pos..].starts_with(b">>") {
                        self.pos += 2;
                        break;
                    }
                    if self.peek() != Some(b'/') {
                        return self.err("dictionary key expected");
                    }
                    self.pos += 1;
                    let k = match self.name()? {
                        Val::Name(n) => n,
                        _ => unreachable!(),
                    };
                    let v = self.value(depth + 1)?;
                    d.retain(|(kk, _): &(Vec<u8>, Val)| *kk != k);
                    d.push((k, v));
                }
                Ok(Val::Dict(d))
            }
            b'<' => {
                self.pos += 1;
                self.hex_string()
            }
            b'[' => {
                self.pos += 1;
                let mut a = Vec::new();
                loop {
                    self.skip_ws();
                    if self.peek() == Some(b']') {
                        self.pos += 1;
                        break;
                    }
                    a.push(self.value(depth + 1)?);
                }
                Ok(Val::Arr(a))
            }
            _ if is_regular(c) => {
                let start = self.pos;
                let tok = self.regular();
                match tok {
                    b"true" => return Ok(Val::Bool(true)),
                    b"false" => return Ok(Val::Bool(false)),
                    b"null" => return Ok(Val::Null),
                    _ => {}
                }
                // object numbers are not limited to the 32-bit integer range
                let as_objnr = if !tok.is_empty() && tok.iter().all(|c| c.is_ascii_digit()) { std::str::from_utf8(tok).ok().and_then(|t| t.parse::<u64>().ok()) } else { None };
                match (as_objnr, Self::number(tok)) {
                    (Some(n), Some(numval)) => {
                        let n = n as i64;
                        // reference look-ahead: <int> <int> R
                        let save = self.pos;
                        self.skip_ws();
                        let t2 = self.regular();
                        if let Some(Val::Int(g)) = Self::number(t2) {
                            if g >= 0 && !t2.starts_with(b"+") && !t2.is_empty() {
                                self.skip_ws();
                                let p3 = self.pos;
                                let t3 = self.regular();
                                if t3 == b"R" {
                                    return Ok(Val::Ref(n as u64, g as u64));
                                }
                                let _ = p3;
                            }
                        }
                        self.pos = save;
                        let _ = n;
                        Ok(numval)
                    }
                    (_, Some(v)) => Ok(v),
                    (_, None) => {
                        self.pos = start;
                        self.err("unknown token")
                    }
                }
            }
            _ => self.err("unexpected delimiter"),
        }
    }
}

impl Val {
    pub fn get<'a>(&'a self, key: &str) -> Option<&'a Val> {
        match self {
            Val::Dict(d) => d.iter().find(|(k, _)| k == key.as_bytes()).map(|(_, v)| v),
            _ => None,
        }
    }
    pub fn as_int(&self) -> Option<i64> {
        match self {
            Val::Int(i) => Some(*i),
            _ => None,
        }
    }
    pub fn refs(&self, out: &mut Vec<(u64, u64)>) {
        match self {
            Val::Ref(n, g) => out.push((*n, *g)),
            Val::Arr(a) => a.iter().for_each(|v| v.refs(out)),
            Val::Dict(d) => d.iter().for_each(|(_, v)| v.refs(out)),
            _ => {}
        }
    }
    /// json in the same shape as observe::prim_json (integers and reals of equal value identified)
    pub fn to_json(&self) -> serde_json::Value {
        use serde_json::json;
        match self {
            Val::Null => json!({"t": "null"}),
            Val::Bool(b) => json!({"t": "bool", "v": b}),
            Val::Int(i) => json!({"t": "num", "v": *i as f64}),
            Val::Real(r) => json!({"t": "num", "v": (*r as f32) as f64}),
            Val::Str(s) => json!({"t": "str", "v": s}),
            Val::Name(n) => json!({"t": "name", "v": String::from_utf8_lossy(n)}),
            Val::Arr(a) => json!({"t": "arr", "v": a.iter().map(|v| v.to_json()).collect::<Vec<_>>()}),
            Val::Dict(d) => {
                let mut m = serde_json::Map::new();
                for (k, v) in d {
                    m.insert(String::from_utf8_lossy(k).to_string(), v.to_json());
                }
                json!({"t": "dict", "v": m})
            }
            Val::Ref(n, g) => json!({"t": "ref", "id": n, "gen": g}),
        }
    }
}
