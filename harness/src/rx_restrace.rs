//! C13 - Engine B: free-running threads load objects of one open document; every critical section of
//! StorageResolver::get (guard push / recursive / pop: the cfg-guarded log points, taken inside the chain mutex) and of
//! the compute-once cache (instrumented TCache with SyncCache's protocol) is recorded. The concatenated runs are
//! validated by TLC against spec/ResolverTrace.tla (each event must be the corresponding action of Resolver.tla from
//! the current state; SequentialAnswers etc. are checked as invariants on the way).

use crate::observe::*;
use crate::rx_resolver::build_direct;
use crate::sched::{self, TCache, TNoCache};
use pdf::file::{FileOptions, NoCache};
use pdf::object::{PagesNode, Ref, Resolve};
use rand::{rngs::StdRng, Rng, SeedableRng};
use serde_json::json;
use std::io::Write;
use std::sync::atomic::Ordering;

fn answer<T>(r: pdf::error::Result<T>) -> String { match r { Ok(_) => "ok".into(), Err(_) => "err".into() } }

fn cyclic(deps: &[Vec<u64>]) -> bool {
    (0..deps.len()).any(|s| { let mut k = s; let mut n = 0; loop { match deps[k].first() { Some(&p) => { k = p as usize - 1; n += 1; if n > deps.len() { return true; } } None => return false } } })
}

/// usage: pdfverif restrace <out.ndjson> <report.json> --seed S --runs N --threads T --keys K --loads L
pub fn run(out_path: &str, report_path: &str, opts: &[String]) {
    let get = |k: &str, d: u64| opts.iter().position(|o| o == k).and_then(|i| opts.get(i + 1)).and_then(|v| v.parse().ok()).unwrap_or(d);
    let (seed, runs, nt, nk, nl) = (get("--seed", 1), get("--runs", 50), get("--threads", 3) as usize, get("--keys", 5) as usize, get("--loads", 6) as usize);
    sched::install();
    install_panic_hook();
    let mut rng = StdRng::seed_from_u64(seed);
    let mut out = std::io::BufWriter::new(std::fs::File::create(out_path).expect("trace file"));
    let (mut events, mut deadlocks, mut cached_runs, mut cyclic_runs, mut blocks) = (0u64, 0u64, 0u64, 0u64, 0u64);
    // the last key is the direct leaf (an ExtGState given by reference in a node's resources, decoded through
    // with_loading); the trace specification is configured with DirectKeys = {nk}
    let nd = nk as u64;
    let nk = nk - 1;
    let direct: Vec<bool> = (0..=nk).map(|i| i == nk).collect();
    for run in 0..runs {
        // every key has at most one eager dependency (its /Parent); chains and cycles
        let mut deps: Vec<Vec<u64>> = (0..nk).map(|_| if rng.gen_bool(0.6) { vec![rng.gen_range(1..=nk as u64)] } else { vec![] }).collect();
        let mut cache_on = rng.gen_bool(0.6);
        let shared = rng.gen_bool(0.5);
        let mut single = false;
        if cache_on && cyclic(&deps) {
            // with the cache on, threads on a dependency cycle can wait for each other (recorded finding, decided by
            // Engine C): such graphs are driven by one thread here (cached errors, recomputation), or made acyclic
            if rng.gen_bool(0.4) { single = true; }
            else { deps = (0..nk).map(|i| if i + 1 < nk && rng.gen_bool(0.7) { vec![i as u64 + 2] } else { vec![] }).collect(); }
        }
        let threads = if single { 1 } else { rng.gen_range(2..=nt) };
        let loads: Vec<Vec<u64>> = (0..nt).map(|t| if t < threads { (0..rng.gen_range(1..=nl)).map(|_| rng.gen_range(1..=nk as u64)).collect() } else { vec![] }).collect();
        if cache_on { cached_runs += 1; }
        if cyclic(&deps) { cyclic_runs += 1; }
        // the direct leaf: after the parent, in about half of the nodes
        for d in deps.iter_mut() { if rng.gen_bool(0.5) { d.push(nd); } }
        deps.push(vec![]);
        let bytes = build_direct(&deps, &direct);
        sched::TRACE.lock().unwrap().clear();
        sched::TRACE_ON.store(true, Ordering::SeqCst);
        let seeds: Vec<u64> = (0..nt).map(|_| rng.gen()).collect();
        let mut dead = false;
        macro_rules! drive { ($f:expr) => {{
            let f = $f;
            let shared_r = f.resolver();
            let results: Vec<Vec<String>> = std::thread::scope(|sc| {
                let hs: Vec<_> = (0..nt).map(|t| {
                    let ls = loads[t].clone();
                    let f = &f; let shared_r = &shared_r; let sd = seeds[t];
                    sc.spawn(move || {
                        sched::set_thread_index(Some(t));
                        sched::seed_thread_rng(sd);
                        let mut res = Vec::new();
                        for k in ls {
                            let a = std::panic::catch_unwind(std::panic::AssertUnwindSafe(|| {
                                if shared { answer(shared_r.get::<PagesNode>(Ref::from_id(k))) } else { let r = f.resolver(); answer(r.get::<PagesNode>(Ref::from_id(k))) }
                            }));
                            match a { Ok(a) => res.push(a), Err(_) => { res.push("panic".into()); break; } }
                        }
                        sched::set_thread_index(None);
                        res
                    })
                }).collect();
                hs.into_iter().map(|h| h.join().unwrap_or_default()).collect()
            });
            results
        }}}
        let results = if cache_on {
            let oc = TCache::new();
            let flag = oc.0.clone();
            let r = drive!(FileOptions::uncached().cache(oc, NoCache).load(bytes.clone()).expect("load"));
            dead = flag.deadlocked.load(Ordering::SeqCst);
            r
        } else {
            drive!(FileOptions::uncached().cache(TNoCache, NoCache).load(bytes.clone()).expect("load"))
        };
        sched::TRACE_ON.store(false, Ordering::SeqCst);
        let evs = std::mem::take(&mut *sched::TRACE.lock().unwrap());
        writeln!(out, "{}", json!({"ev": "config", "run": run, "deps": deps, "loads": loads, "shared": shared, "cacheOn": cache_on, "t": 0, "k": 0, "results": []})).unwrap();
        for (t, site, k) in &evs {
            if site == "c_block" { blocks += 1; }
            writeln!(out, "{}", json!({"ev": site, "t": t + 1, "k": k, "run": run})).unwrap();
        }
        events += evs.len() as u64;
        if dead { deadlocks += 1; }
        writeln!(out, "{}", json!({"ev": if dead { "deadlock" } else { "end" }, "run": run, "t": 0, "k": 0, "results": results})).unwrap();
    }
    out.flush().unwrap();
    std::fs::write(report_path, serde_json::to_vec(&json!({"runs": runs, "events": events, "deadlocks": deadlocks, "cached_runs": cached_runs, "cyclic_runs": cyclic_runs, "blocks": blocks})).unwrap()).unwrap();
}
