//! Projection of library values / errors / panics onto the abstract vocabulary of the specs.

use pdf::error::PdfError;
use pdf::primitive::Primitive;
use serde_json::{json, Value};
use std::cell::RefCell;
use std::panic::{self, AssertUnwindSafe};
use std::sync::Once;

/// root cause below Try / Shared / FromPrimitive wrappers
pub fn root(e: &PdfError) -> &PdfError {
    match e {
        PdfError::Try { source, .. } => root(source),
        PdfError::Shared { source } => root(source),
        PdfError::FromPrimitive { source, .. } => root(source),
        _ => e,
    }
}

/// names of entries mentioned anywhere in the error chain (FromPrimitive.field, MissingEntry.field)
pub fn fields_named(e: &PdfError, out: &mut Vec<String>) {
    match e {
        PdfError::Try { source, .. } => fields_named(source, out),
        PdfError::Shared { source } => fields_named(source, out),
        PdfError::FromPrimitive { source, field, typ } => {
            out.push(field.to_string());
            out.push(typ.to_string());
            fields_named(source, out)
        }
        PdfError::MissingEntry { field, typ } => {
            out.push(field.clone());
            out.push(typ.to_string());
        }
        _ => {}
    }
}

pub fn err_kind(e: &PdfError) -> &'static str {
    match root(e) {
        PdfError::NullRef { .. } | PdfError::UnspecifiedXRefEntry { .. } => "Missing",
        PdfError::FreeObject { .. } => "Free",
        PdfError::Other { msg } if msg.contains("Recursive reference") => "Recursive",
        PdfError::Other { msg } if msg.contains("depth") => "Depth",
        PdfError::MaxDepth => "Depth",
        PdfError::PageOutOfBounds { .. } | PdfError::Bounds { .. } | PdfError::ObjStmOutOfBounds { .. }
        | PdfError::ContentReadPastBoundary | PdfError::PageNotFound { .. } => "Bounds",
        PdfError::InvalidPassword => "Password",
        PdfError::DecryptionFailure => "Decrypt",
        PdfError::UnexpectedPrimitive { .. } | PdfError::WrongDictionaryType { .. } | PdfError::KeyValueMismatch { .. }
        | PdfError::MissingEntry { .. } | PdfError::PrimitiveNotAllowed { .. } | PdfError::UnknownVariant { .. } => "Type",
        PdfError::EOF | PdfError::UnexpectedLexeme { .. } | PdfError::UnknownType { .. } | PdfError::Parse { .. }
        | PdfError::Encoding { .. } | PdfError::HexDecode { .. } | PdfError::NotFound { .. } | PdfError::XRefStreamType { .. } => "Syntax",
        PdfError::Reference => "Reference",
        _ => "Other",
    }
}

pub fn err_json(e: &PdfError) -> Value {
    let mut msg = format!("{}", root(e));
    msg.truncate(200);
    json!({"k": "err", "kind": err_kind(e), "msg": msg})
}

/// structural projection of a primitive; integers and reals of equal value are identified
pub fn prim_json(p: &Primitive) -> Value {
    match p {
        Primitive::Null => json!({"t": "null"}),
        Primitive::Integer(i) => json!({"t": "num", "v": *i as f64}),
        Primitive::Number(n) => json!({"t": "num", "v": *n as f64}),
        Primitive::Boolean(b) => json!({"t": "bool", "v": b}),
        Primitive::String(s) => json!({"t": "str", "v": s.as_bytes().to_vec()}),
        Primitive::Name(n) => json!({"t": "name", "v": n.as_str()}),
        Primitive::Reference(r) => json!({"t": "ref", "id": r.id, "gen": r.gen}),
        Primitive::Array(a) => json!({"t": "arr", "v": a.iter().map(prim_json).collect::<Vec<_>>()}),
        Primitive::Dictionary(d) => {
            let mut m = serde_json::Map::new();
            for (k, v) in d.iter() {
                m.insert(k.as_str().to_string(), prim_json(v));
            }
            json!({"t": "dict", "v": m})
        }
        Primitive::Stream(s) => {
            let mut m = serde_json::Map::new();
            for (k, v) in s.info.iter() {
                m.insert(k.as_str().to_string(), prim_json(v));
            }
            json!({"t": "stream", "v": m})
        }
    }
}

#[derive(Clone, Debug, Default)]
pub struct PanicInfo {
    pub msg: String,
    pub loc: String,
    pub sym: String,
}

thread_local! {
    static LAST_PANIC: RefCell<Option<PanicInfo>> = RefCell::new(None);
}
static HOOK: Once = Once::new();
/// panics caught so far in this process (a later hang is often the consequence of an earlier panic inside a cached load)
pub static PANIC_LOG: std::sync::Mutex<Vec<String>> = std::sync::Mutex::new(Vec::new());

fn normalise(msg: &str) -> String {
    // digits are replaced so that the key does not depend on the particular input
    let mut out = String::new();
    let mut last_digit = false;
    for c in msg.chars() {
        if c.is_ascii_digit() {
            if !last_digit {
                out.push('N');
            }
            last_digit = true;
        } else {
            last_digit = false;
            out.push(c);
        }
    }
    out.truncate(160);
    out
}

pub fn install_panic_hook() {
    HOOK.call_once(|| {
        panic::set_hook(Box::new(|info| {
            let msg = if let Some(s) = info.payload().downcast_ref::<&str>() {
                s.to_string()
            } else if let Some(s) = info.payload().downcast_ref::<String>() {
                s.clone()
            } else {
                "<non-string panic>".to_string()
            };
            let loc = info.location().map(|l| format!("{}:{}", l.file(), l.line())).unwrap_or_default();
            // innermost pdf:: frame
            let bt = std::backtrace::Backtrace::force_capture().to_string();
            let mut sym = String::new();
            for line in bt.lines() {
                let l = line.trim();
                if let Some(pos) = l.find(": ") {
                    let name = &l[pos + 2..];
                    if (name.starts_with("pdf::") || name.starts_with("<pdf::")) && !name.contains("pdfverif") {
                        sym = name.to_string();
                        break;
                    }
                }
            }
            // strip hash suffix / generic noise
            if let Some(p) = sym.rfind("::h") {
                if sym.len() - p == 19 {
                    sym.truncate(p);
                }
            }
            if let Ok(mut l) = PANIC_LOG.lock() { if l.len() < 20 { l.push(format!("{}: {}", sym, normalise(&msg))); } }
            LAST_PANIC.with(|c| *c.borrow_mut() = Some(PanicInfo { msg: normalise(&msg), loc, sym }));
        }));
    });
}

pub enum Outcome<T> {
    Done(T),
    Panic(PanicInfo),
}

/// run `f`, turning a panic of the code under test into data
pub fn guarded<T>(f: impl FnOnce() -> T) -> Outcome<T> {
    install_panic_hook();
    LAST_PANIC.with(|c| *c.borrow_mut() = None);
    match panic::catch_unwind(AssertUnwindSafe(f)) {
        Ok(v) => Outcome::Done(v),
        Err(_) => {
            let info = LAST_PANIC.with(|c| c.borrow_mut().take()).unwrap_or_default();
            Outcome::Panic(info)
        }
    }
}

pub fn panic_json(p: &PanicInfo) -> Value {
    json!({"k": "panic", "msg": p.msg, "sym": p.sym, "loc": p.loc})
}

/// Result<Primitive> -> abstract outcome
pub fn outcome_prim(r: Outcome<pdf::error::Result<Primitive>>) -> Value {
    match r {
        Outcome::Done(Ok(p)) => json!({"k": "ok", "p": prim_json(&p)}),
        Outcome::Done(Err(e)) => err_json(&e),
        Outcome::Panic(p) => panic_json(&p),
    }
}

// ---------------------------------------------------------------------------------------------
/// whole-document observation used by the differential checks (C17): trailer, every object below
/// /Size (streams with their raw data), page list, recovery scan
pub fn snapshot(bytes: &[u8], password: &[u8], with_scan: bool) -> Value {
    use pdf::file::{FileOptions, ScanItem};
    use pdf::object::{PlainRef, Resolve};
    fn h(d: &[u8]) -> String {
        // small stable digest (FNV-1a) + length
        let mut x: u64 = 0xcbf29ce484222325;
        for b in d { x ^= *b as u64; x = x.wrapping_mul(0x100000001b3); }
        format!("{}:{:016x}", d.len(), x)
    }
    let f = match guarded(|| FileOptions::uncached().password(password).load(bytes.to_vec())) {
        Outcome::Done(Ok(f)) => f,
        Outcome::Done(Err(e)) => return json!({"load": err_json(&e)}),
        Outcome::Panic(p) => return json!({"load": panic_json(&p)}),
    };
    let r = f.resolver();
    let size = f.trailer.size.max(0) as u64;
    let mut objs = Vec::new();
    for id in 0..size.min(5000) + 1 {
        let v = match guarded(|| r.resolve(PlainRef { id, gen: 0 })) {
            Outcome::Done(Ok(Primitive::Stream(s))) => {
                let data = match guarded(|| s.raw_data(&r)) {
                    Outcome::Done(Ok(d)) => json!(h(&d)),
                    Outcome::Done(Err(e)) => err_json(&e),
                    Outcome::Panic(p) => panic_json(&p),
                };
                json!({"k": "ok", "p": prim_json(&Primitive::Stream(s)), "data": data})
            }
            other => outcome_prim(other),
        };
        objs.push(v);
    }
    let npages = f.num_pages();
    let mut pages = Vec::new();
    for i in 0..npages.min(200) {
        pages.push(match guarded(|| f.get_page(i)) {
            Outcome::Done(Ok(p)) => json!({"k": "ok", "ref": p.get_ref().get_inner().id}),
            Outcome::Done(Err(e)) => err_json(&e),
            Outcome::Panic(p) => panic_json(&p),
        });
    }
    let mut scan = Vec::new();
    if with_scan {
        match guarded(|| {
            let mut items = Vec::new();
            for it in f.scan().take(20000) {
                items.push(match it {
                    Ok(ScanItem::Object(rf, p)) => {
                        let extra = if let Primitive::Stream(ref s) = p {
                            match s.raw_data(&r) { Ok(d) => json!(h(&d)), Err(e) => err_json(&e) }
                        } else { json!(null) };
                        json!({"obj": rf.id, "gen": rf.gen, "p": prim_json(&p), "data": extra})
                    }
                    Ok(ScanItem::Trailer(d)) => json!({"trailer": prim_json(&Primitive::Dictionary(d))}),
                    Err(e) => { let j = err_json(&e); items.push(j); break; }
                });
            }
            items
        }) {
            Outcome::Done(items) => scan = items,
            Outcome::Panic(p) => scan.push(panic_json(&p)),
        }
    }
    json!({"load": "ok", "size": size, "root": f.trailer.root.get_ref().get_inner().id, "objs": objs, "npages": npages, "pages": pages, "scan": scan,
           "version": f.version().map_err(|e| err_kind(&e).to_string())})
}
