//! C09 – Engine A: call histories emitted by TLC (spec/Store.tla, transition cover + walks) are
//! replayed on a real Storage / File; after every call every known reference is resolved and
//! loaded, after every successful save the bytes are reloaded; all compared with the ghost
//! `Want` of the specification.

use crate::mkpdf::*;
use crate::observe::*;
use crate::report::*;
use pdf::any::AnySync;
use pdf::error::{PdfError, Result};
use pdf::file::{Cache, File, FileOptions, Log, NoCache, NoLog, PromisedRef, Storage, Trailer};
use pdf::object::{Object, ParseOptions, PlainRef, Ref, Resolve, Updater};
use pdf::primitive::{Dictionary, PdfStream, Primitive};
use serde_json::{json, Value};
use std::collections::HashMap;
use std::sync::Arc;

pub const STREAM_DATA: &[u8] = b"BASE-STREAM-DATA-0123456789";
pub const NEW_STREAM_DATA: &[u8] = b"new stream data, written by an update";

/// base file: model ids 1 (raw dict), 2 (compressed dict), 3 (stream); catalog 4, pages 5.
/// layout 0: single revision, xref stream; layout 1: classic table original (object 2 direct,
/// stale value) + xref-stream update that moves object 2 into an object stream.
/// layouts 2, 3: layouts 0, 1 behind a 66 KB comment (every offset needs three bytes); layout 4: layout 0 behind a
/// 16.8 MB comment (four bytes) - the field widths of the cross-reference stream the writer emits depend on them.
pub fn base_file(hdr: usize, layout: usize) -> Vec<u8> {
    let prefix: Vec<u8> = (0..hdr).map(|i| b"junk\n\x00\xff"[i % 7]).collect();
    let mut d = Doc::new(&prefix);
    let filler = match layout { 2 | 3 => 66_000, 4 => 16_800_000, _ => 0 };
    if filler > 0 {
        d.buf.push(b'%');
        d.buf.extend((0..filler).map(|i| b"filler comment "[i % 15]));
        d.buf.push(b'\n');
    }
    if layout == 5 {
        // an encrypted document (RC4 128 bit, empty user password): the base stream's data is ciphertext
        use crate::refcrypt::{variant, Handler};
        const ID0: &[u8] = b"0123456789abcdef";
        let h = Handler::new(variant("R3-RC4-128"), b"", b"ownerpw", -3904, ID0, true);
        let hexs = |d: &[u8]| format!("<{}>", d.iter().map(|b| format!("{:02X}", b)).collect::<String>());
        let mut e: Vec<(u64, XEntry)> = vec![(0, XEntry::Free { next: 0, gen: 65535 })];
        let o = d.obj(1, 0, b"<< /Z 1 >>");
        e.push((1, XEntry::InUse { off: o, gen: 0 }));
        let o = d.obj(2, 0, b"<< /Z 1 >>");
        e.push((2, XEntry::InUse { off: o, gen: 0 }));
        let o = d.stream(3, 0, "/Z 1", &h.encrypt(3, 0, STREAM_DATA), None, false);
        e.push((3, XEntry::InUse { off: o, gen: 0 }));
        let o = d.obj(4, 0, &catalog_body(5));
        e.push((4, XEntry::InUse { off: o, gen: 0 }));
        let o = d.obj(5, 0, &empty_pages_body());
        e.push((5, XEntry::InUse { off: o, gen: 0 }));
        let o = d.obj(6, 0, h.dict().as_bytes());
        e.push((6, XEntry::InUse { off: o, gen: 0 }));
        d.xref_table(&e, 8, &format!("/Root 4 0 R /Encrypt 6 0 R /ID [{} {}]", hexs(ID0), hexs(&ID0.iter().rev().copied().collect::<Vec<u8>>())), None, Split::Min);
        return d.buf;
    }
    let layout = match layout { 2 | 4 => 0, 3 => 1, l => l };
    let mut e: Vec<(u64, XEntry)> = vec![(0, XEntry::Free { next: 0, gen: 65535 })];
    let o = d.obj(1, 0, b"<< /Z 1 >>");
    e.push((1, XEntry::InUse { off: o, gen: 0 }));
    let o = d.stream(3, 0, "/Z 1", STREAM_DATA, None, false);
    e.push((3, XEntry::InUse { off: o, gen: 0 }));
    let o = d.obj(4, 0, &catalog_body(5));
    e.push((4, XEntry::InUse { off: o, gen: 0 }));
    let o = d.obj(5, 0, &empty_pages_body());
    e.push((5, XEntry::InUse { off: o, gen: 0 }));
    if layout == 0 {
        let o = d.objstm(6, &[(2, b"<< /Z 1 >>".to_vec())], Filter::Flate, " ", b"\n", true, "");
        e.push((6, XEntry::InUse { off: o, gen: 0 }));
        e.push((2, XEntry::Compressed { container: 6, idx: 0 }));
        d.xref_stream(7, &e, 8, if filler > 0 { [1, 4, 1] } else { [1, 2, 1] }, "/Root 4 0 R", None, Split::Min, Filter::None);
    } else {
        let o = d.obj(2, 0, b"<< /Stale 1 >>");
        e.push((2, XEntry::InUse { off: o, gen: 0 }));
        let p = d.xref_table(&e, 6, "/Root 4 0 R", None, Split::Min);
        let o = d.objstm(6, &[(2, b"<< /Z 1 >>".to_vec())], Filter::None, " ", b" ", true, "");
        let e2 = vec![(6, XEntry::InUse { off: o, gen: 0 }), (2, XEntry::Compressed { container: 6, idx: 0 })];
        d.xref_stream(7, &e2, 8, [1, 3, 2], "/Root 4 0 R", Some(p), Split::Max, Filter::Flate);
    }
    d.buf
}

/// uniform view of the two front doors
pub trait Store {
    fn create(&mut self, v: Primitive) -> Result<PlainRef>;
    /// create of a value whose primitive form cannot be produced (a stream whose info is not a dictionary)
    fn create_fail(&mut self) -> Result<PlainRef>;
    fn update(&mut self, r: PlainRef, v: Primitive) -> Result<PlainRef>;
    fn promise(&mut self) -> PromisedRef<Primitive>;
    fn fulfil(&mut self, p: PromisedRef<Primitive>, v: Primitive) -> Result<PlainRef>;
    fn resolve(&self, r: PlainRef) -> Result<Primitive>;
    fn get(&self, r: PlainRef) -> Result<Primitive>;
    fn raw(&self, s: &PdfStream) -> Result<Arc<[u8]>>;
    /// decoded data, read the way Stream::data reads it (through the stream cache of the open document)
    fn data(&self, s: &PdfStream) -> Result<Arc<[u8]>>;
    fn save(&mut self) -> Result<Vec<u8>>;
}

pub struct StoreS<OC, SC, L> {
    st: Storage<Vec<u8>, OC, SC, L>,
    trailer: Trailer,
}
impl<OC, SC, L> Store for StoreS<OC, SC, L>
where
    OC: Cache<Result<AnySync, Arc<PdfError>>>,
    SC: Cache<Result<Arc<[u8]>, Arc<PdfError>>>,
    L: Log,
{
    fn create(&mut self, v: Primitive) -> Result<PlainRef> {
        Ok(self.st.create(v)?.get_ref().get_inner())
    }
    fn create_fail(&mut self) -> Result<PlainRef> {
        Ok(self.st.create(pdf::object::Stream::new(5i32, vec![1u8, 2, 3]))?.get_ref().get_inner())
    }
    fn update(&mut self, r: PlainRef, v: Primitive) -> Result<PlainRef> {
        Ok(self.st.update(r, v)?.get_ref().get_inner())
    }
    fn promise(&mut self) -> PromisedRef<Primitive> {
        self.st.promise()
    }
    fn fulfil(&mut self, p: PromisedRef<Primitive>, v: Primitive) -> Result<PlainRef> {
        Ok(self.st.fulfill(p, v)?.get_ref().get_inner())
    }
    fn resolve(&self, r: PlainRef) -> Result<Primitive> {
        self.st.resolver().resolve(r)
    }
    fn get(&self, r: PlainRef) -> Result<Primitive> {
        let x = self.st.resolver().get::<Primitive>(Ref::new(r))?;
        Ok((*x).clone())
    }
    fn raw(&self, s: &PdfStream) -> Result<Arc<[u8]>> {
        s.raw_data(&self.st.resolver())
    }
    fn data(&self, s: &PdfStream) -> Result<Arc<[u8]>> {
        let r = self.st.resolver();
        pdf::object::Stream::<()>::from_stream(s.clone(), &r)?.data(&r)
    }
    fn save(&mut self) -> Result<Vec<u8>> {
        Ok(self.st.save(&mut self.trailer)?.to_vec())
    }
}

pub struct StoreF<OC, SC, L> {
    f: File<Vec<u8>, OC, SC, L>,
    tmp: String,
}
impl<OC, SC, L> Store for StoreF<OC, SC, L>
where
    OC: Cache<Result<AnySync, Arc<PdfError>>>,
    SC: Cache<Result<Arc<[u8]>, Arc<PdfError>>>,
    L: Log,
{
    fn create(&mut self, v: Primitive) -> Result<PlainRef> {
        Ok(self.f.create(v)?.get_ref().get_inner())
    }
    fn create_fail(&mut self) -> Result<PlainRef> {
        Ok(self.f.create(pdf::object::Stream::new(5i32, vec![1u8, 2, 3]))?.get_ref().get_inner())
    }
    fn update(&mut self, r: PlainRef, v: Primitive) -> Result<PlainRef> {
        Ok(self.f.update(r, v)?.get_ref().get_inner())
    }
    fn promise(&mut self) -> PromisedRef<Primitive> {
        self.f.promise()
    }
    fn fulfil(&mut self, p: PromisedRef<Primitive>, v: Primitive) -> Result<PlainRef> {
        Ok(self.f.fulfill(p, v)?.get_ref().get_inner())
    }
    fn resolve(&self, r: PlainRef) -> Result<Primitive> {
        self.f.resolver().resolve(r)
    }
    fn get(&self, r: PlainRef) -> Result<Primitive> {
        let x = self.f.resolver().get::<Primitive>(Ref::new(r))?;
        Ok((*x).clone())
    }
    fn raw(&self, s: &PdfStream) -> Result<Arc<[u8]>> {
        s.raw_data(&self.f.resolver())
    }
    fn data(&self, s: &PdfStream) -> Result<Arc<[u8]>> {
        let r = self.f.resolver();
        pdf::object::Stream::<()>::from_stream(s.clone(), &r)?.data(&r)
    }
    fn save(&mut self) -> Result<Vec<u8>> {
        self.f.save_to(&self.tmp)?;
        Ok(std::fs::read(&self.tmp)?)
    }
}

pub fn open_storage(bytes: Vec<u8>) -> Result<StoreS<NoCache, NoCache, NoLog>> {
    let mut st = Storage::with_cache(bytes, ParseOptions::strict(), NoCache, NoCache, NoLog)?;
    let tr = st.load_storage_and_trailer()?;
    let trailer = Trailer::from_primitive(Primitive::Dictionary(tr), &st.resolver())?;
    Ok(StoreS { st, trailer })
}

pub fn open_store(bytes: Vec<u8>, cached: bool, tmp: &str) -> Result<Box<dyn Store>> {
    if cached {
        let f = FileOptions::cached().load(bytes)?;
        Ok(Box::new(StoreF { f, tmp: tmp.to_string() }))
    } else {
        Ok(Box::new(open_storage(bytes)?))
    }
}

/// model value (set of strings) -> concrete primitive; `bad` = a stream still pointing into the source
pub fn concretise(v: &Value, bad: &Primitive) -> Primitive {
    let ks: Vec<&str> = v.as_array().unwrap().iter().map(|x| x.as_str().unwrap()).collect();
    if ks == ["#I"] {
        return Primitive::Integer(77);
    }
    if ks == ["#BAD"] {
        return bad.clone();
    }
    if ks == ["#T"] {
        let mut info = Dictionary::new();
        info.insert("Z", Primitive::Integer(2));
        return Primitive::Stream(pdf::object::Stream::new(info, NEW_STREAM_DATA.to_vec()).to_pdf_stream(&mut pdf::object::NoUpdate).expect("pending stream"));
    }
    let mut d = Dictionary::new();
    for k in ks {
        assert!(!k.starts_with('#'), "unexpected atom {}", k);
        d.insert(k, Primitive::Integer(match k { "A" => 1, "B" => 2, _ => 3 }));
    }
    Primitive::Dictionary(d)
}

/// concrete primitive -> model value (sorted list of strings)
pub fn abstract_val(s: &dyn Store, r: &Result<Primitive>) -> Value {
    match r {
        Ok(Primitive::Dictionary(d)) => {
            let mut ks: Vec<String> = d.iter().map(|(k, _)| k.as_str().to_string()).collect();
            ks.sort();
            json!(ks)
        }
        Ok(Primitive::Integer(77)) => json!(["#I"]),
        // the stored bytes (read past the stream cache) and the decoded data (read through it) both have to be the stream's own
        Ok(Primitive::Stream(st)) => match guarded(|| s.raw(st).and_then(|raw| s.data(st).map(|dec| (raw, dec)))) {
            Outcome::Done(Ok((d, dec))) if &*d == STREAM_DATA && &*dec == STREAM_DATA && st.info.get("Z").is_some() => json!(["#S"]),
            Outcome::Done(Ok((d, dec))) if &*d == NEW_STREAM_DATA && &*dec == NEW_STREAM_DATA && st.info.get("Z").is_some() => json!(["#T"]),
            Outcome::Done(Ok((d, dec))) => json!(["#STREAM-WRONG-DATA", d.len(), dec.len()]),
            Outcome::Done(Err(e)) => json!(["#STREAM-DATA-ERR", err_kind(&e)]),
            Outcome::Panic(p) => json!(["#PANIC", p.sym, p.msg]),
        },
        Ok(p) => json!(["#OTHER", format!("{}", p)]),
        Err(e) => json!(["#ERR", err_kind(e), format!("{}", root(e)).chars().take(80).collect::<String>()]),
    }
}

/// Mech prediction for id i (written out by the spec only where it differs from the Prop value)
fn mech_val(mech: &Value, ideal: &[Value], i: u64) -> Value {
    match mech.as_array() {
        Some(m) if !m.is_empty() => norm(&m[i as usize - 1]),
        _ => norm(&ideal[i as usize - 1]),
    }
}

/// class of a failure that is exactly what the as-built model (Dev = recorded deviations) predicts
fn asbuilt_class(case: &Value) -> String {
    let devs: Vec<&str> = case["dev"].as_array().map(|a| a.iter().filter_map(|x| x.as_str()).collect()).unwrap_or_default();
    format!("asbuilt:{}", devs.join("+"))
}

fn norm(v: &Value) -> Value {
    // the unserialisable value is a copy of the base stream: both read back as that stream
    if *v == json!(["#BAD"]) {
        json!(["#S"])
    } else {
        v.clone()
    }
}

struct Run<'a> {
    rep: &'a mut Report,
    case: &'a Value,
    ci: usize,
    layout: usize,
}
impl<'a> Run<'a> {
    fn fail(&mut self, class: &str, step: usize, extra: Value) {
        let class = if self.layout == 5 { format!("{}:encrypted-base", class) } else { class.to_string() };
        let class = class.as_str();
        let mut d = json!({"case_index": self.ci, "case": self.case, "layout": self.layout, "step": step});
        for (k, v) in extra.as_object().unwrap() {
            d[k] = v.clone();
        }
        self.rep.fail(class, d);
    }
}

fn observe_all(s: &dyn Store, refs: &HashMap<u64, PlainRef>, ids: &[u64]) -> (Vec<Value>, Vec<Value>) {
    let mut res = Vec::new();
    let mut get = Vec::new();
    for i in ids {
        let r = refs[i];
        res.push(match guarded(|| s.resolve(r)) {
            Outcome::Done(x) => abstract_val(s, &x),
            Outcome::Panic(p) => json!(["#PANIC", p.sym, p.msg]),
        });
        get.push(match guarded(|| s.get(r)) {
            Outcome::Done(x) => abstract_val(s, &x),
            Outcome::Panic(p) => json!(["#PANIC", p.sym, p.msg]),
        });
    }
    (res, get)
}

/// every object number the caller does not hold (catalog, page tree, containers, the cross-reference streams written by
/// save) either reads or is reported absent / free; anything else means a table entry that points at the wrong place
fn writer_objects(run: &mut Run, s: &dyn Store, refs: &HashMap<u64, PlainRef>, promises: &HashMap<u64, PromisedRef<Primitive>>, k: usize, stage: &str) {
    let held: Vec<u64> = refs.values().map(|r| r.id).chain(promises.values().map(|p| p.get_inner().id)).collect();
    let top = held.iter().copied().max().unwrap_or(0).max(8) + 12;
    for id in 1..=top {
        if held.contains(&id) { continue; }
        match guarded(|| s.resolve(PlainRef { id, gen: 0 })) {
            Outcome::Done(Ok(_)) => {}
            Outcome::Done(Err(e)) => {
                let absent = matches!(e, PdfError::FreeObject { .. } | PdfError::NullRef { .. } | PdfError::UnspecifiedXRefEntry { .. })
                    || e.is_missing_object();
                if !absent {
                    run.fail(&format!("writer-object:{}", stage), k, json!({"id": id, "observed": err_json(&e)}));
                    return;
                }
            }
            Outcome::Panic(p) => {
                run.fail(&format!("writer-object:{}:panic:{}", stage, p.sym), k, json!({"id": id, "observed": panic_json(&p)}));
                return;
            }
        }
    }
}

fn op_class(case: &Value, upto: usize, id: u64) -> String {
    // ops applied to this id so far, e.g. "cmp:update,save,update"
    let nb = case["nb"].as_u64().unwrap();
    let kind = if case["baseCmp"].as_array().unwrap().contains(&json!(id)) { "cmp" }
        else if case["baseStm"].as_array().unwrap().contains(&json!(id)) { "stm" }
        else if id <= nb { "raw" } else { "new" };
    let mut ops = Vec::new();
    for st in case["path"].as_array().unwrap().iter().take(upto + 1) {
        let op = st["op"].as_str().unwrap();
        let touches = match op {
            "save" => true,
            "get" => false,
            "create" | "promise" => st["ret"].as_u64() == Some(id),
            _ => st["r"].as_u64() == Some(id),
        };
        if touches {
            let v = st["v"].as_array().map(|a| a.iter().map(|x| x.as_str().unwrap_or("")).collect::<Vec<_>>().join("+")).unwrap_or_default();
            ops.push(if op == "save" { format!("save{}", if st["res"] == "ok" { "" } else { "!" }) } else { format!("{}({})", op, v) });
        }
    }
    format!("{}:{}", kind, ops.join(","))
}

pub fn replay_case(rep: &mut Report, case: &Value, ci: usize, layout: usize, tmp: &str) {
    let hdr = case["hdr"].as_u64().unwrap() as usize;
    let cached = case["cached"].as_bool().unwrap();
    let nb = case["nb"].as_u64().unwrap();
    let base = base_file(hdr, layout);
    let mut run = Run { rep, case, ci, layout };
    let opened = guarded(|| open_store(base.clone(), cached, tmp));
    let mut s = match opened {
        Outcome::Done(Ok(s)) => s,
        Outcome::Done(Err(e)) => {
            run.fail("open", 0, json!({"observed": err_json(&e)}));
            return;
        }
        Outcome::Panic(p) => {
            run.fail("open", 0, json!({"observed": panic_json(&p)}));
            return;
        }
    };
    let bad = match s.resolve(PlainRef { id: 3, gen: 0 }) {
        Ok(p @ Primitive::Stream(_)) => p,
        other => {
            run.fail("open", 0, json!({"observed": format!("base stream unreadable: {:?}", other.map(|_| ()))}));
            return;
        }
    };
    let mut refs: HashMap<u64, PlainRef> = (1..=nb).map(|i| (i, PlainRef { id: i, gen: 0 })).collect();
    let mut promises: HashMap<u64, PromisedRef<Primitive>> = HashMap::new();
    let mut prev_bytes = base.clone();
    let path = case["path"].as_array().unwrap();
    for (k, st) in path.iter().enumerate() {
        run.rep.execs += 1;
        let op = st["op"].as_str().unwrap();
        let r = st["r"].as_u64().unwrap();
        let ret = st["ret"].as_u64().unwrap();
        let mut saved: Option<Vec<u8>> = None;
        let outcome: Outcome<Result<Option<PlainRef>>> = match op {
            "create" => { let v = concretise(&st["v"], &bad); guarded(|| s.create(v).map(Some)) }
            "createfail" => match guarded(|| s.create_fail()) {
                // the call has to fail, with an error value; the document is as before (checked by the observations below)
                Outcome::Done(Err(_)) => Outcome::Done(Ok(None)),
                Outcome::Done(Ok(_)) => Outcome::Done(Err(PdfError::Other { msg: "create of a value without primitive form succeeded".into() })),
                Outcome::Panic(p) => Outcome::Panic(p),
            },
            "update" => { let v = concretise(&st["v"], &bad); let rr = refs[&r]; guarded(|| s.update(rr, v).map(Some)) }
            "promise" => guarded(|| { let p = s.promise(); let i = p.get_inner(); promises.insert(ret, p); Ok(Some(i)) }),
            "fulfil" => { let v = concretise(&st["v"], &bad); let p = promises.remove(&r).expect("promise"); guarded(|| s.fulfil(p, v).map(Some)) }
            "get" => Outcome::Done(Ok(None)),
            "save" => match guarded(|| s.save()) {
                Outcome::Done(Ok(b)) => {
                    // the saved bytes are a well-formed file for an independent reader too (files with junk before the header
                    // are outside the validator's domain)
                    if hdr == 0 {
                        let v = crate::validate::validate(&b);
                        if !v.problems.is_empty() {
                            run.fail("invalid-file:save", k, json!({"problems": v.problems.iter().take(4).collect::<Vec<_>>()}));
                        }
                    }
                    saved = Some(b); Outcome::Done(Ok(None))
                }
                Outcome::Done(Err(e)) => Outcome::Done(Err(e)),
                Outcome::Panic(p) => Outcome::Panic(p),
            },
            _ => panic!("unknown op {}", op),
        };
        match outcome {
            Outcome::Panic(p) => {
                run.fail(&format!("panic:{}:{}", op, p.sym), k, json!({"observed": panic_json(&p)}));
                return;
            }
            Outcome::Done(Err(e)) => {
                if op == "save" && st["res"] == "err" {
                    // expected failure of a save with an unserialisable pending value
                } else {
                    run.fail(&format!("err:{}", op), k, json!({"observed": err_json(&e), "id_class": op_class(case, k, r)}));
                    return;
                }
            }
            Outcome::Done(Ok(Some(newref))) => {
                if op == "update" || op == "fulfil" {
                    // SameRef: the reference handed back is the one passed in
                    let passed = if op == "update" { refs[&r] } else { refs.get(&r).copied().unwrap_or(newref) };
                    if op == "update" && newref != passed {
                        run.fail("sameref", k, json!({"passed": format!("{:?}", passed), "returned": format!("{:?}", newref), "id_class": op_class(case, k, r)}));
                    }
                    if op == "fulfil" && refs.get(&r).map(|x| *x != newref).unwrap_or(false) {
                        run.fail("sameref", k, json!({"passed": format!("{:?}", refs[&r]), "returned": format!("{:?}", newref)}));
                    }
                    // reads continue through the reference the caller holds
                } else {
                    refs.insert(ret, newref);
                }
            }
            Outcome::Done(Ok(None)) => {}
        }
        // ids readable after this step: those whose ideal value is not #NONE
        let ideal = st["ideal"].as_array().unwrap();
        let ids: Vec<u64> = (1..=ideal.len() as u64).filter(|i| ideal[*i as usize - 1] != json!(["#NONE"]) && refs.contains_key(i)).collect();
        let (res, get) = observe_all(&*s, &refs, &ids);
        for (j, i) in ids.iter().enumerate() {
            let want = norm(&ideal[*i as usize - 1]);
            for (what, ob, mech) in [("resolve", &res[j], &st["mres"]), ("get", &get[j], &st["mget"])] {
                if *ob != want {
                    let asb = mech_val(mech, ideal, *i) == *ob;
                    let cls = if asb { asbuilt_class(case) } else { format!("ryw:{}:{}", what, op_class(case, k, *i)) };
                    run.fail(&cls, k,
                        json!({"id": i, "expected": want, "observed": ob, "matches_asbuilt": asb, "cached": cached}));
                }
            }
        }
        if let Some(bytes) = saved {
            if !bytes.starts_with(&prev_bytes) {
                run.fail("prefix", k, json!({"old_len": prev_bytes.len(), "new_len": bytes.len()}));
            }
            prev_bytes = bytes.clone();
            writer_objects(&mut run, &*s, &refs, &promises, k, "open");
            // reload with fresh options, uncached and cached
            for rc in [false, true] {
                match guarded(|| open_store(bytes.clone(), rc, tmp)) {
                    Outcome::Done(Ok(s2)) => {
                        // the writer's own objects (the cross-reference stream of every revision it wrote) are entries of the
                        // table like any other: each number the caller does not hold reads as an object or is absent
                        writer_objects(&mut run, &*s2, &refs, &promises, k, "reload");
                        let (res2, get2) = observe_all(&*s2, &refs, &ids);
                        for (j, i) in ids.iter().enumerate() {
                            let want = norm(&ideal[*i as usize - 1]);
                            for (what, ob) in [("resolve", &res2[j]), ("get", &get2[j])] {
                                if *ob != want {
                                    let asb = mech_val(&st["mdisk"], ideal, *i) == *ob;
                                    let cls = if asb { asbuilt_class(case) } else { format!("reload:{}:{}", what, op_class(case, k, *i)) };
                                    run.fail(&cls, k,
                                        json!({"id": i, "expected": want, "observed": ob, "matches_asbuilt": asb, "reload_cached": rc, "hdr": hdr}));
                                }
                            }
                        }
                    }
                    Outcome::Done(Err(e)) => {
                        run.fail(&format!("reload:open:hdr{}", hdr), k, json!({"observed": err_json(&e), "reload_cached": rc}));
                    }
                    Outcome::Panic(p) => {
                        run.fail(&format!("reload:open:panic:{}", p.sym), k, json!({"observed": panic_json(&p)}));
                    }
                }
            }
        }
    }
}

/// a case is non-trivial if its path contains a write and a later save
pub fn nontrivial(case: &Value) -> bool {
    let path = case["path"].as_array().unwrap();
    let mut wrote = false;
    for st in path {
        match st["op"].as_str().unwrap() {
            "create" | "update" | "fulfil" => wrote = true,
            "save" if wrote => return true,
            _ => {}
        }
    }
    false
}

pub fn run(cases_path: &str, report_path: &str, opts: &[String]) {
    let cases = read_cases(cases_path);
    let both_layouts = opts.iter().any(|o| o == "--both-layouts");
    let mut rep = Report::default();
    let tmp = format!("{}.tmp.{}.pdf", report_path, std::process::id());
    for (ci, case) in cases.iter().enumerate() {
        rep.cases += 1;
        if nontrivial(case) {
            rep.nontrivial += 1;
        }
        // quick: one of the four small layouts per case; thorough: both narrow layouts, one wide one, and the 16.8 MB one now and then
        let mut layouts: Vec<usize> = if both_layouts { vec![0, 1, 2 + ci % 2] } else { vec![ci % 4] };
        if both_layouts && ci % 997 == 0 || !both_layouts && ci % 4999 == 0 {
            layouts.push(4);
        }
        // an encrypted base document for some of the cases
        if ci % 7 == 3 {
            layouts.push(5);
        }
        if let Some(k) = opts.iter().position(|o| o == "--layout") {
            layouts = vec![opts[k + 1].parse().unwrap()];
        }
        for l in layouts {
            replay_case(&mut rep, case, ci, l, &tmp);
        }
        if ci < 2 {
            rep.sample(json!({"case": case}));
        }
    }
    let _ = std::fs::remove_file(&tmp);
    // the document's own view of its page tree (File::num_pages / get_page) after the page tree root was written through
    // the same document: a page object is created, the root (object 5) updated to name it
    for cached in [false, true] {
        rep.execs += 1;
        let probe = |cached: bool| -> std::result::Result<(), String> {
            fn go<OC, SC>(mut f: pdf::file::File<Vec<u8>, OC, SC, pdf::file::NoLog>) -> std::result::Result<(), String>
            where OC: Cache<pdf::error::Result<AnySync, Arc<PdfError>>>, SC: Cache<pdf::error::Result<Arc<[u8]>, Arc<PdfError>>> {
                if f.num_pages() != 0 { return Err(format!("base document reports {} pages", f.num_pages())); }
                let mut page = Dictionary::new();
                page.insert("Type", Primitive::Name("Page".into()));
                page.insert("Parent", Primitive::Reference(PlainRef { id: 5, gen: 0 }));
                let pr = f.create(Primitive::Dictionary(page)).map_err(|e| format!("create: {}", e))?.get_ref().get_inner();
                let mut root = Dictionary::new();
                root.insert("Type", Primitive::Name("Pages".into()));
                root.insert("Kids", Primitive::Array(vec![Primitive::Reference(pr)]));
                root.insert("Count", Primitive::Integer(1));
                f.update(PlainRef { id: 5, gen: 0 }, Primitive::Dictionary(root)).map_err(|e| format!("update: {}", e))?;
                if f.num_pages() != 1 { return Err(format!("after the update of the page tree root num_pages() is {}", f.num_pages())); }
                f.get_page(0).map_err(|e| format!("after the update get_page(0): {}", e))?;
                Ok(())
            }
            let bytes = base_file(0, 0);
            if cached { go(FileOptions::cached().load(bytes).map_err(|e| e.to_string())?) } else { go(FileOptions::uncached().load(bytes).map_err(|e| e.to_string())?) }
        };
        match guarded(|| probe(cached)) {
            Outcome::Done(Ok(())) => {}
            Outcome::Done(Err(e)) => rep.fail("ryw:front-door:pages", json!({"case": {"probe": "page tree root updated", "cached": cached}, "observed": e})),
            Outcome::Panic(p) => rep.fail("panic:front-door:pages", json!({"case": {"probe": "page tree root updated", "cached": cached}, "observed": panic_json(&p)})),
        }
    }
    rep.write(report_path);
}
