//! C20 – a page imported into another document is equal and self-contained. Source graphs come from
//! spec/Import.tla; the page is imported with PageBuilder::clone_page + Importer, the new document is built,
//! reloaded and compared (boxes, rotation, operations, every used resource, closure, single copy).

use crate::mkpdf::*;
use crate::observe::*;
use crate::report::*;
use pdf::build::{CatalogBuilder, Importer, PageBuilder, PdfBuilder};
use pdf::file::FileOptions;
use pdf::object::{PlainRef, Resolve};
use pdf::primitive::Primitive;
use serde_json::{json, Value};

fn ids(v: &Value) -> Vec<u64> { v.as_array().unwrap().iter().map(|x| x.as_u64().unwrap()).collect() }

/// source document: graph object o has id 10+o, `<< /Marker o /Refs [...] >>`; page 3, resources 5
pub fn build_source(case: &Value) -> (Vec<u8>, String) {
    let n = case["n"].as_u64().unwrap();
    let edges = case["edges"].as_array().unwrap();
    let used: Vec<String> = case["used"].as_array().unwrap().iter().map(|x| x.as_str().unwrap().to_string()).collect();
    let res = |c: &str| case["resobj"][c].as_u64().unwrap_or(0);
    let mut d = Doc::new(b"");
    let mut e: Vec<(u64, XEntry)> = vec![(0, XEntry::Free { next: 0, gen: 65535 })];
    let o = d.obj(1, 0, &catalog_body(2));
    e.push((1, XEntry::InUse { off: o, gen: 0 }));
    let o = d.obj(2, 0, b"<< /Type /Pages /Kids [3 0 R] /Count 1 >>");
    e.push((2, XEntry::InUse { off: o, gen: 0 }));
    let roots: Vec<String> = ids(&case["roots"]).iter().map(|r| format!("{} 0 R", 10 + r)).collect();
    let o = d.obj(3, 0, format!("<< /Type /Page /Parent 2 0 R /MediaBox [5 9 321 123] /Rotate 90 /Contents 4 0 R /Resources 5 0 R /Roots [{}] /Note (kept) >>", roots.join(" ")).as_bytes());
    e.push((3, XEntry::InUse { off: o, gen: 0 }));
    let mut content = String::new();
    if used.iter().any(|u| u == "gs") { content += "/GS1 gs "; }
    if used.iter().any(|u| u == "font") { content += "BT /R1 12 Tf (hi) Tj ET "; }
    // two forms: the first refers to object 6 through an entry the typed model does not know (copied as a plain reference), the
    // second through a typed entry of its resources (copied as a typed value) and lists itself among its own XObjects
    if used.iter().any(|u| u == "xobject") { content += "q /R1 Do Q q /R2 Do Q q /R3 Do Q "; }
    if used.iter().any(|u| u == "colorspace") { content += "/CS1 cs 0.5 sc "; }
    content += "1 2 m 3 4 l S";
    let o = d.stream(4, 0, "", content.as_bytes(), None, false);
    e.push((4, XEntry::InUse { off: o, gen: 0 }));
    let mut rs = String::new();
    if res("gs") != 0 { rs += "/ExtGState << /GS1 6 0 R /GSunused << /LW 9 >> >> "; }
    // the font and the XObject deliberately share one name: the categories are separate name spaces
    if res("font") != 0 { rs += &format!("/Font << /R1 {} 0 R >> ", 10 + res("font")); }
    if res("xobject") != 0 { rs += "/XObject << /R1 8 0 R /R2 9 0 R /R3 9003 0 R /Xunused 8 0 R >> "; }
    if res("colorspace") != 0 { rs += "/ColorSpace << /CS1 [/ICCBased 7 0 R] >> "; }
    let o = d.obj(5, 0, format!("<< {} >>", rs).as_bytes());
    e.push((5, XEntry::InUse { off: o, gen: 0 }));
    let o = d.obj(6, 0, b"<< /Type /ExtGState /LW 2.5 >>");
    e.push((6, XEntry::InUse { off: o, gen: 0 }));
    let o = d.stream(7, 0, "/N 1", b"ICC-PROFILE-BYTES", None, false);
    e.push((7, XEntry::InUse { off: o, gen: 0 }));
    // stored encoded: the stored bytes and the decoded bytes differ. Three storage forms, chosen by the shape of the case:
    // one filter; two filters of which the second has parameters (a predictor); two filters with parameters each
    let form_ops: &[u8] = b"0 0 9 9 re f";
    let (fdict, fdata): (&str, Vec<u8>) = match (n + used.len() as u64) % 3 {
        0 => ("/Filter /ASCIIHexDecode", hex(form_ops)),
        1 => ("/Filter [/ASCIIHexDecode /FlateDecode] /DecodeParms [null << /Predictor 12 /Columns 4 >>]",
              hex(&crate::refcodec::zlib(&crate::refcodec::png_filter(form_ops, 4, 1, &[2])))),
        _ => ("/Filter [/FlateDecode /LZWDecode] /DecodeParms [<< /Predictor 12 /Columns 7 >> << /EarlyChange 0 >>]",
              { let l = crate::refcodec::lzw_encode(form_ops, false); let mut padded = l.clone(); while padded.len() % 7 != 0 { padded.push(0); }
                // the LZW text is padded to whole predictor rows; the decoder stops at its end-of-data code
                crate::refcodec::zlib(&crate::refcodec::png_filter(&padded, 7, 1, &[2])) }),
    };
    let o = d.stream(8, 0, &format!("/Type /XObject /Subtype /Form /BBox [0 0 9 9] /OC 6 0 R /Resources << /ExtGState << /GA << /LW 1.5 >> >> >> {}", fdict), &fdata, None, false);
    e.push((8, XEntry::InUse { off: o, gen: 0 }));
    // the second form's resources are an object of their own (9 0 obj), shared with a third form that they list themselves:
    // resources -> form -> the same resources again
    let o = d.stream(9, 0, "/Type /XObject /Subtype /Form /BBox [0 0 9 9] /Resources 9001 0 R", b"0 0 1 1 re f", None, false);
    e.push((9, XEntry::InUse { off: o, gen: 0 }));
    let o = d.obj(9001, 0, b"<< /ExtGState << /GB << /LW 3.5 >> >> /Properties << /MC0 6 0 R >> /XObject << /Self 9 0 R /Other 9002 0 R >> >>");
    e.push((9001, XEntry::InUse { off: o, gen: 0 }));
    // a third form drawn by the page, with a resources dictionary of its own written inline (like the first form's)
    let o = d.stream(9003, 0, "/Type /XObject /Subtype /Form /BBox [0 0 9 9] /Resources << /ExtGState << /GC << /LW 4.5 >> >> >>", b"0 0 3 3 re f", None, false);
    e.push((9003, XEntry::InUse { off: o, gen: 0 }));
    let o = d.stream(9002, 0, "/Type /XObject /Subtype /Form /BBox [0 0 9 9] /Resources 9001 0 R", b"0 0 2 2 re f", None, false);
    e.push((9002, XEntry::InUse { off: o, gen: 0 }));
    for k in 1..=n {
        let refs: Vec<String> = ids(&edges[k as usize - 1]).iter().map(|r| format!("{} 0 R", 10 + r)).collect();
        // every graph object is a loadable font dictionary so that it can sit behind /F1
        let o = d.obj(10 + k, 0, format!("<< /Type /Font /Subtype /Type1 /BaseFont /Helvetica /Marker {} /Refs [{}] >>", k, refs.join(" ")).as_bytes());
        e.push((10 + k, XEntry::InUse { off: o, gen: 0 }));
    }
    d.xref_table(&e, 9004, "/Root 1 0 R", None, Split::Min);
    (d.buf, content)
}

fn import(bytes: &[u8], inspect: bool, cached: bool) -> pdf::error::Result<Vec<u8>> {
    if cached {
        import_from(FileOptions::cached().load(bytes.to_vec())?, inspect)
    } else {
        // without an object cache the source objects live only while they are being copied
        import_from(FileOptions::uncached().load(bytes.to_vec())?, inspect)
    }
}
fn import_from<OC, SC>(src: pdf::file::File<Vec<u8>, OC, SC, pdf::file::NoLog>, inspect: bool) -> pdf::error::Result<Vec<u8>>
where OC: pdf::file::Cache<pdf::error::Result<pdf::any::AnySync, std::sync::Arc<pdf::error::PdfError>>>, SC: pdf::file::Cache<pdf::error::Result<std::sync::Arc<[u8]>, std::sync::Arc<pdf::error::PdfError>>> {
    let page = src.get_page(0)?;
    if inspect {
        // what a viewer does before it copies a page: look at the page's resources, decode their streams
        let r = src.resolver();
        if let Ok(res) = page.resources() {
            for (_, x) in res.xobjects.iter() {
                if let Ok(xo) = r.get(*x) {
                    if let pdf::object::XObject::Form(ref f) = *xo { let _ = f.operations(&r); }
                }
            }
            for (_, f) in res.fonts.iter() { let _ = f.load(&r); }
        }
        if let Some(c) = page.contents.as_ref() { let _ = c.operations(&r); }
    }
    let mut builder = PdfBuilder::new(FileOptions::uncached());
    let pb = {
        let mut importer = Importer::new(src.resolver(), &mut builder.storage);
        PageBuilder::clone_page(&page, &mut importer)?
    };
    builder.build(CatalogBuilder::from_pages(vec![pb]))
}

pub fn run(cases_path: &str, report_path: &str, _opts: &[String]) {
    let cases = read_cases(cases_path);
    let mut rep = Report::default();
    let progress = format!("{}.progress", report_path);
    for (ci, case) in cases.iter().enumerate() {
        std::fs::write(&progress, format!("{}", ci)).ok();
        rep.cases += 1;
        rep.execs += 1;
        let n = case["n"].as_u64().unwrap();
        let used: Vec<String> = case["used"].as_array().unwrap().iter().map(|x| x.as_str().unwrap().to_string()).collect();
        let cyclic = (1..=n).any(|k| ids(&case["edges"][k as usize - 1]).contains(&k)) || case["edges"].as_array().unwrap().iter().map(|e| ids(e).len()).sum::<usize>() >= 2;
        if cyclic || !used.is_empty() { rep.nontrivial += 1; }
        let (bytes, content) = build_source(case);
        let fail = |rep: &mut Report, class: String, extra: Value| {
            let mut d = json!({"case_index": ci, "case": case});
            for (k, v) in extra.as_object().unwrap() { d[k] = v.clone(); }
            rep.fail(&class, d);
        };
        // the import runs on a thread with a generous stack; a runaway recursion still ends the process (observed by bin/check)
        let b2 = bytes.clone();
        let inspect = case["inspected"].as_bool().unwrap_or(false);
        let out = std::thread::Builder::new().stack_size(64 << 20).spawn(move || guarded(|| import(&b2, inspect, ci % 2 == 0))).unwrap().join();
        let new = match out {
            Ok(Outcome::Done(Ok(b))) => b,
            Ok(Outcome::Done(Err(e))) => { rep.count("import-returned-err"); if ci < 3 { rep.notes.push(format!("import err: {}", err_json(&e))); } continue; } // an Err is acceptable
            Ok(Outcome::Panic(p)) => { fail(&mut rep, format!("import:panic:{}", p.sym), json!({"observed": panic_json(&p)})); continue; }
            Err(_) => { fail(&mut rep, "import:thread-died".into(), json!({})); continue; }
        };
        match guarded(|| FileOptions::uncached().load(new.clone())) {
            Outcome::Done(Ok(f)) => {
                let r = f.resolver();
                let size = f.trailer.size.max(0) as u64;
                // closure + single copy: scan every object of the new document
                let mut copies = vec![0u64; n as usize + 1];
                let mut dangling = Vec::new();
                for id in 1..size {
                    if let Ok(p) = r.resolve(PlainRef { id, gen: 0 }) {
                        let mut refs = Vec::new();
                        collect_refs(&p, &mut refs);
                        for rf in refs {
                            if r.resolve(rf).is_err() { dangling.push(format!("{} -> {}", id, rf.id)); }
                        }
                        if let Primitive::Dictionary(d) = &p {
                            if let Some(Primitive::Integer(m)) = d.get("Marker") {
                                if (*m as u64) <= n { copies[*m as usize] += 1; }
                            }
                        }
                    }
                }
                if !dangling.is_empty() {
                    fail(&mut rep, "closure".into(), json!({"dangling": dangling}));
                }
                // the shared resources object of the second and third form (the one with /ExtGState /GB) exists once
                let shared = (1..size).filter(|id| matches!(r.resolve(PlainRef { id: *id, gen: 0 }), Ok(Primitive::Dictionary(d)) if matches!(d.get("ExtGState"), Some(Primitive::Dictionary(g)) if g.get("GB").is_some()))).count();
                if shared > 1 {
                    fail(&mut rep, "single-copy:shared-resources".into(), json!({"copies": shared}));
                }
                let ideal = ids(&case["ideal"]);
                let mech = ids(&case["mech"]);
                let got: Vec<u64> = copies[1..].to_vec();
                if got.iter().any(|c| *c > 1) {
                    fail(&mut rep, "single-copy".into(), json!({"copies": got}));
                }
                if got != ideal {
                    let asb = got == mech;
                    let devs: Vec<&str> = case["dev"].as_array().map(|a| a.iter().filter_map(|x| x.as_str()).collect()).unwrap_or_default();
                    let class = if asb { format!("asbuilt:{}", devs.join("+")) } else if got.iter().zip(&ideal).any(|(g, i)| g < i) { "missing-object".to_string() } else { "extra-object".to_string() };
                    fail(&mut rep, class, json!({"expected_copies": ideal, "observed_copies": got, "matches_asbuilt": asb}));
                }
                // equality of the page
                match guarded(|| f.get_page(0)) {
                    Outcome::Done(Ok(page)) => {
                        let mb = page.media_box().map(|m| (m.left, m.bottom, m.right, m.top)).ok();
                        if mb != Some((5.0, 9.0, 321.0, 123.0)) || page.rotate != 90 || page.other.get("Note").is_none() {
                            fail(&mut rep, "page-attrs".into(), json!({"media": format!("{:?}", mb), "rotate": page.rotate}));
                        }
                        let want_ops = pdf::content::parse_ops(content.as_bytes(), &pdf::object::NoResolve).map(|o| o.iter().map(|x| format!("{:?}", x)).collect::<Vec<_>>()).unwrap_or_default();
                        let got_ops = page.contents.as_ref().map(|c| c.operations(&r).map(|o| o.iter().map(|x| format!("{:?}", x)).collect::<Vec<_>>()).unwrap_or_else(|e| vec![format!("err:{}", err_kind(&e))])).unwrap_or_default();
                        if got_ops != want_ops {
                            fail(&mut rep, "ops".into(), json!({"expected": want_ops, "observed": got_ops}));
                        }
                        let res = page.resources().ok();
                        for u in &used {
                            let ok = match (u.as_str(), &res) {
                                ("gs", Some(rs)) => rs.graphics_states.get("GS1").map(|g| g.line_width == Some(2.5)).unwrap_or(false),
                                ("xobject", Some(rs)) => rs.xobjects.get("R1").map(|x| r.resolve(x.get_inner()).ok().and_then(|p| match p { Primitive::Stream(st) => Some(pdf::object::Stream::<()>::from_stream(st.clone(), &r).and_then(|s| s.data(&r)).map(|d| d.starts_with(b"0 0 9 9 re f") && d[12..].iter().all(|&b| b == 0)).unwrap_or(false)), _ => None }).unwrap_or(false)).unwrap_or(false)
                                    // each form keeps the resources it had in the source (its own inline dictionary)
                                    && [("R1", "GA", 1.5f32), ("R2", "GB", 3.5), ("R3", "GC", 4.5)].iter().all(|(x, g, lw)| rs.xobjects.get(*x).and_then(|x| r.get(*x).ok()).map(|xo| match &*xo {
                                        pdf::object::XObject::Form(f) => f.dict().resources.as_ref().map(|res| res.graphics_states.len() == 1 && res.graphics_states.get(*g).map(|p| p.line_width == Some(*lw)).unwrap_or(false)).unwrap_or(false),
                                        _ => false }).unwrap_or(false)),
                                ("font", Some(rs)) => rs.fonts.get("R1").map(|l| l.load(&r).map(|ft| ft._other.get("Marker") == Some(&Primitive::Integer(case["resobj"]["font"].as_i64().unwrap() as i32))).unwrap_or(false)).unwrap_or(false),
                                ("colorspace", Some(rs)) => rs.color_spaces.contains_key("CS1"),
                                _ => false,
                            };
                            if !ok {
                                let known = case["mech_copied"].as_array().map(|a| !a.iter().any(|x| x == u)).unwrap_or(false);
                                let devs: Vec<&str> = case["dev"].as_array().map(|a| a.iter().filter_map(|x| x.as_str()).collect()).unwrap_or_default();
                                let class = if known { format!("asbuilt:{}", devs.join("+")) } else { format!("resource:{}", u) };
                                fail(&mut rep, class, json!({"resource": u, "matches_asbuilt": known}));
                            }
                        }
                        // unused resources are pruned
                        if let Some(rs) = &res {
                            if rs.graphics_states.contains_key("GSunused") { rep.count("unused-resource-kept"); }
                        }
                    }
                    Outcome::Done(Err(e)) => fail(&mut rep, "reload:get_page".into(), json!({"observed": err_json(&e)})),
                    Outcome::Panic(p) => fail(&mut rep, "reload:panic".into(), json!({"observed": panic_json(&p)})),
                }
            }
            Outcome::Done(Err(e)) => fail(&mut rep, "reload:load".into(), json!({"observed": err_json(&e)})),
            Outcome::Panic(p) => fail(&mut rep, "reload:panic".into(), json!({"observed": panic_json(&p)})),
        }
        if ci < 2 { rep.sample(json!({"case": case})); }
    }
    std::fs::remove_file(&progress).ok();
    rep.write(report_path);
}

fn collect_refs(p: &Primitive, out: &mut Vec<PlainRef>) {
    match p {
        Primitive::Reference(r) => out.push(*r),
        Primitive::Array(a) => a.iter().for_each(|x| collect_refs(x, out)),
        Primitive::Dictionary(d) => d.iter().for_each(|(_, v)| collect_refs(v, out)),
        Primitive::Stream(s) => s.info.iter().for_each(|(_, v)| collect_refs(v, out)),
        _ => {}
    }
}
