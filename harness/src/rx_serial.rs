//! C04 – serialised objects parse back to the same value. Value classes and placements come from
//! spec/Serializer.tla; every class is expanded (all 256 byte values, representative Unicode scalars, boundary
//! integers and reals), serialised with the real serializer, framed like the writers frame it and read back by
//! the library's parser and by the independent reference parser.

use crate::observe::*;
use crate::refparse::P;
use crate::report::*;
use pdf::content::{parse_ops, serialize_ops, Color, Op};
use pdf::object::{NoResolve, PlainRef};
use pdf::parser::{parse, parse_indirect_object, Lexer, ParseFlags};
use pdf::primitive::{Dictionary, PdfString, Primitive};
use serde_json::{json, Value};

fn bytes_of(class: &str, all: bool) -> Vec<u8> {
    let v: Vec<u8> = match class {
        "print" => if all { (0x20u8..0x7f).filter(|b| !b"()\\".contains(b)).collect() } else { vec![b'a', b' ', b'%', b'#', b'~', b'/', b'0', b'7', b'8', b'n'] },
        "lparen" => vec![b'('], "rparen" => vec![b')'], "bslash" => vec![b'\\'], "cr" => vec![b'\r'], "lf" => vec![b'\n'],
        "nul" => if all { (0u8..0x20).filter(|b| *b != b'\r' && *b != b'\n').chain(std::iter::once(0x7f)).collect() } else { vec![0, 9, 12, 0x1b, 0x7f] },
        "high" => if all { (0x80u8..=0xff).collect() } else { vec![0x80, 0xa9, 0xff] },
        c => panic!("class {}", c),
    };
    v
}
fn chars_of(class: &str) -> Vec<char> {
    match class {
        "reg" => vec!['A', 'z', '0', '.', '-', '_', '*', '!', '~'],
        "space" => vec![' ', '\t', '\n', '\r', '\x0c', '\0'],
        "hash" => vec!['#'],
        "delim" => vec!['(', ')', '<', '>', '[', ']', '{', '}', '/', '%'],
        "high" => vec!['\u{7f}', '\u{e9}', '\u{7ff}', '\u{800}', '\u{ffff}', '\u{10000}', '\u{10ffff}'],
        c => panic!("class {}", c),
    }
}
fn nums_of(class: &str) -> Vec<Primitive> {
    match class {
        "int" => vec![0, 1, -1, 17, i32::MAX, 65536].into_iter().map(Primitive::Integer).collect(),
        "intmin" => vec![Primitive::Integer(i32::MIN)],
        "intlike-real" => vec![1.0f32, -2.0, 65536.0, 16777216.0].into_iter().map(Primitive::Number).collect(),
        "bigreal" => vec![2147483648.0f32, 3.0e9, -4.5e12, 1.0e20, f32::MAX, f32::MIN].into_iter().map(Primitive::Number).collect(),
        "frac" => vec![0.5f32, -0.25, 3.14159, 1234.5678, 0.1, 1.0e-3].into_iter().map(Primitive::Number).collect(),
        "tiny" => vec![1.0e-7f32, -3.5e-10, f32::MIN_POSITIVE, 1.0e-40].into_iter().map(Primitive::Number).collect(),
        "negzero" => vec![Primitive::Number(-0.0), Primitive::Number(0.0)],
        c => panic!("class {}", c),
    }
}

fn combos<T: Clone>(sets: &[Vec<T>], cap: usize) -> Vec<Vec<T>> {
    let mut out: Vec<Vec<T>> = vec![vec![]];
    for s in sets {
        let mut next = Vec::new();
        for o in &out { for x in s { let mut n = o.clone(); n.push(x.clone()); next.push(n); } }
        out = next;
    }
    if out.len() > cap { let step = out.len() / cap + 1; out = out.into_iter().step_by(step).collect(); }
    out
}

/// concrete values of the case's class
fn expand(case: &Value, all: bool) -> Vec<Primitive> {
    let kind = case["kind"].as_str().unwrap();
    match kind {
        "str" => {
            let sets: Vec<Vec<u8>> = case["str"].as_array().unwrap().iter().map(|c| bytes_of(c.as_str().unwrap(), all)).collect();
            combos(&sets, if all { 70000 } else { 400 }).into_iter().map(|b| Primitive::String(PdfString::new(b.as_slice().into()))).collect()
        }
        "name" => {
            let sets: Vec<Vec<char>> = case["name"].as_array().unwrap().iter().map(|c| chars_of(c.as_str().unwrap())).collect();
            combos(&sets, 400).into_iter().map(|cs| Primitive::Name(cs.into_iter().collect::<String>().as_str().into())).collect()
        }
        "num" => nums_of(case["num"].as_str().unwrap()),
        "bool" => vec![Primitive::Boolean(true), Primitive::Boolean(false)],
        "null" => vec![Primitive::Null],
        "ref" => vec![Primitive::Reference(PlainRef { id: 12, gen: 0 }), Primitive::Reference(PlainRef { id: 4000000000, gen: 65535 })],
        "array" => {
            let atoms = sample_atoms();
            let mut v = vec![Primitive::Array(vec![])];
            for a in &atoms { for b in &atoms { v.push(Primitive::Array(vec![a.clone(), b.clone()])); } }
            v.push(Primitive::Array(vec![Primitive::Array(vec![Primitive::Integer(1)]), Primitive::Dictionary(Dictionary::new())]));
            v
        }
        _ => {
            let atoms = sample_atoms();
            let mut v = vec![Primitive::Dictionary(Dictionary::new())];
            for (i, a) in atoms.iter().enumerate() {
                let mut d = Dictionary::new();
                d.insert("K", a.clone());
                d.insert(["A B", "", "Z#", "é"][i % 4], atoms[(i + 3) % atoms.len()].clone());
                v.push(Primitive::Dictionary(d));
            }
            v
        }
    }
}
fn sample_atoms() -> Vec<Primitive> {
    vec![Primitive::Integer(7), Primitive::Number(0.5), Primitive::Number(3.0e9), Primitive::Name("N".into()), Primitive::Name("A B".into()), Primitive::Name("".into()),
         Primitive::String(PdfString::new(b"a(b\r".as_slice().into())), Primitive::String(PdfString::new(vec![0xff, 0x00].as_slice().into())),
         Primitive::Boolean(true), Primitive::Null, Primitive::Reference(PlainRef { id: 3, gen: 1 })]
}

pub fn run(cases_path: &str, report_path: &str, opts: &[String]) {
    let cases = read_cases(cases_path);
    let all = opts.iter().any(|o| o == "--all-variants");
    let mut rep = Report::default();
    for (ci, case) in cases.iter().enumerate() {
        rep.cases += 1;
        let place = case["place"].as_str().unwrap();
        let kind = case["kind"].as_str().unwrap();
        if kind == "str" || kind == "name" || kind == "num" { rep.nontrivial += 1; }
        let class = format!("{}:{}", kind, match kind { "str" => case["str"].to_string(), "name" => case["name"].to_string(), "num" => case["num"].to_string(), _ => String::new() }.replace('"', ""));
        for v in expand(case, all) {
            rep.execs += 1;
            // reals are f32: a real written in integer form is equal if it converts to the same f32
            let f32ish = |j: Value| -> Value { if matches!(v, Primitive::Number(_)) && j["t"] == "num" { json!({"t": "num", "v": (j["v"].as_f64().unwrap_or(0.0) as f32) as f64}) } else { j } };
            let want = f32ish(prim_json(&v));
            let res = guarded(|| -> pdf::error::Result<(Vec<u8>, Value, Option<Value>)> {
                let mut s = Vec::new();
                match place {
                    "objbody" => {
                        // framed exactly like Storage::save frames a changed object
                        s.extend_from_slice(b"9 0 obj\n"); v.serialize(&mut s)?; s.extend_from_slice(b"\nendobj\n");
                        let mut lx = Lexer::new(&s);
                        let (_, p) = parse_indirect_object(&mut lx, &NoResolve, None, ParseFlags::ANY)?;
                        let mut rp = P::at(&s, 8);
                        Ok((s.clone(), prim_json(&p), rp.value(0).ok().map(|x| x.to_json())))
                    }
                    "dictvalue" => {
                        let mut d = Dictionary::new(); d.insert("V", v.clone()); d.insert("After", Primitive::Integer(5));
                        Primitive::Dictionary(d).serialize(&mut s)?;
                        let p = parse(&s, &NoResolve, ParseFlags::ANY)?;
                        let got = match &p { Primitive::Dictionary(d) if d.len() == 2 => d.get("V").map(prim_json).unwrap_or(json!("missing")), _ => json!("not a 2-entry dict") };
                        let r = P::new(&s).value(0).ok().and_then(|x| x.get("V").map(|y| y.to_json()));
                        Ok((s.clone(), got, r))
                    }
                    "arrayelem" => {
                        Primitive::Array(vec![v.clone(), Primitive::Integer(5), v.clone()]).serialize(&mut s)?;
                        let p = parse(&s, &NoResolve, ParseFlags::ANY)?;
                        let got = match &p { Primitive::Array(a) if a.len() == 3 && a[1] == Primitive::Integer(5) && prim_json(&a[0]) == prim_json(&a[2]) => prim_json(&a[0]), _ => json!({"bad-array": prim_json(&p)}) };
                        let r = match P::new(&s).value(0) { Ok(crate::refparse::Val::Arr(a)) if a.len() == 3 => Some(a[0].to_json()), _ => None };
                        Ok((s.clone(), got, r))
                    }
                    _ => {
                        // operand of a content-stream operator (scn takes arbitrary operands)
                        let ops = vec![Op::FillColor { color: Color::Other(vec![v.clone()]) }, Op::Stroke];
                        s = serialize_ops(&ops)?;
                        let back = parse_ops(&s, &NoResolve)?;
                        let got = match back.as_slice() { [Op::FillColor { color: Color::Other(a) }, Op::Stroke] if a.len() == 1 => prim_json(&a[0]), _ => json!({"bad-ops": format!("{:?}", back)}) };
                        let r = P::new(&s).value(0).ok().map(|x| x.to_json());
                        Ok((s.clone(), got, r))
                    }
                }
            });
            match res {
                Outcome::Done(Ok((bytes, got, refgot))) => {
                    let got = f32ish(got);
                    let refgot = refgot.map(f32ish);
                    if got != want {
                        rep.fail(&format!("readback:{}:{}", place, class), json!({"case_index": ci, "case": case, "value": want, "written": String::from_utf8_lossy(&bytes), "observed": got}));
                    } else if refgot.as_ref() != Some(&want) {
                        rep.fail(&format!("reference-parser:{}:{}", place, class), json!({"case_index": ci, "case": case, "value": want, "written": String::from_utf8_lossy(&bytes), "observed": refgot}));
                    }
                }
                Outcome::Done(Err(e)) => rep.fail(&format!("error:{}:{}", place, class), json!({"case_index": ci, "case": case, "value": want, "observed": err_json(&e)})),
                Outcome::Panic(p) => rep.fail(&format!("panic:{}:{}", place, class), json!({"case_index": ci, "case": case, "value": want, "observed": panic_json(&p)})),
            }
        }
        if ci % 150 == 3 { rep.sample(json!({"case": case})); }
    }
    rep.write(report_path);
}
