#!/usr/bin/env python3
"""Single source of truth for MANIFEST.json: edit CHECKS / NOT_YET here, run, commit."""
import json, os
V = os.path.dirname(os.path.dirname(os.path.abspath(__file__)))
ALL = ["C%02d" % i for i in range(1, 21)]

CHECKS = {
 "C02": dict(level="model_checking", design="5/C02", engine="A:xref",
   technique="TLC model checking of spec/XRef.tla (all well-formed update histories, reader Mech => NewestWins) + replay of every enumerated history as a real multi-revision file through the library",
   text="TLC exhaustively enumerates every well-formed update history within the bound (objects 1..3, <=2 sections quick / <=3-4 thorough, both xref formats, direct/compressed/free/restated entries), checks that the reader model (one action per loop body of read_xref_table_and_trailer/add_entries_from) satisfies NewestWins, refutes each deviation switch, and every history is written by an independent PDF writer and resolved through Storage and File (strict and tolerant, several layouts); the oracle is the spec's NewestMention.",
   note="Bounded histories; trusted: TLC, the harness' own PDF writer (mkpdf), the projection of resolve results. Hybrid (/XRefStm) files are out of scope."),
 "C09": dict(level="model_checking", design="5/C09", engine="A:store",
   technique="TLC model checking of spec/Store.tla (call histories over create/update/promise/fulfil/get/save incl. failing save; ReadYourWrites, SameRef, ReloadExact, Retry, Prefix) + transition-cover and random-walk replay on real Storage/File",
   text="TLC checks the intended design of the store against the five C09 invariants on the full reachable graph (<=4 calls quick, <=6 thorough) and refutes seven deviation switches; a transition cover (one shortest path per distinct (state,last call)) plus seeded random walks are replayed on generated base files (raw/compressed/stream objects, junk prefix, two xref layouts, cached File API and uncached Storage API) with every reference resolved and typed-loaded after every call and the saved bytes reloaded after every save; oracle = ghost Expected of the spec.",
   note="Bounded histories and value domain; trusted: TLC, mkpdf base files, value abstraction (dictionaries by key set). One recorded finding (dictionary merge on repeated update) is predicted by the as-built model and suppressed only where the observation equals that prediction."),
 "C07": dict(level="model_checking", design="5/C07", engine="A:pagetree",
   technique="TLC model checking of spec/PageTree.tla (descent loop one kid per step + inheritance walk vs DFS leaf order / nearest ancestor over all small ordered trees and 12-level chains) + replay of every tree as a real document",
   text="TLC builds every ordered page tree up to the bound with every placement of the inheritable attributes, runs the transcribed descent loop for every index 0..count+2 and checks it against the DFS leaf sequence and nearest-ancestor definition; four deviation switches (range test, leaf advance, inheritance walk, depth budget) are refuted; each tree is written as a real file and num_pages/get_page/pages/media_box/crop_box/resources are compared with the spec's expectation.",
   note="Bounded tree size and attribute placements; trusted: TLC, mkpdf, projection via /Marker, box coordinates and ExtGState names."),
 "C13": dict(level="model_checking", design="5/C13", engine="C:resolver",
   technique="TLC model checking of spec/Resolver.tla (all interleavings of the critical sections of StorageResolver::get and the compute-once cache; safety, deadlock, liveness under fairness) + deterministic schedule replay on real threads (baton scheduler at cfg-guarded yield points)",
   text="TLC checks the intended design (per-thread recursion guard, compute-once cache) for 2-3 threads x 1-2 loads over acyclic, cyclic and fan-out dependency graphs in all sharing/cache modes: SequentialAnswers, NoPanic, deadlock freedom, termination under weak fairness; the shared-guard and unbounded-wait deviations are refuted. The schedules TLC enumerates (every interleaving for 2x1, transition cover for 2x2 and 3x1, random complete walks) are replayed step by step on real threads through yield points in the library; zero schedule drift is required for the binding to be meaningful and is reported.",
   note="Bounded thread/load counts; only dependency graphs realisable with /Parent links are replayed; the instrumented cache implements the Cache trait with the SyncCache protocol (the real SyncCache is used in the probe). Needs the cfg(pdf_rs_pdf_verif) hooks."),
 "C19": dict(level="model_checking", design="5/C19", engine="A:widths+cmap",
   technique="TLC model checking of spec/Widths.tla (offset-vector table: invariant Represents after every set, all small /W arrays in any order) and spec/CMap.tla (writer/reader/conformant texts) + replay through Font::widths and write_cmap/Font::to_unicode",
   text="Real model checking of the width-table data structure (five growth cases, invariant after every set, all arrays of <=3 disjoint groups in every order) and of the cmap writer/reader pair (all small maps; all well-formed texts with bfchar and both bfrange forms); three deviation switches refuted; every array/map/text is realised as a font dictionary or ToUnicode stream and read through the public API, scaled to the 16-bit code range by offsets.",
   note="Bounded code and target domains in the model; trusted: TLC, mkpdf, the harness' conformant cmap printer."),
 "C12": dict(level="model_checking", design="5/C12", engine="A:cache",
   technique="TLC model checking of spec/CacheView.tla (object cache with typed downcast/fallback and error entries, stream cache with caller-supplied filter subsets; invariant Answer = Uncached) + replay of all short call sequences under all four cache configurations",
   text="TLC checks on the full reachable graph (<=5 calls) that in the intended design every answer equals the uncached answer in all four cache configurations and refutes the two deviations; all call sequences of length 3/4 are executed against the real File API with real SyncCache/NoCache combinations and compared call by call with a lone uncached run.",
   note="One generated document; the stream-cache finding is predicted by the as-built model and suppressed only where the observation equals the prediction."),
 "C11": dict(level="model_checking", design="5/C11", engine="A:objstm",
   technique="TLC model checking of spec/ObjStm.tla (header offsets, member slicing, top-level parse of a slice, indirect /Length; TwinEqual, SliceExact) + replay of every storage configuration as a file with twin objects",
   text="TLC enumerates every storage configuration within the bound and checks that the reader's slice is exactly the member and that the compressed twin equals the direct twin; three deviations refuted; each configuration is written as a real file (object stream with optional filters, header separator variants, trailing white-space) and resolved through the library, values compared structurally with the directly stored twin, stream data compared for direct/indirect/compressed /Length.",
   note="Bounded containers and one representative text per value kind; trusted: TLC, mkpdf."),
 "C17": dict(level="model_checking", design="5/C17", engine="A:prefix",
   technique="TLC model checking of spec/FileLayout.tla (every consumer of a file offset as its own action, header position h; SameAsUnprefixed; one adequacy witness per consumer) + differential replay of generated and corpus files behind junk prefixes",
   text="The spec states where each of the five offset consumers (startxref, /Prev, xref entries, stream data ranges, scan range) must arrive for every header position and TLC refutes each 'forgets the header' deviation separately (adequacy of the file family); the replay compares complete observations (all objects, stream data digests, pages, trailer, version, scan items) of every generated kind and every corpus file with and without a junk prefix.",
   note="The model is small (layout arithmetic); assurance comes from the exhaustive sweep of header positions in the thorough tier and the per-consumer adequacy witnesses. Trusted: mkpdf, the snapshot projection."),
 "C18": dict(level="model_checking", design="5/C18", engine="A:dangling",
   technique="TLC model checking of spec/Dangling.tla (error origin, wrapper chain Try/Shared/FromPrimitive, Option reader; DanglingIsNull over kind x carrier x mode x optional/required) crossed with every keyed field of every derived typed model (source extractor) and replayed through the real readers",
   text="The spec fixes, for every dangling kind, carrier and mode, what reading the containing object must yield and TLC refutes the 'only unwrapped errors match' deviation; the outcome table is crossed with all ~330 keyed fields of the 42 typed models found in the sources at check time, each planted into a generated minimal valid dictionary (entry, array element, dictionary value) and read through the model's real reader in strict and tolerant mode.",
   note="Minimal dictionaries are generated from field types; models whose minimal dictionary does not load are listed as not covered. The element-level finding is recorded and suppressed by class."),
 "C08": dict(level="model_checking", design="5/C08", engine="A:content",
   technique="TLC model checking of spec/Content.tla (serializer with look-ahead merges and current point x parser with operand buffer and last point, product machine; RoundTrip) + the operator table as spec data (spec/ContentTable.tla) + replay through serialize_ops/parse_ops",
   text="TLC checks Parse(Serialize(ops)) = ops for every sequence up to the bound over the merge-relevant alphabet and over all operation variants and refutes three deviations (TD pairing, sh dropped, ri without slash); all sequences are executed against the real serializer/parser at several numeric scales, and every row of the operator table is parsed from text printed by an independent operand printer and compared with the denoted operations, including the absence of operand leaks.",
   note="Small operand domains in the model; 7 of 73 table operators have no operation in the library's alphabet and are listed as not covered; v/y after re/h (current point set by other operators) is not part of the table test."),
 "C15": dict(level="model_checking", design="5/C15", engine="A:derive",
   technique="TLC model checking of spec/Derive.tla (abstract model with one field of every derive kind; Idempotent, Rereadable, Preserves over all presence patterns x tag/catch-all configurations) mapped onto every typed model by the source extractor and replayed through the real derived readers/writers",
   text="TLC checks W(R(W(R(d)))) = W(R(d)) and entry preservation for all presence/default/one-or-many/unknown-key/type-tag patterns of the abstract derive model (4 configurations) and refutes the 'writer drops the catch-all' deviation; each pattern is instantiated for every typed model that has a reader and a writer (fields and types found in the sources at check time) and executed R-W-R-W with a recording Updater and a resolver that knows the created objects.",
   note="Values per field type come from a fixed table; models without writer are listed; hand-written pairs are not covered by this run."),
 "C10": dict(level="model_checking", design="5/C10", engine="A:build",
   technique="TLC model checking of spec/Builder.tla (the builder's sequence of promise/create/fulfil/save steps over the empty store; NoDanglingRefs, NothingPromised, SizeAboveAll, PagesReadBack) + replay through PdfBuilder::build with an independent structural validator and a reload comparison",
   text="TLC runs the builder Mech for every input within the bound and checks the structural and read-back invariants on the object graph it produces, refuting two deviations; every input is built with the real PdfBuilder, the bytes are judged by a validator that shares no code with the library (self-tested on seeded corruptions each run) and reloaded to compare pages, resources, operations and info with the input.",
   note="Bounded inputs; trusted: TLC, the validator (harness/src/validate.rs, refparse.rs)."),
 "C20": dict(level="model_checking", design="5/C20", engine="A:import",
   technique="TLC model checking of spec/Import.tla (deep clone with memo table as an explicit call stack over all small source graphs; Terminates, SingleCopy, Closure, UsedResourcesCopied) + replay through PageBuilder::clone_page / Importer / PdfBuilder on generated source documents",
   text="TLC checks the intended clone design on every source graph over 3 objects (all edge sets incl. cycles) with every root set and resource configuration and refutes 'memo after recursion' (non-termination on cycles) and 'category not pruned'; every graph is realised as a source document, its page imported, the result built, reloaded and compared with the spec's expected copy set, plus closure, single copy, page equality and resource equality.",
   note="The colour-space finding is predicted by the as-built model. XObject/Pattern/Properties resources are not modelled yet. A crashed import is observed at process level."),
 "C03": dict(level="model_checking", design="5/C03", engine="A:lexer+syntax",
   technique="TLC model checking of spec/Syntax.tla (byte-level reference tokenizer vs transcribed Lexer::next_word over all byte strings up to a bound: SameTokens, CursorSafe) and spec/Spelling.tla (item-level conformant printer: NeedsSep vs the library's delimiter table) + replay of every string / spelling through the library's lexer and parser against an independent reference parser",
   text="All byte strings <= 4/5/6 over 12 representative bytes are tokenised by the reference tokenizer and the library model in TLC (two deviations refuted) and by the real Lexer; all atom spellings x separators x contexts and all two-element containers are generated by the printer model, rendered with the harness' atom catalogue and parsed by the library; value, exact consumption and the parse of the follower are compared with the independent reference parser.",
   note="The spelling layer is item-level (bytes of atom variants live in the harness catalogue); trusted: TLC, refparse.rs."),
 "C04": dict(level="model_checking", design="5/C04", engine="A:serial",
   technique="TLC model checking of spec/Serializer.tla (the serializer as a deterministic printer over value classes x placements against the reader rules: StringsRoundTrip, NamesRoundTrip, NumbersRoundTrip, PlacementsOk) + class expansion and replay through Primitive::serialize and both parsers",
   text="The spec states per byte/character/number class what the serializer writes and what the reader makes of it, in each of the four placements, and TLC refutes four deviations (raw CR, raw name characters, big integers rejected, missing separator before endobj); every class is expanded in the harness to concrete values (all byte values, Unicode boundaries, numeric boundaries), written by the real serializer in the real framing and parsed back by the library and by an independent reference parser.",
   note="Class-level model (small); the assurance comes from the exhaustive class expansion in the replay. f32 formatting is sampled, not modelled."),
 "C05": dict(level="model_checking", design="5/C05", engine="A:filters",
   technique="TLC model checking of spec/Filters.tla (hex / ASCII85 / run-length decode automata, PNG un-prediction as the inverse of the reference predictor on real byte arithmetic, chain order and parameter pairing over uninterpreted codecs) + replay with independent reference encoders + sweeps of the numeric cores against the spec's formulas",
   text="TLC checks the three ASCII decoders against their reference semantics on all short symbol strings, proves on a sample domain that the transcribed un-prediction inverts every PNG predictor, and checks stream-order decoding with index-paired parameters; five deviations refuted. Every case is concretised with reference encoders and decoded by enc::decode / Stream::data; the numeric cores are swept exhaustively where feasible (2^24 Paeth triples, hex pairs, RL headers) and by seeded sampling for ASCII85.",
   note="Flate/LZW bit-level behaviour is outside the spec (third-party crates) and sampled only. Four recorded findings (predictor features not implemented) are suppressed by class."),
 "C16": dict(level="model_checking", design="5/C16", engine="A:encoders",
   technique="TLC model checking of the hex / ASCII85 structure automata of spec/Filters.tla + replay of enc::encode against enc::decode and independent reference decoders on exhaustive short inputs, runs and data up to 64 KiB",
   text="The structure models define the standard format (zero-group shorthand, partial tail, EOD, odd digits); every supported encoder is run on all short inputs, runs and large random/structured data, its output decoded by the library and by an independent reference decoder for the format.",
   note="The model part is small (shared with C05); assurance comes from the exhaustive short-input replay and the independent decoders."),
 "C06": dict(level="model_checking", design="5/C06", engine="A:crypt (+B fixtures)",
   technique="TLC model checking of spec/Crypt.tla (the security handler as a protocol over uninterpreted ciphers: variant table, password acceptance, per-object key, exemptions, where decryption is applied; PlaintextOrRejected) + replay on documents written by an independent encryptor + the repository's encrypted fixtures",
   text="TLC checks for every configuration that the library model applies decryption exactly where the writer applied encryption, with the key the writer used, and refutes four deviations (AES-256 key truncated, metadata exemption ignored, /Encrypt dictionary decrypted, object-stream members decrypted twice); every configuration is realised by an independent implementation of the standard's algorithms and opened through the library with the user, owner, wrong and empty password; the third-party fixtures validate both implementations.",
   note="Cryptographic arithmetic is uninterpreted in the spec (sampled through the reference implementation). One recorded finding (direct /Encrypt dictionary) is suppressed by class."),
 "C01": dict(level="exploration", design="5/C01", engine="A:bytes + A:walk (child processes, watchdog, address-space cap)",
   technique="TLC model checking of spec/Syntax.tla (tokenizer model: cursor safety and progress over every byte string up to a bound) and spec/Faults.tla (reader pipeline over damaged base layouts: every stage answers ok/err, /Prev loops stopped, termination; five missing-guard deviations refuted) + replay of every enumerated byte string through every lexer / parser entry point and of every enumerated damaged file (and the repository's files, whole and cut at token boundaries) through every read entry point in crash-observing child processes",
   text="The specifications generate the inputs: all byte strings up to length 4 (quick) / 5 (thorough) over 16 bytes that drive the lexer's branches, and all single and double faults (offsets, counts, lengths, widths, keywords, cuts after any token) of four base layouts; TLC checks the models' own safety and termination properties on them; each input is pushed through the real lexer, parsers and the whole-document walker under strict/tolerant x cached/uncached, and any panic, stack overflow, abort, allocation failure, hang or disproportionate time fails the check.",
   note="Exploration level: the quantifier over all byte strings is covered only by these generated families plus the repository corpus; byte-level mutation of large valid files and damage inside compressed data are not generated. The fault model abstracts the reader's guards; conformance is observed only as 'no crash'."),
 "C14": dict(level="model_checking", design="5/C14", engine="A:walk (child processes, watchdog, address-space cap)",
   technique="TLC model checking of spec/Schema.tla (schema fragments as data: reference slots with their follow mode - guarded load, depth budget, tree walk with visited set, lazy link, leaf - and numeric slots with their use; traversal with an explicit recursion stack; StackBounded, OutcomeOk, WorkBounded, Terminates; five deviations refuted) + replay of every enumerated graph as a complete file through every read entry point in crash-observing child processes",
   text="TLC assigns every reference slot of every fragment to every object of the fragment and every numeric slot the boundary values, checks on the traversal model that recursion depth and work stay bounded and every traversal ends in ok/err, and refutes the model without tree-walk visited set, recursion guard, depth budget, and loop/index range checks; every assignment becomes a file that is opened strict/tolerant x cached/uncached and walked through all read entry points in a child process with watchdog and memory cap; panic, stack overflow, abort, allocation failure, hang, disproportionate time, or a tree walk succeeding on a graph the model refuses, fails the check.",
   note="Bounded to fragments of at most 5 objects and the 25 fragments of lib/schema_frags.py; the mapping from fragment slots to library fields is hand-made (checked for consistency between model and replay at run time). Fifteen defects found this way were repaired (fix: commits)."),
}

def main():
    checks = []
    for pid in ALL:
        if pid not in CHECKS:
            continue
        c = CHECKS[pid]
        checks.append({
            "property_id": pid,
            "quick_cmd": "bin/check %s --tier quick" % pid,
            "thorough_cmd": "bin/check %s --tier thorough" % pid,
            "evidence_file": "evidence/%s.json" % pid,
            "replay_cmd_template": "bin/check %s --replay {path}" % pid,
            "engine": c["engine"],
            "level_claimed": {"category": c["level"], "text": c["text"], "design_ref": "DESIGN.md " + c["design"]},
            "level_note": c["note"],
            "technique": c["technique"],
        })
    na = [{"property_id": p, "reason": "check not built yet in this round (work in progress; see DESIGN.md section 10 build order)"} for p in ALL if p not in CHECKS]
    m = {
        "version": 1,
        "setup_cmd": "bin/check --setup",
        "hooks": {
            "guard": "--cfg pdf_rs_pdf_verif",
            "enable": "harness/.cargo/config.toml sets rustflags --cfg pdf_rs_pdf_verif for the harness build, which compiles /repo/pdf through a path dependency",
            "baseline_off_cmd": "cd /repo && cargo test --workspace --no-fail-fast --offline",
            "source_commits": ["5526931"],
            "add_only": True,
        },
        "engines": [
            {"name": "C", "path": "harness/src/sched.rs + harness/src/rx_resolver.rs + spec/MC_Resolver.tla", "serves_properties": ["C13"], "kind_free_text": "TLC enumerates interleavings of the resolver's critical sections; a baton scheduler drives real threads through exactly those interleavings using cfg-guarded yield points in StorageResolver::get and an instrumented Cache implementation"},
            {"name": "A", "path": "harness/src/rx_*.rs + spec/MC_*.tla", "serves_properties": sorted(set(CHECKS) - {"C13"}), "kind_free_text": "TLC enumerates bounded behaviours / input cases of a module and prints each with the spec's expected observation; the Rust harness concretises each case into real bytes / API calls against /repo/pdf and compares"},
        ],
        "checks": checks,
        "not_applicable": na,
        "notes": "All checks: cwd=/verif, honour VERIF_SEED, rebuild the harness (path dependency on /repo/pdf) on every invocation. Known findings: known_findings.json.",
    }
    json.dump(m, open(os.path.join(V, "MANIFEST.json"), "w"), indent=1)

main()
