#!/bin/bash
# usage: confirm_mutant.sh <name> <worktree> <outdir>  -- confirms a seeded change in its scratch worktree and stores it under /verif/seeded/<name>
name=$1; wt=$2; out=$3
export CARGO_TARGET_DIR=$wt/target
log=$out/confirm.log; : > $log
cd $wt && git checkout -q -- . && git clean -fdq -e target
echo "## clean tree: demo must pass" >> $log
bash $out/demo/run.sh $wt >> $log 2>&1; clean_rc=$?
cd $wt && git checkout -q -- . && git clean -fdq -e target
git apply $out/patch.diff || { echo "patch does not apply" >> $log; exit 3; }
echo "## patched tree: test suite" >> $log
(cd $wt && cargo test --workspace --no-fail-fast --offline 2>&1 | grep -E "^test result|FAILED|error\[" ) >> $log 2>&1
suite_fail=$(grep -c -E "FAILED|error\[|[1-9][0-9]* failed" $log)
echo "## patched tree: demo must fail" >> $log
bash $out/demo/run.sh $wt >> $log 2>&1; mut_rc=$?
cd $wt && git checkout -q -- . && git clean -fdq -e target
echo "RESULT name=$name clean_demo_rc=$clean_rc suite_failures=$suite_fail mutated_demo_rc=$mut_rc" | tee -a $log
if [ $clean_rc -eq 0 ] && [ $suite_fail -eq 0 ] && [ $mut_rc -ne 0 ]; then
  mkdir -p /verif/seeded/$name && cp -r $out/patch.diff $out/demo $out/meta.json /verif/seeded/$name/ && tail -5 $log > /verif/seeded/$name/confirm.txt
  echo CONFIRMED
else
  echo NOT-CONFIRMED
fi
