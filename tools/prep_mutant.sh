#!/bin/bash
# usage: prep_mutant.sh <Cxx> <suffix>  -- scratch worktree /tmp/mut_<Cxx><suffix>, output dir, prompt file
id=$1; suf=$2
git -C /repo worktree add --detach /tmp/mut_${id}${suf} HEAD -q
mkdir -p /tmp/mut_${id}${suf}_out
python3 - "$id" "$suf" <<'PY'
import json,sys
pid,suf=sys.argv[1],sys.argv[2]
for l in open('/verif/properties.jsonl'):
    p=json.loads(l)
    if p['id']==pid:
        t=open('/verif/tools/mutant_prompt.txt').read()
        t=t.replace('{{','{').replace('}}','}').replace('{WT}','/tmp/mut_'+pid+suf).replace('{OUT}','/tmp/mut_%s%s_out'%(pid,suf)).replace('{TITLE}',p['title']).replace('{STATEMENT}',p['statement']).replace('{ID}',pid)
        open('/tmp/prompt_%s%s.txt'%(pid,suf),'w').write(t)
PY
