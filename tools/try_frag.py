#!/usr/bin/env python3
"""usage: try_frag.py <fragment> [slot=target ...] [num=value ...]  -- builds one C14 fragment assignment, replays it through every
read entry point (as the C14 check does) and prints the calls that did not answer ok. For exploring fragments by hand."""
import sys, json, os
sys.path.insert(0, os.path.dirname(os.path.dirname(os.path.abspath(__file__))))
from lib import vlib, walk, schema_frags as S

name = sys.argv[1]
refs = S.default_refs(name)
nums = {k: "sane" for k in S.FRAGS[name]["nums"]}
for a in sys.argv[2:]:
    k, val = a.split("=")
    if k in refs:
        refs[k] = int(val)
    else:
        nums[k] = val
b = S.build(name, refs, nums)
if os.environ.get("DUMP"):
    open(os.environ["DUMP"], "wb").write(b)
results, deaths = walk.run("C14", "try_frag", [{"id": 0, "cls": name, "hex": b.hex(), "frag": name}], shards=1, secs=10, extra=("--detail",))
for r in results:
    print("errs=%d panics=%s ms=%d" % (r["errs"], r["panics"], r["ms"]))
    print("not ok:", [d for d in r.get("detail", []) if d[1] != "ok"][:60])
for d in deaths:
    print("DIED:", d["kind"], d["stderr_tail"][-400:])
