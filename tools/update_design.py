#!/usr/bin/env python3
"""(Re)insert section 11 of DESIGN.md from tools/design_section11.md, filling the seeded-change table from seeded/SWEEP.txt."""
import json, os, re
ROOT = os.path.dirname(os.path.dirname(os.path.abspath(__file__)))
sec = open(os.path.join(ROOT, "tools", "design_section11.md")).read()
rows = ["| seeded change | what it does | check | result on the patched tree (quick tier) |", "|---|---|---|---|"]
sweep = {}
p = os.path.join(ROOT, "seeded", "SWEEP.txt")
if os.path.exists(p):
    for line in open(p):
        m = re.match(r"(\S+) check=(\S+) tier=(\S+) exit=(\d+) (.*)\((\d+)s\)", line.strip())
        if m:
            sweep[m.group(1)] = (m.group(2), m.group(4), m.group(5).strip())
for name in sorted(os.listdir(os.path.join(ROOT, "seeded"))):
    mp = os.path.join(ROOT, "seeded", name, "meta.json")
    if not os.path.exists(mp):
        continue
    meta = json.load(open(mp))
    summ = re.sub(r"\s+", " ", meta.get("summary", ""))
    summ = summ[:260] + ("..." if len(summ) > 260 else "")
    chk, rc, cls = sweep.get(name, ("?", "?", "not swept"))
    res = ("**caught** (exit 1; classes: `%s`)" % cls) if rc == "1" else ("MISSED (exit %s)" % rc)
    rows.append("| %s | %s | %s | %s |" % (name, summ.replace("|", "/"), chk, res))
sec = sec.replace("@@SWEEP@@", "\n".join(rows))
kf = json.load(open(os.path.join(ROOT, "known_findings.json")))["findings"]
fx = ["| property | commit | what failed (input / call site) |", "|---|---|---|"]
for f in kf:
    if f["status"] == "fixed":
        what = re.sub(r"^fixed: property=\S+ (\S+ )?", "", f["what"])
        fx.append("| %s | %s | %s |" % (f["property"], f.get("commit", "")[:7], what.replace("|", "/")))
kn = ["| property | key | what fails | why not repaired here |", "|---|---|---|---|"]
for f in kf:
    if f["status"] == "known":
        kn.append("| %s | `%s` | %s | %s |" % (f["property"], f["key"], f["what"].replace("|", "/"), f.get("why_not_repaired", "")))
sec = sec.replace("@@FIXED@@", "\n".join(fx)).replace("@@KNOWN@@", "\n".join(kn))
path = os.path.join(ROOT, "DESIGN.md")
s = open(path).read()
start = s.find("## 11. As built (round 1)")
end = s.find("## Appendix A.")
if start >= 0:
    s = s[:start] + sec + "\n\n" + s[end:]
else:
    s = s[:end] + sec + "\n\n" + s[end:]
open(path, "w").write(s)
print("section 11 written, %d seeded rows" % (len(rows) - 2))
