#!/usr/bin/env python3
"""(Re)insert section 11 of DESIGN.md from tools/design_section11.md, filling the seeded-change table from seeded/SWEEP.txt."""
import json, os, re
ROOT = os.path.dirname(os.path.dirname(os.path.abspath(__file__)))
sec = open(os.path.join(ROOT, "tools", "design_section11.md")).read()
rows = ["| seeded change | what it does | check | result on the patched tree (quick tier) |", "|---|---|---|---|"]
sweep = {}
p = os.path.join(ROOT, "seeded", "SWEEP.txt")
if os.path.exists(p):
    for line in open(p):
        m = re.match(r"(\S+) check=(\S+) tier=(\S+) exit=(\d+) (.*)\((\d+)s\)", line.strip())
        if m:
            sweep[m.group(1)] = (m.group(2), m.group(4), m.group(5).strip())
for name in sorted(os.listdir(os.path.join(ROOT, "seeded"))):
    mp = os.path.join(ROOT, "seeded", name, "meta.json")
    if not os.path.exists(mp):
        continue
    meta = json.load(open(mp))
    summ = re.sub(r"\s+", " ", meta.get("summary", ""))
    summ = summ[:260] + ("..." if len(summ) > 260 else "")
    chk, rc, cls = sweep.get(name, ("?", "?", "not swept"))
    res = ("**caught** (exit 1; classes: `%s`)" % cls) if rc == "1" else ("MISSED (exit %s)" % rc)
    rows.append("| %s | %s | %s | %s |" % (name, summ.replace("|", "/"), chk, res))
sec = sec.replace("@@SWEEP@@", "\n".join(rows))
kf = json.load(open(os.path.join(ROOT, "known_findings.json")))["findings"]
fx = ["| property | commit | what failed (input / call site) |", "|---|---|---|"]
for f in kf:
    if f["status"] == "fixed":
        what = re.sub(r"^fixed: property=\S+ (\S+ )?", "", f["what"])
        fx.append("| %s | %s | %s |" % (f["property"], f.get("commit", "")[:7], what.replace("|", "/")))
kn = ["| property | key | what fails | why not repaired here |", "|---|---|---|---|"]
for f in kf:
    if f["status"] == "known":
        kn.append("| %s | `%s` | %s | %s |" % (f["property"], f["key"], f["what"].replace("|", "/"), f.get("why_not_repaired", "")))
STATIC = {
 "C01": ("Syntax (16-byte alphabet), StrLit, Faults + generated MC_Faults", "byte strings -> 22 lexer / parser entry points + 9 placements in files; single / double faults of 4 layouts, corpus whole / cut / token-substituted -> whole-document walker in child processes"),
 "C02": ("XRef", "multi-revision files (table / stream / hybrid), merged table vs NewestMention"),
 "C03": ("Syntax, Spelling, StrLit, Literals", "token boundaries, spellings, literal strings, hex strings / names / numbers vs spec-computed values and the reference parser"),
 "C04": ("Serializer", "class expansion to all bytes / followers, read back by the library and the reference parser"),
 "C05": ("Filters", "reference encoders -> library decoders, chains, predictor geometries"),
 "C06": ("Crypt, Kdf", "independent security handler writes every configuration; password search per hash-iteration pattern; third-party fixtures"),
 "C07": ("PageTree", "trees as files (all shapes <= 6 nodes, chains of 12 and 16 levels); get_page, boxes (4 coordinates), resources"),
 "C08": ("Content, ContentTable", "serialize -> parse, operator table, operand leak"),
 "C09": ("Store, StoreTrace, PdfSystem", "Engine A call paths; Engine B random long histories validated by TLC; multi-session paths"),
 "C10": ("Builder", "built documents -> independent structural validator + reload"),
 "C11": ("ObjStm", "twin objects direct / compressed, packed and many-member containers"),
 "C12": ("CacheView", "call sequences x 4 cache configurations vs the uncached answer"),
 "C13": ("Resolver, ResolverTrace", "Engine C: baton scheduler on real threads; Engine B: free-running traces validated by TLC; real SyncCache probe"),
 "C14": ("Schema + generated MC_Schema", "every graph / boundary / shape assignment as a file -> walker in child processes (watchdog, address-space cap)"),
 "C15": ("Derive", "every typed model of the generated registry + hand-written reader / writer pairs"),
 "C16": ("Filters", "library encoders -> library decoder and reference decoders"),
 "C17": ("FileLayout", "differential snapshot vs the unprefixed reading (thorough: every position 0..1019 x 5 prefix tails)"),
 "C18": ("Dangling", "every optional / required field of the registry x carrier x mode, nested chains"),
 "C19": ("Widths, CMap", "/W arrays and CMaps as files"),
 "C20": ("Import", "source graphs -> (inspect) -> Importer -> reload; closure, single copy, pruning, stream content"),
}
st = ["| id | modules (spec/) | quick tier: TLC states / cases replayed / wall | binding as built | level |", "|---|---|---|---|---|"]
for pid in sorted(STATIC):
    ep = os.path.join(ROOT, "evidence", pid + ".json")
    nums = "?"
    lvl = "?"
    if os.path.exists(ep):
        e = json.load(open(ep))
        c = e["coverage"]
        lvl = e["level"].replace("_", " ")
        nums = "%s / %s / %.0f s (%s)" % ("{:,}".format(c.get("states", 0)), "{:,}".format(c.get("traces_validated_against_impl", 0)), e["wall_s"], e["tier"])
    st.append("| %s | %s | %s | %s | %s |" % (pid, STATIC[pid][0], nums, STATIC[pid][1], lvl))
sec = sec.replace("@@STATUS@@", "\n".join(st))
sec = sec.replace("@@FIXED@@", "\n".join(fx)).replace("@@KNOWN@@", "\n".join(kn))
path = os.path.join(ROOT, "DESIGN.md")
s = open(path).read()
start = s.find("## 11. As built (round 1)")
end = s.find("## Appendix A.")
if start >= 0:
    s = s[:start] + sec + "\n\n" + s[end:]
else:
    s = s[:end] + sec + "\n\n" + s[end:]
open(path, "w").write(s)
print("section 11 written, %d seeded rows" % (len(rows) - 2))
