#!/bin/bash
# usage: run_all.sh <tier>   -- runs every registered check, prints one line each
tier=${1:-quick}
cd "$(dirname "$0")/.."
for p in $(python3 -c "import json; print(' '.join(c['property_id'] for c in json.load(open('MANIFEST.json'))['checks']))"); do
  s=$(date +%s); out=$(bin/check $p --tier $tier 2>&1); rc=$?; e=$(date +%s)
  echo "$p exit=$rc $((e-s))s $(echo "$out" | grep -c KNOWN-FINDING) known $(echo "$out" | grep -E 'VIOLATION|TOOL-ERROR' | head -2 | tr '\n' ' ')"
done
