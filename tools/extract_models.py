#!/usr/bin/env python3
"""Lists every struct with a derived `Object` reader in /repo/pdf/src: its dictionary keys, Rust field types,
attributes. Output: JSON on stdout. Used by C18 / C15 / C14 to drive the harness over *all* typed fields."""
import glob, json, re, sys

def strip_comments(s):
    s = re.sub(r"//[^\n]*", "", s)
    return re.sub(r"/\*.*?\*/", "", s, flags=re.S)

def split_fields(body):
    # split on commas at nesting depth 0 of <>, (), []
    out, depth, cur = [], 0, ""
    for ch in body:
        if ch in "<([":
            depth += 1
        elif ch in ">)]":
            depth -= 1
        if ch == "," and depth == 0:
            out.append(cur); cur = ""
        else:
            cur += ch
    if cur.strip():
        out.append(cur)
    return out

def carrier(ty):
    t = ty.replace(" ", "")
    opt = t.startswith("Option<")
    inner = t[7:-1] if opt else t
    def kind(x):
        if x.startswith("MaybeRef<"): return "mayberef"
        if x.startswith("RcRef<") or x in ("PagesRc", "PageRc"): return "rcref"
        if x.startswith("Ref<"): return "ref"
        if x.startswith("Lazy<"): return "lazy"
        if x.startswith("Vec<"): return "vec"
        if x.startswith("HashMap<"): return "map"
        if x.startswith("Box<"): return kind(x[4:-1])
        if x == "Primitive": return "primitive"
        if x in ("i32", "u32", "usize", "f32", "bool", "Name", "PdfString", "Rectangle", "Matrix", "Date", "Dictionary") or x.startswith("("): return "prim"
        return "struct"
    return opt, kind(inner)

def main():
    models = []
    for path in sorted(glob.glob("/repo/pdf/src/**/*.rs", recursive=True)):
        src = strip_comments(open(path).read())
        for m in re.finditer(r"#\[derive\(([^)]*)\)\]\s*((?:#\[[^\]]*\]\s*)*)pub\s+struct\s+(\w+)\s*(?:<[^>{]*>)?\s*\{", src):
            derives = [d.strip() for d in m.group(1).split(",")]
            if "Object" not in derives:
                continue
            gattrs = m.group(2)
            name = m.group(3)
            # body up to the matching brace
            i = m.end(); depth = 1
            while depth and i < len(src):
                depth += {"{": 1, "}": -1}.get(src[i], 0); i += 1
            body = src[m.end():i - 1]
            tname = re.search(r'Type\s*=\s*"([^"]*)"', gattrs)
            checks = dict(re.findall(r'(\w+)\s*=\s*"([^"]*)"', " ".join(re.findall(r"#\[pdf\(([^\]]*)\)\]", gattrs))))
            fields = []
            for f in split_fields(body):
                fm = re.search(r"((?:#\[[^\]]*\]\s*)*)(?:pub(?:\s*\([^)]*\))?\s+)?(\w+)\s*:\s*(.+)$", f.strip(), flags=re.S)
                if not fm:
                    continue
                attrs, fname, ty = fm.group(1), fm.group(2), " ".join(fm.group(3).split())
                key = re.search(r'key\s*=\s*"([^"]*)"', attrs)
                other = bool(re.search(r"pdf\(\s*other", attrs)) or bool(re.search(r",\s*other", attrs))
                default = re.search(r'default\s*=\s*"([^"]*)"', attrs)
                opt, car = carrier(ty)
                fields.append({"field": fname, "key": key.group(1) if key else None, "type": ty, "optional": opt, "carrier": car,
                               "default": default.group(1) if default else None, "other": other,
                               "indirect": "indirect" in attrs, "skip": bool(re.search(r"pdf\(\s*skip", attrs))})
            models.append({"name": name, "file": path.replace("/repo/", ""), "write": "ObjectWrite" in derives,
                           "type_tag": tname.group(1) if tname else None, "checks": checks, "fields": fields})
    json.dump({"models": models}, sys.stdout, indent=1)

main()
