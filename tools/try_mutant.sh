#!/bin/bash
# usage: try_mutant.sh <patch.diff> <tier> <Cxx> [Cyy ...]   -- applies the patch to /repo, runs the checks, reverts
patch=$1; tier=$2; shift 2
cd /repo && git apply "$patch" || { echo "PATCH DOES NOT APPLY"; exit 3; }
cd /verif
saved=$(mktemp -d); cp evidence/*.json $saved/   # evidence must describe runs on the unchanged tree only
for p in "$@"; do
  out=$(bin/check $p --tier $tier 2>&1); rc=$?
  echo "== $p exit=$rc"; echo "$out" | grep -E "VIOLATION|TOOL-ERROR" | head -5
done
git -C /repo checkout -- .
cp $saved/*.json evidence/; rm -rf $saved 
