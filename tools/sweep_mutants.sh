#!/bin/bash
# usage: [ONLY="C09_l C16_l"] sweep_mutants.sh [tier]  -- for every (or, with ONLY, for the named, appending to SWEEP.txt) /verif/seeded/<Cxx_y>: apply to /repo, run the check of Cxx, revert; writes seeded/SWEEP.txt
tier=${1:-quick}
out=/verif/seeded/SWEEP.txt; [ -n "$ONLY" ] || : > $out
cd /repo && git diff --quiet || { echo "/repo working tree is not clean"; exit 3; }
saved=$(mktemp -d); cp /verif/evidence/*.json $saved/   # evidence must describe runs on the unchanged tree only
for d in /verif/seeded/*/; do
  n=$(basename $d); p=${n%%_*}
  if [ -n "$ONLY" ]; then case " $ONLY " in *" $n "*) ;; *) continue;; esac; fi
  cd /repo && git apply $d/patch.diff || { echo "$n PATCH-DOES-NOT-APPLY" >> $out; continue; }
  cd /verif; s=$(date +%s); res=$(bin/check $p --tier $tier 2>&1); rc=$?; e=$(date +%s)
  git -C /repo checkout -- .
  cls=$(echo "$res" | grep -E "VIOLATION|TOOL-ERROR" | sed -E 's/.*class=([^ ]+).*/\1/' | sort -u | head -3 | tr '\n' ' ')
  echo "$n check=$p tier=$tier exit=$rc ${cls} ($((e-s))s)" >> $out
done
cp $saved/*.json /verif/evidence/; rm -rf $saved
cat $out
