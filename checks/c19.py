"""C19 - glyph widths and Unicode maps follow the font dictionaries exactly.
Two spec modules: Widths.tla (offset-vector table, five growth cases, /W interpreter) and CMap.tla (writer,
reader, conformant texts). Both model-checked and their cases replayed."""
import json, os, time
from lib import vlib
from checks import common

PID = "C19"


def run(tier, seed):
    q = tier == "quick"
    t0 = time.time()
    # part 1: widths (writes evidence; overwritten below with the merged record)
    rc1 = common.run_enum(PID, tier, seed, "MC_Widths", "widths", ["Widths_q.cfg"] if q else ["Widths_q.cfg", "Widths_t.cfg"],
        [("Widths_w_prepend_short.cfg", "prepend_short"), ("Widths_w_gap_off_by_one.cfg", "gap_off_by_one")],
        actions=["AddGroup", "Start", "Step"], rule="", assumptions=[], harness_opts=[] if q else ["--all-variants"])
    ev1 = json.load(open(os.path.join(vlib.EVID, PID + ".json")))
    os.rename(os.path.join(vlib.WORK, PID, "report.json"), os.path.join(vlib.WORK, PID, "report_widths.json"))
    rc2 = common.run_enum(PID, tier, seed, "MC_CMap", "cmap", ["CMap_q.cfg"] if q else ["CMap_q.cfg", "CMap_t.cfg"],
        [("CMap_w_array_comma_separated.cfg", "array_comma_separated")],
        actions=["AddEntry", "StartRead", "ReadEntry"], rule="", assumptions=[], harness_opts=[] if q else ["--all-variants"])
    ev2 = json.load(open(os.path.join(vlib.EVID, PID + ".json")))
    c1, c2 = ev1["coverage"], ev2["coverage"]
    cov = {
        "states": c1["states"] + c2["states"], "transitions": c1["transitions"] + c2["transitions"],
        "traces_validated_against_impl": c1["traces_validated_against_impl"] + c2["traces_validated_against_impl"],
        "samples": c1["samples"][:1] + c2["samples"][:2],
        "evaluations": c1["evaluations"] + c2["evaluations"], "distinct_nontrivial": c1["distinct_nontrivial"] + c2["distinct_nontrivial"],
        "rule": "widths: every well-formed /W array TLC builds (<=3 disjoint groups in any order, both group forms) -> CID font dictionary "
                "(inline or referenced arrays, code offsets 0/300/65520/highest code on CID 65535, via the Type0 wrapper and directly) -> Font::widths(..).get(code) for all codes, "
                "plus the simple-font FirstChar/Widths table; cmaps: every map over the small code/target domain -> write_cmap -> ToUnicode stream -> "
                "Font::to_unicode, and every well-formed text of <=2-3 entries (bfchar, bfrange string/array) printed by a conformant printer "
                "(1- and 2-byte codes, hex case, separators, code offsets up to 65535); non-trivial = >= 2 groups / >= 2 assigned codes",
        "exhaustive": True,
        "widths": {k: c1[k] for k in ("tlc_runs", "action_coverage", "deviation_witnesses_refuted", "harness_counters", "cases_replayed")},
        "cmap": {k: c2[k] for k in ("tlc_runs", "action_coverage", "deviation_witnesses_refuted", "harness_counters", "cases_replayed")},
        "known_findings_hit": sorted(set(c1["known_findings_hit"]) | set(c2["known_findings_hit"])),
    }
    vlib.write_evidence(PID, tier, seed, "model_checking", cov,
        ["bounded code/target domains in the model; code offsets scale the cases to the 16-bit range in the harness",
         "empty groups `c []` and overlapping groups are outside 'well-formed' and not generated (C14 covers hostile arrays)",
         "simple fonts: no /MissingWidth in the descriptor (default 0)"],
        time.time() - t0, ev1.get("violations", 0) + ev2.get("violations", 0))
    return 1 if (rc1 or rc2) else 0


def replay(path, seed):
    rec = json.load(open(path))
    mod = "cmap" if "mode" in rec.get("case", {}) else "widths"
    return common.replay_generic(PID, mod, path, show=("class", "expected", "observed", "text", "offset"))
