"""C18 - references to missing or free objects read as null."""
import json, os, time
from lib import vlib, models
from checks import common

PID = "C18"
# concrete dangling references: (label, kind of the spec's table, reference); /Size is 70, 60 is a free entry, 61 lies in a gap
PLANT = {"free": ("free", "60 0 R"), "gap": ("gap", "61 0 R"), "beyond": ("beyond", "99 0 R"),
         "at-size": ("beyond", "70 0 R"), "size+1": ("beyond", "71 0 R"), "huge": ("beyond", "4000000000 0 R")}


def field_cases(tlc_cases):
    """cross the spec's outcome table with every keyed field of every typed model in the sources"""
    table = {}
    for c in tlc_cases:
        j = json.loads(c)
        table[(j["kind"], j["carrier"], j["mode"], j["optional"])] = (j["ideal"], j["mech"])
    ms = models.extract()
    by = {m["name"]: m for m in ms}
    out = []
    for m in ms:
        base = models.minimal(m, by)
        if base is False:
            continue
        for f in m["fields"]:
            role = models.role(f)
            if role is None:
                continue
            car = f["carrier"] if f["carrier"] in ("prim", "struct", "mayberef", "rcref", "vec", "lazy", "ref") else \
                ("vec" if f["carrier"] == "map" else "ref" if f["carrier"] == "primitive" else "struct")
            variants = [("entry", "%s")]
            t = f["type"].replace(" ", "")
            if t.startswith("Vec<") or t.startswith("Option<Vec<"):
                variants.append(("element", "[%s]"))
            if t.startswith("HashMap<"):
                variants.append(("element", "<< /E %s >>"))
            for kind, (mkind, ref) in PLANT.items():
                for mode in ("strict", "tolerant"):
                    for vname, shape in variants:
                        optional = role != "required"
                        ideal, mech = table.get((mkind, car, mode, optional), ("absent", "absent"))
                        expect = "err_named" if ideal == "err_named" else "ok"
                        r = role if vname == "entry" else "element"
                        # insert the planted entry (replacing an existing one of the minimal dictionary)
                        body = base[2:-2]
                        toks = body.split("/%s " % f["key"])
                        if len(toks) > 1:
                            continue   # the key is part of the minimal dictionary (required): handled by role required below
                        d = "<< %s /%s %s >>" % (body.strip(), f["key"], shape % ref)
                        out.append(json.dumps({"model": m["name"], "base": base, "dict": d, "aux": {str(k): v for k, v in models.AUX.items()},
                                               "key": f["key"], "field": f["field"], "type": f["type"], "role": r, "carrier": car,
                                               "kind": kind, "mode": mode, "expect": expect, "asbuilt": "err" if mech not in ("absent", "value") else "ok"}))
            if role == "required" and f["carrier"] in ("prim", "struct", "mayberef", "rcref"):
                # required entry replaced by a dangling reference: must be an error naming the entry
                for kind, (mkind, ref) in PLANT.items():
                    for mode in ("strict", "tolerant"):
                        body = base[2:-2]
                        import re
                        d2 = re.sub(r"/%s (\[[^\]]*\]|<<.*?>>|\([^)]*\)|\S+( 0 R)?)" % re.escape(f["key"]), "/%s %s" % (f["key"], ref), body, count=1)
                        if d2 == body:
                            continue
                        out.append(json.dumps({"model": m["name"], "base": base, "dict": "<<%s>>" % d2, "aux": {str(k): v for k, v in models.AUX.items()},
                                               "key": f["key"], "field": f["field"], "type": f["type"], "role": "required", "carrier": f["carrier"],
                                               "kind": kind, "mode": mode, "expect": "err_named", "asbuilt": "err"}))
    return out


def run(tier, seed):
    return common.run_enum(PID, tier, seed, "MC_Dangling", "dangling", ["Dangling_q.cfg"],
        [("Dangling_w_option_matches_only_unwrapped.cfg", "option_matches_only_unwrapped")],
        actions=["Resolve", "Carry", "OptionRead", "Field"],
        rule="the spec's outcome table (dangling kind {free entry, number >= /Size, gap} x carrier {direct primitive, nested struct, MaybeRef, RcRef, Vec, Lazy, Ref} x "
             "{strict, tolerant} x {optional, required}) crossed with EVERY keyed field of every typed model with a derived reader found in the library's sources "
             "(extractor run at check time): the reference is planted into a generated minimal valid dictionary of the model (as the entry itself, as an array element, "
             "as a dictionary value) and the model is read through its real reader; optional/defaulted/container entries must read as absent, required entries must "
             "fail with an error naming the entry, nothing may panic; non-trivial = the reader follows the reference",
        assumptions=["models whose generated minimal dictionary does not load are reported as not covered (notes)",
                     "'an error naming the entry' = the error chain contains the dictionary key or the field name",
                     "hand-written readers (Font, ColorSpace, Function, ...) are not part of the registry; they are exercised by C14"],
        case_filter=field_cases, exhaustive=True)


def replay(path, seed):
    return common.replay_generic(PID, "dangling", path, opts=(), show=("class", "observed"))
