"""C18 - references to missing or free objects read as null."""
import json, os, time
from lib import vlib, models
from checks import common

PID = "C18"
# concrete dangling references: (label, kind of the spec's table, reference); /Size is 70, 60 is a free entry, 61 lies in a gap,
# 62 is defined in the original body and freed by an incremental update (63 the same, with a free entry of generation 0)
PLANT = {"free": ("free", "60 0 R"), "freed-by-update": ("free", "62 0 R"), "freed-same-generation": ("free", "63 0 R"), "gap": ("gap", "61 0 R"), "beyond": ("beyond", "99 0 R"),
         "at-size": ("beyond", "70 0 R"), "size+1": ("beyond", "71 0 R"), "huge": ("beyond", "4000000000 0 R")}


def field_cases(tlc_cases):
    """cross the spec's outcome table with every keyed field of every typed model in the sources"""
    table = {}
    for c in tlc_cases:
        j = json.loads(c)
        table[(j["kind"], j["carrier"], j["mode"], j["optional"])] = (j["ideal"], j["mech"])
    ms = models.extract()
    by = {m["name"]: m for m in ms}
    out = []
    for m in ms:
        base = models.minimal(m, by)
        if base is False:
            continue
        for f in m["fields"]:
            role = models.role(f)
            if role is None:
                continue
            car = f["carrier"] if f["carrier"] in ("prim", "struct", "mayberef", "rcref", "vec", "lazy", "ref") else \
                ("vec" if f["carrier"] == "map" else "ref" if f["carrier"] == "primitive" else "struct")
            variants = [("entry", "%s")]
            t = f["type"].replace(" ", "")
            if t.startswith("Vec<") or t.startswith("Option<Vec<"):
                variants.append(("element", "[%s]"))
            if t.startswith("HashMap<"):
                variants.append(("element", "<< /E %s >>"))
            for kind, (mkind, ref) in PLANT.items():
                for mode in ("strict", "tolerant"):
                    for vname, shape in variants:
                        optional = role != "required"
                        ideal, mech = table.get((mkind, car, mode, optional), ("absent", "absent"))
                        expect = "err_named" if ideal == "err_named" else "ok"
                        r = role if vname == "entry" else "element"
                        # insert the planted entry (replacing an existing one of the minimal dictionary)
                        body = base[2:-2]
                        toks = body.split("/%s " % f["key"])
                        if len(toks) > 1:
                            continue   # the key is part of the minimal dictionary (required): handled by role required below
                        d = "<< %s /%s %s >>" % (body.strip(), f["key"], shape % ref)
                        out.append(json.dumps({"model": m["name"], "base": base, "dict": d, "aux": {str(k): v for k, v in models.AUX.items()},
                                               "key": f["key"], "field": f["field"], "type": f["type"], "role": r, "carrier": car,
                                               "kind": kind, "mode": mode, "expect": expect, "asbuilt": "err" if mech not in ("absent", "value") else "ok"}))
            if role == "required" and f["carrier"] in ("prim", "struct", "mayberef", "rcref"):
                # required entry replaced by a dangling reference: must be an error naming the entry
                for kind, (mkind, ref) in PLANT.items():
                    for mode in ("strict", "tolerant"):
                        body = base[2:-2]
                        import re
                        d2 = re.sub(r"/%s (\[[^\]]*\]|<<.*?>>|\([^)]*\)|\S+( 0 R)?)" % re.escape(f["key"]), "/%s %s" % (f["key"], ref), body, count=1)
                        if d2 == body:
                            continue
                        out.append(json.dumps({"model": m["name"], "base": base, "dict": "<<%s>>" % d2, "aux": {str(k): v for k, v in models.AUX.items()},
                                               "key": f["key"], "field": f["field"], "type": f["type"], "role": "required", "carrier": f["carrier"],
                                               "kind": kind, "mode": mode, "expect": "err_named", "asbuilt": "err"}))
    return out


ALIAS = {"PageRc": "Page", "PagesRc": "PagesNode"}


def strip_wrappers(t):
    changed = True
    while changed:
        changed = False
        for p in ("Option<", "MaybeRef<", "Box<", "RcRef<", "Vec<"):
            if t.startswith(p):
                t, changed = t[len(p):-1], True
    return ALIAS.get(t, t)


def nested_cases(tlc_cases):
    """the spec's nested rows: a REQUIRED followed entry of an inner typed object dangles, and the inner object is the value of an optional /
    defaulted / container entry of an outer typed object (one or two levels up). Strict: an error naming the inner entry; tolerant: absent."""
    table = {}
    for c in tlc_cases:
        j = json.loads(c)
        if j["nested"]:
            table[(j["kind"], j["mode"])] = j["ideal"]
    ms = models.extract()
    by = {m["name"]: m for m in ms}
    out = []

    def inner_targets(model, depth):
        """(path of keys, inner dict text with {REF} in place of the dangling required entry, key, field) below `model`"""
        res = []
        base = models.minimal(model, by)
        if base is False:
            return res
        for g in model["fields"]:
            if models.role(g) == "required" and g["carrier"] not in ("lazy", "ref", "primitive") and g["key"]:
                import re
                body = base[2:-2]
                d2 = re.sub(r"/%s (\[[^\]]*\]|<<.*?>>|\([^)]*\)|\S+( 0 R)?)" % re.escape(g["key"]), "/%s {REF}" % g["key"], body, count=1)
                if d2 != body:
                    res.append(("<<%s>>" % d2, g["key"], g["field"]))
        if depth > 0:
            for f in model["fields"]:
                if models.role(f) in ("option", "default", "container") and f["carrier"] not in ("lazy", "ref") and f["key"]:
                    n = strip_wrappers(f["type"].replace(" ", ""))
                    if n in by and n != model["name"]:
                        wrap = "[%s]" if f["type"].replace(" ", "").startswith("Vec<") or "Option<Vec<" in f["type"].replace(" ", "") else "%s"
                        for txt, k, fld in inner_targets(by[n], depth - 1):
                            res.append(("<< %s /%s %s >>" % (base[2:-2].strip(), f["key"], wrap % txt), k, fld))
        return res
    for m in ms:
        base = models.minimal(m, by)
        if base is False:
            continue
        for f in m["fields"]:
            if models.role(f) not in ("option", "default", "container") or f["carrier"] in ("lazy", "ref") or not f["key"]:
                continue
            t = f["type"].replace(" ", "")
            n = strip_wrappers(t)
            if n not in by or n == m["name"]:
                continue
            wrap = "[%s]" if t.startswith("Vec<") or t.startswith("Option<Vec<") else "%s"
            indirect = "Rc" in t            # RcRef / PageRc / PagesRc values must be indirect objects
            for txt, k, fld in inner_targets(by[n], 1):
                for kind, (mkind, ref) in PLANT.items():
                    for mode in ("strict", "tolerant"):
                        # only the Option reader is lenient in tolerant mode; through a container or a defaulted entry the error stays
                        ideal = table.get((mkind, mode), "err_named") if models.role(f) == "option" else "err_named"
                        aux = {str(a): v for a, v in models.AUX.items()}
                        inner_txt = txt.replace("{REF}", ref)
                        if indirect:
                            aux["53"] = inner_txt
                            inner_txt = "53 0 R"
                        d = "<< %s /%s %s >>" % (base[2:-2].strip(), f["key"], wrap % inner_txt)
                        out.append(json.dumps({"model": m["name"], "base": base, "dict": d, "aux": aux,
                                               "key": k, "field": fld, "type": f["type"], "role": "nested-" + models.role(f), "carrier": "struct",
                                               "kind": kind, "mode": mode, "expect": "err_named" if ideal == "err_named" else "ok", "asbuilt": "err"}))
    return out


def all_cases(tlc_cases):
    return field_cases([c for c in tlc_cases if not json.loads(c)["nested"]]) + nested_cases(tlc_cases)


def run(tier, seed):
    return common.run_enum(PID, tier, seed, "MC_Dangling", "dangling", ["Dangling_q.cfg"],
        [("Dangling_w_option_matches_only_unwrapped.cfg", "option_matches_only_unwrapped"), ("Dangling_w_field_error_counts_as_missing.cfg", "field_error_counts_as_missing")],
        actions=["Resolve", "Carry", "OptionRead", "Field", "OuterOption"],
        rule="the spec's outcome table (dangling kind {free entry, number >= /Size, gap} x carrier {direct primitive, nested struct, MaybeRef, RcRef, Vec, Lazy, Ref} x "
             "{strict, tolerant} x {optional, required}) crossed with EVERY keyed field of every typed model with a derived reader found in the library's sources "
             "(extractor run at check time): the reference is planted into a generated minimal valid dictionary of the model (as the entry itself, as an array element, "
             "as a dictionary value) and the model is read through its real reader; optional/defaulted/container entries must read as absent, required entries must "
             "fail with an error naming the entry, nothing may panic; nested rows: a required followed entry of an inner typed object dangles while the inner object is the "
             "value of an optional / defaulted / container entry one or two levels up (every such chain the extractor finds): strict reading must fail naming the inner entry "
             "(the inner object exists, it is not 'missing'), tolerant reading may drop the outer entry; non-trivial = the reader follows the reference",
        assumptions=["models whose generated minimal dictionary does not load are reported as not covered (notes)",
                     "'an error naming the entry' = the error chain contains the dictionary key or the field name",
                     "hand-written readers (Font, ColorSpace, Function, ...) are not part of the registry; they are exercised by C14"],
        case_filter=all_cases, exhaustive=True)


def replay(path, seed):
    return common.replay_generic(PID, "dangling", path, opts=(), show=("class", "observed"))
