"""C07 - page n is the n-th leaf of the page tree; attributes come from the nearest ancestor."""
from checks import common

PID = "C07"
WIT = [("PageTree_w_range_le.cfg", "range_le"), ("PageTree_w_leaf_no_advance.cfg", "leaf_no_advance"),
       ("PageTree_w_inherit_skips_grandparent.cfg", "inherit_skips_grandparent"), ("PageTree_w_budget.cfg", "budget_10")]


def run(tier, seed):
    cfgs = ["PageTree_q.cfg", "PageTree_q6s.cfg", "PageTree_deep.cfg", "PageTree_deep16.cfg"] if tier == "quick" else ["PageTree_q.cfg", "PageTree_deep.cfg", "PageTree_deep16.cfg", "PageTree_t6.cfg", "PageTree_t7.cfg"]
    return common.run_enum(PID, tier, seed, "MC_PageTree", "pagetree", cfgs, WIT,
        actions=["AddNode", "Place", "Visit"],
        rule="every ordered page tree TLC builds (<=5 nodes quick, <=6/7 thorough, plus 12-level chains) x attribute placements; each becomes a real "
             "document (classic table or all nodes in a compressed object stream; cached strict / uncached tolerant) and num_pages, get_page(i) for "
             "every i in 0..count+2, pages(), media_box, crop_box and resources are compared with the spec's DFS order / nearest ancestor; "
             "non-trivial = the tree has >= 2 leaves",
        assumptions=["bounded tree size; MediaBox and Resources are placed on the same node set (<=2 nodes), CropBox on <=1 node",
                     "well-formed trees only (accurate /Count, correct /Parent); hostile trees are C14's subject",
                     "'at least a dozen levels' is read as 12 levels including the leaf level"],
        harness_opts=[] if tier == "quick" else ["--all-variants"])


def replay(path, seed):
    return common.replay_generic(PID, "pagetree", path, show=("class", "index", "expected", "observed", "layout", "cached"))
