"""Generic Engine-A check: TLC model-checks and enumerates cases, the harness replays them."""
import json, os, time, concurrent.futures as cf
from lib import vlib


def run_enum(pid, tier, seed, module, harness_mod, cfgs, witnesses, actions, rule, assumptions,
             harness_opts=(), sim=None, level="model_checking", exhaustive=True, post=None, extra_cov=None,
             workers=6, heap="8g", case_filter=None, shards=1):
    """cfgs: list of cfg names (model check + emit). witnesses: list of (cfg, devname).
    sim: optional (cfg, num, depth, timeout)."""
    t0 = time.time()
    v = vlib.Verdict(pid)
    states = trans = 0
    cases, cov, tlc_runs, wit = [], {}, [], {}
    with cf.ThreadPoolExecutor(max_workers=3) as ex:
        futs = [(cfg, ex.submit(vlib.run_tlc, module, cfg, pid, cfg[:-4], workers=workers, timeout=3000, heap=heap)) for cfg in cfgs]
        wf = [(dev, ex.submit(vlib.run_tlc, module, cfg, pid, cfg[:-4], workers=2, timeout=900, expect_violation=True, coverage=False))
              for cfg, dev in witnesses]
        for cfg, f in futs:
            r = f.result()
            tlc_runs.append({"cfg": cfg, "distinct": r["distinct"], "generated": r["generated"], "cases": len(r["cases"]), "wall_s": r["wall_s"]})
            if r["violation"]:
                v.model_violation("%s:%s:%s" % (module, cfg, r["violation"]), r)
            states += r["distinct"]; trans += r["generated"]
            cases += r["cases"]
            for k, n in r["coverage"].items():
                cov[k] = cov.get(k, 0) + n
        for dev, f in wf:
            wit[dev] = f.result()["violation"]
    for act in actions:
        if cov.get(act, 0) == 0:
            raise vlib.ToolError("vacuous TLC run: action %s never taken" % act)
    for dev, viol in wit.items():
        if not viol:
            raise vlib.ToolError("deviation %s is no longer refuted by the model (spec rot)" % dev)
    if sim:
        cfg, num, depth, tmo = sim
        r = vlib.run_tlc(module, cfg, pid, "sim", workers=1, timeout=tmo, simulate=num, depth=depth, seed=seed)
        tlc_runs.append({"cfg": cfg + " (simulate)", "cases": len(r["cases"]), "wall_s": r["wall_s"]})
        cases += r["cases"]
    cases = list(dict.fromkeys(cases))
    if case_filter:
        cases = case_filter(cases)
    wd = vlib.workdir(pid)
    cpath = os.path.join(wd, "cases.ndjson")
    vlib.write_cases(cases, cpath)
    if shards > 1 and len(cases) > 20000:
        rep = vlib.run_harness_sharded(harness_mod, cases, wd, ["--seed=%d" % seed] + list(harness_opts), shards)
        json.dump(rep, open(os.path.join(wd, "report.json"), "w"))
    else:
        rep = vlib.run_harness(harness_mod, cpath, os.path.join(wd, "report.json"), ["--seed=%d" % seed] + list(harness_opts))
    v.from_report(rep)
    if post:
        post(v, rep)
    rc = v.finish()
    covd = {
        "states": states, "transitions": trans,
        "traces_validated_against_impl": rep["cases"],
        "samples": rep["samples"][:3],
        "evaluations": rep["execs"], "distinct_nontrivial": rep["nontrivial"],
        "rule": rule, "exhaustive": exhaustive,
        "cases_replayed": rep["cases"], "tlc_runs": tlc_runs, "action_coverage": cov,
        "deviation_witnesses_refuted": wit, "known_findings_hit": sorted(v.known_hit), "harness_counters": rep["counters"],
    }
    if extra_cov:
        covd.update(extra_cov)
    if rep.get("notes"):
        covd["notes"] = rep["notes"]
    vlib.write_evidence(pid, tier, seed, level, covd, assumptions, time.time() - t0, len(v.violations))
    return rc


def replay_generic(pid, harness_mod, path, opts=("--all-variants",), show=("class", "expected", "observed")):
    rec = json.load(open(path))
    if "case" not in rec:
        vlib.log(open(path).read()[:4000])
        return 1
    wd = vlib.workdir(pid, "replay_run")
    cpath = os.path.join(wd, "case.ndjson")
    vlib.write_cases([json.dumps(rec["case"])], cpath)
    rep = vlib.run_harness(harness_mod, cpath, os.path.join(wd, "report.json"), list(opts))
    v = vlib.Verdict(pid)
    v.from_report(rep)
    for f in rep["failures"][:5]:
        vlib.log(json.dumps({k: f[k] for k in show if k in f})[:1500])
    return v.finish()
