"""C11 - an object's value does not depend on how it is stored."""
from checks import common

PID = "C11"


def run(tier, seed):
    q = tier == "quick"
    return common.run_enum(PID, tier, seed, "MC_ObjStm", "objstm", ["ObjStm_q.cfg"] if q else ["ObjStm_q.cfg", "ObjStm_t.cfg"],
        [("ObjStm_w_int_lookahead_eof.cfg", "int_lookahead_eof"), ("ObjStm_w_length_in_objstm_rejected.cfg", "length_in_objstm_rejected"),
         ("ObjStm_w_slice_end_off_by_one.cfg", "slice_end_off_by_one")],
        actions=["Choose", "Slice", "Parse"],
        rule="every storage configuration TLC enumerates: value kind (9 quick / 13 thorough) x container of <=2/3 members x position x trailing "
             "white-space x container filter (none/Flate/ASCIIHex+Flate) x header separators x /Length storage (direct / raw integer / compressed integer); "
             "each becomes a file with twin objects; resolve(compressed) must equal resolve(direct twin) structurally and the stream with the indirect "
             "/Length must yield the data of its twin with a direct /Length; cached+tolerant and uncached+strict; non-trivial = >= 2 members or indirect /Length",
        assumptions=["bounded containers; member texts are one representative per kind (C03 covers spellings)",
                     "the model abstracts member texts to lengths; the byte-level slicing is exercised by the replay"],
        exhaustive=True)


def replay(path, seed):
    return common.replay_generic(PID, "objstm", path, opts=(), show=("class", "expected", "observed", "cached"))
