"""C01 - reading arbitrary bytes never panics, aborts or hangs.
Three input families, all generated from the specifications (DESIGN 5/C01; byte-level mutation of large files is outside):
 tokens  spec/Syntax.tla: every byte string up to a bound over 16 bytes chosen for the lexer / parser branches, pushed through every lexer and
         parser entry point and (short strings) planted in eight places of a well-formed file
 faults  spec/Faults.tla: every single fault and every pair of faults at the fault points of four base layouts (incl. every cut between tokens)
 corpus  the repository's files (valid, encrypted with both passwords, past crash files), whole and cut at token boundaries"""
import glob, json, os, time, concurrent.futures as cf
from lib import vlib, walk, fault_layouts as F

PID = "C01"
SLOW_MS = 20000
FAULT_WITNESSES = [("Faults_w_section.cfg", "unchecked:section"), ("Faults_w_stream.cfg", "unchecked:stream"), ("Faults_w_objstm.cfg", "unchecked:objstm"),
                   ("Faults_w_entry.cfg", "unchecked:entry"), ("Faults_w_seen.cfg", "no_seen_list")]
PASSWORDS = {"passwords_": ["userpassword", "ownerpassword"], "encrypted_": [""]}


SUBST = [("zero", b"0"), ("neg", b"-1"), ("huge", b"99999999999999999999"), ("name", b"/X"), ("open", b"<<"), ("close", b">>"), ("array", b"["), ("endobj", b"endobj"),
         ("stream", b"stream"), ("drop", b""), ("double", None), ("ref", b"1 0 R"), ("string", b"(unbalanced"), ("real", b"1e9999")]


def _tlc(module, cfg, workers=6, expect=False):
    return vlib.run_tlc(module, cfg, PID, cfg[:-4], workers=workers, timeout=3000, heap="8g", expect_violation=expect, coverage=not expect)


def fault_sig(c):
    return "%s[%s]" % (c["layout"], ",".join("%s=%s" % kv for kv in sorted(c["damage"].items()) if kv[1] != "intact"))


def corpus_cases(thorough):
    out = []
    files = sorted(glob.glob("/repo/files/*.pdf") + glob.glob("/repo/files/invalid/*.pdf") + glob.glob("/repo/files/password_protected/*.pdf"))
    for path in files:
        data = open(path, "rb").read()
        name = os.path.relpath(path, "/repo/files")
        pws = [""]
        for pre, lst in PASSWORDS.items():
            if os.path.basename(path).startswith(pre):
                pws = lst
        for pw in pws:
            out.append({"cls": "corpus:%s%s" % (name, ":" + pw if pw else ""), "hex": data.hex(), "password": pw, "fam": "corpus"})
        if len(data) <= 300000:
            ends = F.token_ends(data)
            k = 60 if thorough else 12
            step = max(1, len(ends) // k)
            for e in ends[step // 2::step]:
                out.append({"cls": "corpus-cut:%s@%d" % (name, e), "hex": data[:e].hex(), "password": pws[0], "fam": "corpus-cut"})
            # one token replaced by a token of another class / dropped / doubled, at evenly spaced places (the fault kinds of Faults.tla
            # applied to real files: a number becomes zero, negative or huge, a keyword or delimiter appears or disappears)
            k2 = 48 if thorough else 12
            step2 = max(1, len(ends) // k2)
            for n, i in enumerate(range(step2 // 3, len(ends) - 1, step2)):
                a, b = (ends[i - 1] if i else 0), ends[i]
                while a < b and data[a] in b" \t\r\n\x0c\x00":
                    a += 1
                kind, rep = SUBST[n % len(SUBST)]
                mutated = data[:a] + (data[a:b] * 2 if rep is None else rep) + data[b:]
                out.append({"cls": "corpus-subst:%s@%d:%s" % (name, a, kind), "hex": mutated.hex(), "password": pws[0], "fam": "corpus-subst"})
    return out


def run(tier, seed):
    t0 = time.time()
    q = tier == "quick"
    v = vlib.Verdict(PID)
    syn_cfg = "Syntax_c01_q.cfg" if q else "Syntax_c01_t.cfg"
    fault_cfgs = ["Faults_q1.cfg", "Faults_q2.cfg"] if q else ["Faults_q1.cfg", "Faults_q2.cfg", "Faults_t2.cfg"]
    with cf.ThreadPoolExecutor(max_workers=3) as ex:
        fsyn = ex.submit(_tlc, "MC_Syntax", syn_cfg, 6)
        ffl = [(c, ex.submit(_tlc, "MC_Faults", c, 4)) for c in fault_cfgs]
        fw = [(dev, ex.submit(_tlc, "MC_Faults", c, 2, True)) for c, dev in FAULT_WITNESSES]
        fw.append(("ff_not_ws", ex.submit(_tlc, "MC_Syntax", "Syntax_w_ff_not_ws.cfg", 2, True)))
        syn = fsyn.result()
        faults = [(c, f.result()) for c, f in ffl]
        wit = {dev: f.result()["violation"] for dev, f in fw}
    states = syn["distinct"] + sum(r["distinct"] for _, r in faults)
    trans = syn["generated"] + sum(r["generated"] for _, r in faults)
    for name, r in [(syn_cfg, syn)] + faults:
        if r["violation"]:
            v.model_violation("%s:%s" % (name, r["violation"]), r)
    for dev, viol in wit.items():
        if not viol:
            raise vlib.ToolError("deviation %s is no longer refuted by the model (spec rot)" % dev)
    if faults[0][1]["coverage"].get("RunStage", 0) == 0:
        raise vlib.ToolError("vacuous TLC run: RunStage never taken")
    # ---------------- tokens
    tok_cases = [json.loads(s) for s in syn["cases"]]
    tok_cases = [{"id": k, "bytes": c["bytes"]} for k, c in enumerate(tok_cases)]
    tres, tdeaths = walk.run(PID, "bytes", tok_cases, shards=14, secs=10, module="bytes", extra=("--file-maxlen", "3"))
    tok_execs = sum(r.get("execs", 0) for r in tres if r.get("summary"))
    tok_files = sum(r.get("files", 0) for r in tres if r.get("summary"))
    tok_errs = sum(r.get("errs", 0) for r in tres if r.get("summary"))
    for r in tres:
        if r.get("summary"):
            continue
        for p in r["panics"]:
            v.failure(p["outcome"], {"class": p["outcome"], "family": "tokens", "entry": p["entry"], "bytes": r["bytes"], "text": bytes(r["bytes"]).decode("latin-1")})
    for d in tdeaths:
        cls = "died:%s:tokens" % d["kind"]
        v.failure(cls, {"class": cls, "family": "tokens", "bytes": d["case"]["bytes"], "rc": d["rc"], "stderr_tail": d["stderr_tail"]})
    # ---------------- faults + corpus (whole files through the walker)
    seen, fcases = set(), []
    for _, r in faults:
        for s in r["cases"]:
            c = json.loads(s)
            if c["damage"] == []:
                c["damage"] = {}
            sg = fault_sig(c)
            if sg in seen:
                continue
            seen.add(sg)
            fcases.append({"cls": sg, "hex": F.build(c["layout"], c["damage"]).hex(), "fam": "faults:" + c["layout"]})
    ccases = corpus_cases(not q)
    allc = fcases + ccases
    for k, c in enumerate(allc):
        c["id"] = k
    wres, wdeaths = walk.run(PID, "walk", allc, shards=14, secs=30, mem_mb=4096)
    if len(wres) + len(wdeaths) != len(allc):
        raise vlib.ToolError("replay lost cases: %d + %d != %d" % (len(wres), len(wdeaths), len(allc)))
    byid = {c["id"]: c for c in allc}
    nontrivial = 0
    for d in wdeaths:
        c = d["case"]
        cls = "died:%s:%s" % (d["kind"], c["fam"])
        v.failure(cls, {"class": cls, "family": c["fam"], "case_sig": c["cls"], "hex": c["hex"] if len(c["hex"]) < 200000 else None, "password": c.get("password", ""), "rc": d["rc"], "stderr_tail": d["stderr_tail"]})
    for r in wres:
        c = byid[r["id"]]
        if not r["loaded"] or r["errs"] > 8:
            nontrivial += 1
        for p in r["panics"]:
            v.failure(p["outcome"], {"class": p["outcome"], "family": c["fam"], "entry": p["entry"], "config": p["config"], "case_sig": c["cls"],
                                     "hex": c["hex"] if len(c["hex"]) < 200000 else None, "password": c.get("password", "")})
        if r["ms"] > SLOW_MS + r["len"] // 20:
            v.failure("slow:%s" % c["fam"], {"class": "slow:%s" % c["fam"], "ms": r["ms"], "case_sig": c["cls"], "hex": c["hex"] if len(c["hex"]) < 200000 else None})
    rc = v.finish()
    fam = {}
    for c in allc:
        fam[c["fam"]] = fam.get(c["fam"], 0) + 1
    cov = {"states": states, "transitions": trans, "traces_validated_against_impl": len(tok_cases) + len(allc),
           "samples": [bytes(tok_cases[len(tok_cases) // 2]["bytes"]).decode("latin-1"), fcases[len(fcases) // 2]["cls"], ccases[0]["cls"]],
           "evaluations": tok_execs + sum(x["calls"] for x in wres), "distinct_nontrivial": nontrivial + (1 if tok_errs else 0) * len(tok_cases),
           "rule": "tokens: every byte string of length <= %d over {SP LF %% / < > [ ] ( ) \\ 1 - . R #} (TLC also checks the tokenizer model's cursor safety and progress on it) through "
                   "Lexer next / back / seek_*, parse, parse_with_lexer, parse_indirect_object / _stream, string / hex / array / dictionary continuation, parse_ops, PsFunc parse + exec, "
                   "the three cross-reference parsers; strings up to 3 bytes additionally as whole file, after a header, before a tail, as object body, content stream, ToUnicode CMap, "
                   "calculator function, trailer entry and junk between objects of a well-formed file walked through every read entry point; faults: every single fault (incl. a cut "
                   "after every token) and every pair of faults (quick: pairs without cuts; thorough: also pairs with every 4th cut) of the fault points of the layouts classic, "
                   "xrefstm, prev2, encrypted (spec/Faults.tla checks that every reader stage answers ok/err and the pipeline terminates, five missing-guard deviations refuted), "
                   "each opened strict/tolerant x cached/uncached and walked through every read entry point; corpus: the repository's 31 files (encrypted ones with each password), whole "
                   "cut at %d token boundaries each and with single tokens substituted (zero / negative / huge number, name, delimiters, keywords, dropped, doubled) at evenly spaced places; all in child processes with watchdog and address-space cap; failure = panic, stack overflow, abort, allocation failure, "
                   "no return within 10 s (tokens) / 30 s (files), or more than %d ms + 1 ms per 20 bytes for a file" % (4 if q else 5, 12 if q else 60, SLOW_MS),
           "exhaustive": True, "families": dict(fam, tokens=len(tok_cases), token_files=tok_files), "process_deaths": len(tdeaths) + len(wdeaths),
           "tlc": [{"cfg": syn_cfg, "distinct": syn["distinct"], "wall_s": syn["wall_s"]}] + [{"cfg": c, "distinct": r["distinct"], "wall_s": r["wall_s"]} for c, r in faults],
           "deviation_witnesses_refuted": wit, "known_findings_hit": sorted(v.known_hit), "slowest_ms": max([x["ms"] for x in wres] + [0])}
    vlib.write_evidence(PID, tier, seed, "exploration", cov,
                        ["the quantifier 'all byte strings' is covered only by the three generated families; byte-level mutation of large valid files and damage inside compressed data are not generated",
                         "resource proportionality is decided by fixed time and address-space limits on inputs below 1 MB",
                         "the fault model's stage guards abstract the reader: the replay, not the model, observes the library"],
                        time.time() - t0, len(v.violations))
    return rc


def replay(path, seed):
    rec = json.load(open(path))
    v = vlib.Verdict(PID)
    if rec.get("family") == "tokens":
        res, deaths = walk.run(PID, "replay_bytes", [{"id": 0, "bytes": rec["bytes"]}], shards=1, secs=10, module="bytes", extra=("--file-maxlen", "3"))
        for r in res:
            for p in r.get("panics", []):
                print("panic at", p["entry"], p["outcome"])
                v.failure(p["outcome"], rec)
        for d in deaths:
            print("process died:", d["kind"])
            v.failure("died:%s:tokens" % d["kind"], rec)
        return v.finish()
    if not rec.get("hex"):
        print(json.dumps(rec)[:1500])
        return 1
    case = {"id": 0, "cls": rec.get("case_sig", ""), "hex": rec["hex"], "password": rec.get("password", ""), "fam": rec.get("family", "?")}
    res, deaths = walk.run(PID, "replay_walk", [case], shards=1, secs=30, extra=("--detail",))
    for r in res:
        print("non-ok calls:", [d for d in r.get("detail", []) if d[1] != "ok"][:40])
        for p in r["panics"]:
            v.failure(p["outcome"], rec)
    for d in deaths:
        print("process died:", d["kind"], d["stderr_tail"][-300:])
        v.failure("died:%s:%s" % (d["kind"], case["fam"]), rec)
    return v.finish()
