"""C17 - bytes before the header do not change what is read."""
import glob, json, os, time
from lib import vlib
from checks import common

PID = "C17"
CONSUMERS = ["startxref", "prev", "entry", "streamdata", "scan"]


def run(tier, seed):
    q = tier == "quick"

    def add_corpus(cases):
        # the corpus is swept with the header positions of the spec's configuration
        hs = sorted({json.loads(c)["h"] for c in cases})
        if not q:
            hs = sorted(set(hs[::37]) | {0, 1, 7, 512, 1019})
        out = list(cases)
        for f in sorted(glob.glob("/repo/files/*.pdf")) + sorted(glob.glob("/repo/files/password_protected/*.pdf")):
            for h in hs:
                pw = "userpassword" if "password_protected" in f else ""
                out.append(json.dumps({"h": h, "kind": "file:" + f, "password": pw}))
        return out

    return common.run_enum(PID, tier, seed, "MC_FileLayout", "prefix", ["FileLayout_q.cfg" if q else "FileLayout_t.cfg"],
        [("FileLayout_w_%s.cfg" % c, "ignores_header:" + c) for c in CONSUMERS] + [("FileLayout_w_naive.cfg", "naive_header_search")],
        actions=["Open", "FollowPrev", "ReadEntry", "ReadStream", "Scan"],
        rule="header positions from the spec's configuration ({0,1,7,512,1019} quick; every 0..1019 thorough) x generated files of 4 kinds (classic table, "
             "xref stream, two revisions with /Prev, object streams; indirect /Length, CRLF after `stream`) and x every corpus file incl. the encrypted fixtures; "
             "the prefix is seeded random / textual / binary junk without the header marker; compared between prefixed and unprefixed: load outcome, trailer "
             "size and root, resolve of every object number (streams with a digest of their raw data), pages, version, and the complete scan() item list; "
             "for the generated kinds (and a third of the corpus positions) one object is then added to both documents and both are saved: the open documents' reads "
             "of every number below /Size and the complete observations of fresh loads of the two saved files are compared too (offsets written are relative to the header); "
             "non-trivial = prefix length > 0; the adequacy witnesses show that each of the five offset consumers is exercised by the model",
        assumptions=["prefixes that push the header beyond byte 1019 are outside the property (only 'no panic' is required there)",
                     "the spec models the five consumers of a file offset abstractly; byte-level behaviour is covered by the differential replay"],
        case_filter=add_corpus, exhaustive=not q)


def replay(path, seed):
    return common.replay_generic(PID, "prefix", path, opts=(), show=("class", "differs", "unprefixed", "prefixed"))
