"""C10 - documents built from scratch reload with the same pages and are valid PDF."""
from lib import vlib
from checks import common

PID = "C10"


def post(v, rep):
    bad = [n for n in rep.get("notes", []) if n.startswith("VALIDATOR-SELFTEST-FAILED")]
    if bad or rep["counters"].get("validator_selftest_ok", 0) < 4:
        raise vlib.ToolError("the structural validator missed a seeded corruption: %s" % bad)


def run(tier, seed):
    q = tier == "quick"
    return common.run_enum(PID, tier, seed, "MC_Builder", "build", ["Builder_q.cfg", "Builder_q1.cfg"] if q else ["Builder_q.cfg", "Builder_t.cfg"],
        [("Builder_w_size.cfg", "size_too_small"), ("Builder_w_res.cfg", "page_without_resources_ref")],
        actions=["ChooseInput", "PromiseAndTree", "BuildPage", "CreateCatalog", "Save"],
        rule="every builder input TLC enumerates (page lists of 0..3 pages over 4 page kinds, every single page of the 144-kind product boxes x rotation x extra entries x "
             "resources x operation sequences, x 3 info variants; thorough: all pairs of the full product) -> PdfBuilder::build -> (1) the harness' independent structural "
             "validator (own tokenizer and xref-stream reader: header first, startxref target, every in-use entry at its object header, /Size above all numbers, every stream "
             "/Length = byte count, no reference to an undefined object; its sensitivity is self-tested on seeded corruptions in every run) and (2) reload through the library "
             "comparing page count/order, boxes, rotation, extra entries (incl. a name with a space), resources (font loads, ExtGState values), operation sequences and info; "
             "non-trivial = >= 2 pages",
        assumptions=["operation sequences come from C08's domain (4 representatives; the longest one includes closed subpaths followed by curves from the subpath's start)", "the validator understands unfiltered and Flate xref/object streams only"],
        post=post, exhaustive=True)


def replay(path, seed):
    return common.replay_generic(PID, "build", path, opts=(), show=("class", "problems", "expected", "observed"))
