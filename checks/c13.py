"""C13 - concurrent readers get the answers sequential readers would.
TLC: spec/Resolver.tla (intended design: SequentialAnswers, NoPanic, deadlock freedom, termination under
weak fairness; shared_chain and cache_wait_unbounded refuted). Engine C: schedules (all interleavings of
2 threads x 1 load; transition cover of larger configurations; random complete walks) are replayed on real
threads by the baton scheduler through the cfg-guarded yield points in StorageResolver::get."""
import json, os, time, subprocess, concurrent.futures as cf
from lib import vlib

PID = "C13"
NPROC = 12


def drop_prefixes(cases):
    keyed = []
    for c in cases:
        j = json.loads(c)
        key = (json.dumps(j["deps"]), json.dumps(j["loads"]), j["shared"], j["cacheOn"], tuple(j["sched"]))
        keyed.append((key, c, j["endst"]))
    prefixes = set()
    for (d, l, s, c, p), _, _ in keyed:
        for n in range(0, len(p)):
            prefixes.add((d, l, s, c, p[:n]))
    return [c for k, c, e in keyed if k not in prefixes or e != "running"]


def run_shard(args):
    i, cpath, rpath = args
    p = subprocess.run([vlib.BIN, "resolver", cpath, rpath], stdout=subprocess.PIPE, stderr=subprocess.PIPE, text=True, timeout=3000)
    return i, p.returncode, p.stderr[-2000:]


def replay_cases(cases, wd):
    shards = [[] for _ in range(NPROC)]
    for i, c in enumerate(cases):
        shards[i % NPROC].append(c)
    jobs = []
    for i, sh in enumerate(shards):
        if not sh:
            continue
        cpath = os.path.join(wd, "cases_%d.ndjson" % i)
        vlib.write_cases(sh, cpath)
        jobs.append((i, cpath, os.path.join(wd, "report_%d.json" % i)))
    total = {"cases": 0, "execs": 0, "nontrivial": 0, "failures": [], "samples": [], "counters": {}, "notes": []}
    aborted = []
    with cf.ThreadPoolExecutor(max_workers=NPROC) as ex:
        for i, rc, err in ex.map(run_shard, jobs):
            rpath = os.path.join(wd, "report_%d.json" % i)
            if rc != 0 or not os.path.exists(rpath):
                # the process died (abort / stack overflow): data about the code under test
                prog = os.path.join(wd, "report_%d.json.progress" % i)
                at = int(open(prog).read()) if os.path.exists(prog) else -1
                aborted.append((i, rc, at, err))
                continue
            r = json.load(open(rpath))
            for k in ("cases", "execs", "nontrivial"):
                total[k] += r[k]
            total["failures"] += r["failures"]
            total["samples"] += r["samples"][:1]
            for k, n in r["counters"].items():
                total["counters"][k] = total["counters"].get(k, 0) + n
    return total, aborted, shards


def run(tier, seed):
    t0 = time.time()
    v = vlib.Verdict(PID)
    q = tier == "quick"
    mc_cfgs = ["Resolver_mc2.cfg", "Resolver_mc3.cfg", "Resolver_live.cfg"]
    gen_cfgs = ["Resolver_gen21q.cfg" if q else "Resolver_gen21.cfg", "Resolver_gen22.cfg", "Resolver_gen31.cfg"]
    wits = [("Resolver_w_shared_chain.cfg", "shared_chain"), ("Resolver_w_cache_wait.cfg", "cache_wait_unbounded")]
    tlc_runs, cov = [], {}
    states = trans = 0
    cases = []
    with cf.ThreadPoolExecutor(max_workers=3) as ex:
        f_mc = [(c, ex.submit(vlib.run_tlc, "MC_Resolver", c, PID, c[:-4], workers=4, timeout=1800, heap="8g")) for c in mc_cfgs]
        f_gen = [(c, ex.submit(vlib.run_tlc, "MC_Resolver", c, PID, c[:-4], workers=6, timeout=2400, heap="16g", coverage=False)) for c in gen_cfgs]
        f_w = [(d, ex.submit(vlib.run_tlc, "MC_Resolver", c, PID, c[:-4], workers=2, timeout=600, expect_violation=True, coverage=False)) for c, d in wits]
        for c, f in f_mc:
            r = f.result()
            tlc_runs.append({"cfg": c, "distinct": r["distinct"], "generated": r["generated"], "wall_s": r["wall_s"]})
            if r["violation"]:
                v.model_violation("Resolver:%s:%s" % (c, r["violation"]), r)
            states += r["distinct"]; trans += r["generated"]
            for k, n in r["coverage"].items():
                cov[k] = cov.get(k, 0) + n
        for c, f in f_gen:
            r = f.result()
            cs = r["cases"] if "gen21" in c else drop_prefixes(r["cases"])
            tlc_runs.append({"cfg": c, "distinct": r["distinct"], "generated": r["generated"], "schedules": len(cs), "wall_s": r["wall_s"]})
            states += r["distinct"]; trans += r["generated"]
            cases += cs
        wit = {d: f.result()["violation"] for d, f in f_w}
    for act in ("DoGuardEnter", "DoCacheEnter", "DoWake", "DoCachePublish", "DoGuardExit"):
        if cov.get(act, 0) == 0:
            raise vlib.ToolError("vacuous TLC run: action %s never taken" % act)
    for d, viol in wit.items():
        if not viol:
            raise vlib.ToolError("deviation %s is no longer refuted by the model (spec rot)" % d)
    sim = vlib.run_tlc("MC_Resolver", "Resolver_sim.cfg", PID, "sim", workers=1, timeout=30 if q else 300,
                       simulate=1000 if q else 100000, depth=80, seed=seed)
    tlc_runs.append({"cfg": "Resolver_sim.cfg (simulate)", "schedules": len(sim["cases"]), "wall_s": sim["wall_s"]})
    cases += sim["cases"]
    cases = list(dict.fromkeys(cases))
    wd = vlib.workdir(PID)
    rep, aborted, shards = replay_cases(cases, wd)
    v.from_report(rep)
    for i, rc, at, err in aborted:
        path = os.path.join(v.rdir, "abort_shard_%d.json" % i)
        case = json.loads(shards[i][at]) if 0 <= at < len(shards[i]) else None
        json.dump({"class": "abort", "case": case, "exit": rc, "stderr": err}, open(path, "w"))
        v.violations.append(("abort(exit %s)" % rc, path))
    # the recorded finding against the real globalcache SyncCache (TLC counterexample schedule, child process)
    pr = subprocess.run([vlib.BIN, "synccache-probe"], stdout=subprocess.PIPE, stderr=subprocess.PIPE, text=True, timeout=120)
    probe = [l for l in pr.stdout.splitlines() if l.startswith("PROBE")]
    probe = probe[-1] if probe else "PROBE none (exit %s)" % pr.returncode
    if "end=hang" in probe or "end=deadlock" in probe:
        v.failure("asbuilt:cache_wait_unbounded", {"class": "asbuilt:cache_wait_unbounded", "probe": probe}, True)
    elif "end=done" not in probe:
        v.violations.append(("synccache-probe:" + probe, os.path.join(v.rdir, "probe.txt")))
        open(os.path.join(v.rdir, "probe.txt"), "w").write(pr.stdout + pr.stderr)
    rc = v.finish()
    vlib.write_evidence(PID, tier, seed, "model_checking", {
        "states": states, "transitions": trans,
        "traces_validated_against_impl": rep["cases"],
        "samples": rep["samples"][:2],
        "evaluations": rep["execs"], "distinct_nontrivial": rep["nontrivial"],
        "rule": "schedules = sequences of thread steps between the yield points guard?/cache?/publish?/exit?/blocked: ALL interleavings of 2 threads x 1 load "
                "(graphs: independent, chain, join, 2-cycle, self-loop; shared/per-thread resolver; cache on/off), a transition cover (one path per distinct "
                "model state, prefixes dropped, completed serially) of 2 threads x 2 loads and 3 threads x 1 load, and seeded random complete walks; each is "
                "replayed on real threads by the baton scheduler; per-call results are compared with the spec's SeqAnswer and with a real lone run; "
                "non-trivial = the schedule switches between threads; evaluations = scheduler steps executed",
        "exhaustive": False,
        "schedules_replayed": rep["cases"], "scheduler_steps": rep["counters"].get("steps", 0), "schedule_drift": rep["counters"].get("drift", 0),
        "tlc_runs": tlc_runs, "action_coverage": cov, "deviation_witnesses_refuted": wit,
        "liveness": "Termination checked under weak fairness (Resolver_live.cfg, no state constraint, no VIEW)",
        "known_findings_hit": sorted(v.known_hit), "harness_counters": rep["counters"],
        "real_synccache_probe": probe,
    }, ["bounded: 2-3 threads, 1-3 loads each, 3 keys, dependency graphs with <= 1 eager dependency per key are replayed (fan-out graphs are model-checked only)",
        "the instrumented cache (harness/src/sched.rs VCache) follows the protocol of globalcache SyncCache::get; the real SyncCache is exercised by the stress part",
        "hooks: cfg(pdf_rs_pdf_verif) yield/log points in StorageResolver::get (commit 5526931 in /repo)"],
        time.time() - t0, len(v.violations))
    return rc


def replay(path, seed):
    rec = json.load(open(path))
    if not rec.get("case"):
        vlib.log(open(path).read()[:4000])
        return 1
    wd = vlib.workdir(PID, "replay_run")
    rep, aborted, _ = replay_cases([json.dumps(rec["case"])], wd)
    v = vlib.Verdict(PID)
    v.from_report(rep)
    for f in rep["failures"][:5]:
        vlib.log(json.dumps({k: f[k] for k in ("class", "expected", "observed", "observed_end", "results") if k in f}))
    for a in aborted:
        v.violations.append(("abort", path))
    return v.finish()
