"""C13 - concurrent readers get the answers sequential readers would.
TLC: spec/Resolver.tla (intended design: SequentialAnswers, NoPanic, deadlock freedom, termination under
weak fairness; shared_chain and cache_wait_unbounded refuted). Engine C: schedules (all interleavings of
2 threads x 1 load; transition cover of larger configurations; random complete walks) are replayed on real
threads by the baton scheduler through the cfg-guarded yield points in StorageResolver::get."""
import json, os, time, subprocess, concurrent.futures as cf
from lib import vlib

PID = "C13"
NPROC = 12


def drop_prefixes(cases):
    keyed = []
    for c in cases:
        j = json.loads(c)
        key = (json.dumps(j["deps"]), json.dumps(j["loads"]), j["shared"], j["cacheOn"], tuple(j["sched"]))
        keyed.append((key, c, j["endst"]))
    prefixes = set()
    for (d, l, s, c, p), _, _ in keyed:
        for n in range(0, len(p)):
            prefixes.add((d, l, s, c, p[:n]))
    return [c for k, c, e in keyed if k not in prefixes or e != "running"]


def run_shard(args):
    i, cpath, rpath = args
    p = subprocess.run([vlib.BIN, "resolver", cpath, rpath], stdout=subprocess.PIPE, stderr=subprocess.PIPE, text=True, timeout=3000)
    return i, p.returncode, p.stderr[-2000:]


def replay_cases(cases, wd):
    shards = [[] for _ in range(NPROC)]
    for i, c in enumerate(cases):
        shards[i % NPROC].append(c)
    jobs = []
    for i, sh in enumerate(shards):
        if not sh:
            continue
        cpath = os.path.join(wd, "cases_%d.ndjson" % i)
        vlib.write_cases(sh, cpath)
        jobs.append((i, cpath, os.path.join(wd, "report_%d.json" % i)))
    total = {"cases": 0, "execs": 0, "nontrivial": 0, "failures": [], "samples": [], "counters": {}, "notes": []}
    aborted = []
    with cf.ThreadPoolExecutor(max_workers=NPROC) as ex:
        for i, rc, err in ex.map(run_shard, jobs):
            rpath = os.path.join(wd, "report_%d.json" % i)
            if rc != 0 or not os.path.exists(rpath):
                # the process died (abort / stack overflow): data about the code under test
                prog = os.path.join(wd, "report_%d.json.progress" % i)
                at = int(open(prog).read()) if os.path.exists(prog) else -1
                aborted.append((i, rc, at, err))
                continue
            r = json.load(open(rpath))
            for k in ("cases", "execs", "nontrivial"):
                total[k] += r[k]
            total["failures"] += r["failures"]
            total["samples"] += r["samples"][:1]
            for k, n in r["counters"].items():
                total["counters"][k] = total["counters"].get(k, 0) + n
    return total, aborted, shards


TRACE_JAVA = ["java", "-Xss1g", "-Xmx4g", "-Dtlc2.tool.queue.IStateQueue=StateDeque", "-cp", vlib.JAR, "tlc2.TLC", "-workers", "1", "-cleanup", "-noGenerateSpecTE"]


def validate_trace(trace_path, tag):
    """TLC on spec/ResolverTrace.tla with TRACE=<file>. Returns (accepted, detail)."""
    meta = os.path.join(vlib.workdir(PID, "tlc_trace_" + tag), "meta")
    jtmp = os.path.join(vlib.workdir(PID, "tlc_trace_" + tag), "jtmp")
    os.makedirs(jtmp, exist_ok=True)
    env = dict(os.environ, TRACE=trace_path)
    p = subprocess.run(TRACE_JAVA[:1] + ["-Djava.io.tmpdir=" + jtmp] + TRACE_JAVA[1:] + ["-metadir", meta, "-config", os.path.join(vlib.SPEC, "ResolverTrace.cfg"), os.path.join(vlib.SPEC, "ResolverTrace.tla")],
                       cwd=vlib.SPEC, env=env, stdout=subprocess.PIPE, stderr=subprocess.STDOUT, text=True, timeout=1800)
    out = p.stdout
    if "Model checking completed. No error has been found." in out:
        return True, ""
    import re
    m = re.search(r'"TRACE-REJECTED at line",\s*(\d+),\s*(\[[^\]]*\])', out)
    if m:
        return False, "rejected at line %s: %s" % (m.group(1), re.sub(r"\s+", " ", m.group(2)))
    m = re.search(r"Invariant (\S+) is violated", out)
    if m:
        return False, "invariant %s violated" % m.group(1)
    raise vlib.ToolError("trace validation did not complete:\n" + out[-1500:])


def engine_b(v, tier, seed):
    """free-running threads, recorded events validated against the specification"""
    q = tier == "quick"
    wd = vlib.workdir(PID, "trace")
    runs = 150 if q else 1500
    batches = 4 if q else 12
    stats = {"runs": 0, "events": 0, "blocks": 0, "cached_runs": 0, "cyclic_runs": 0, "batches": batches, "event_kinds": {}}

    def one(b):
        tp, rp = os.path.join(wd, "trace_%d.ndjson" % b), os.path.join(wd, "report_%d.json" % b)
        p = subprocess.run([vlib.BIN, "restrace", tp, rp, "--seed", str(seed * 1000 + b), "--runs", str(runs), "--threads", "4", "--keys", "6", "--loads", "8"],
                           stdout=subprocess.PIPE, stderr=subprocess.PIPE, text=True, timeout=1200)
        if p.returncode != 0:
            return b, tp, None, "recorder died (exit %s): %s" % (p.returncode, p.stderr[-600:])
        return b, tp, json.load(open(rp)), None
    with cf.ThreadPoolExecutor(max_workers=4) as ex:
        recs = list(ex.map(one, range(batches)))
    with cf.ThreadPoolExecutor(max_workers=4) as ex:
        vals = list(ex.map(lambda r: (r[0], validate_trace(r[1], str(r[0])) if r[2] else (False, r[3])), recs))
    vd = dict(vals)
    for b, tp, rep, err in recs:
        ok, detail = vd[b]
        if rep:
            for k in ("runs", "events", "blocks", "cached_runs", "cyclic_runs"):
                stats[k] += rep[k]
            if rep["deadlocks"]:
                ok, detail = False, "a cache wait did not end (%d runs)" % rep["deadlocks"]
            for line in open(tp):
                e = json.loads(line)["ev"]
                stats["event_kinds"][e] = stats["event_kinds"].get(e, 0) + 1
        if not ok:
            import re
            m = re.search(r'ev \|-> "(\w+)"', detail)
            cls = "trace:rejected:" + m.group(1) if m else "trace:" + detail.split(":")[0].split(" violated")[0].replace(" ", "-")
            v.failure(cls, {"class": cls, "trace": tp, "detail": detail, "seed": seed * 1000 + b})
    # vacuity and binding: every kind of event occurred, and a corrupted trace is rejected
    need = ["pushed", "recursive", "popped", "lpushed", "lpopped", "c_skip", "c_mark", "c_hit_ok", "c_hit_err", "c_block", "c_wake_ok", "c_publish_ok", "c_publish_err", "end"]
    missing = [k for k in need if stats["event_kinds"].get(k, 0) == 0]
    if missing and not v.violations:
        raise vlib.ToolError("trace validation is vacuous: no event of kind %s recorded" % missing)
    b0 = recs[0]
    if b0[2] and vd[0][0]:
        lines = open(b0[1]).read().splitlines()
        idx = next(i for i, ln in enumerate(lines) if '"c_publish_ok"' in ln)
        lines[idx] = lines[idx].replace("c_publish_ok", "c_publish_err")
        cp = os.path.join(wd, "corrupted.ndjson")
        open(cp, "w").write("\n".join(lines) + "\n")
        okc, _ = validate_trace(cp, "corrupt")
        if okc:
            raise vlib.ToolError("binding self-test failed: a trace with a corrupted event was accepted")
        stats["corrupted_trace_rejected"] = True
    return stats


def run(tier, seed):
    t0 = time.time()
    v = vlib.Verdict(PID)
    q = tier == "quick"
    mc_cfgs = ["Resolver_mc2.cfg", "Resolver_mc3.cfg", "Resolver_mcdir.cfg", "Resolver_mcrep.cfg", "Resolver_live.cfg"]
    gen_cfgs = ["Resolver_gen21q.cfg" if q else "Resolver_gen21.cfg", "Resolver_gen22.cfg", "Resolver_gen31.cfg", "Resolver_gendir.cfg", "Resolver_genrep.cfg"]
    wits = [("Resolver_w_shared_chain.cfg", "shared_chain"), ("Resolver_w_cache_wait.cfg", "cache_wait_unbounded"),
            ("Resolver_w_loading_pops_last.cfg", "loading_pops_last"),
            ("Resolver_w_budget_reset.cfg", "budget_reset_needs_idle_resolver")]
    tlc_runs, cov = [], {}
    states = trans = 0
    cases = []
    with cf.ThreadPoolExecutor(max_workers=3) as ex:
        f_mc = [(c, ex.submit(vlib.run_tlc, "MC_Resolver", c, PID, c[:-4], workers=4, timeout=1800, heap="8g")) for c in mc_cfgs]
        f_gen = [(c, ex.submit(vlib.run_tlc, "MC_Resolver", c, PID, c[:-4], workers=6, timeout=2400, heap="16g", coverage=False)) for c in gen_cfgs]
        f_w = [(d, ex.submit(vlib.run_tlc, "MC_Resolver", c, PID, c[:-4], workers=2, timeout=600, expect_violation=True, coverage=False)) for c, d in wits]
        for c, f in f_mc:
            r = f.result()
            tlc_runs.append({"cfg": c, "distinct": r["distinct"], "generated": r["generated"], "wall_s": r["wall_s"]})
            if r["violation"]:
                v.model_violation("Resolver:%s:%s" % (c, r["violation"]), r)
            states += r["distinct"]; trans += r["generated"]
            for k, n in r["coverage"].items():
                cov[k] = cov.get(k, 0) + n
        for c, f in f_gen:
            r = f.result()
            cs = r["cases"] if "gen21" in c else drop_prefixes(r["cases"])
            tlc_runs.append({"cfg": c, "distinct": r["distinct"], "generated": r["generated"], "schedules": len(cs), "wall_s": r["wall_s"]})
            states += r["distinct"]; trans += r["generated"]
            cases += cs
        wit = {d: f.result()["violation"] for d, f in f_w}
    for act in ("DoGuardEnter", "DoCacheEnter", "DoWake", "DoCachePublish", "DoGuardExit", "DoLoadEnter", "DoLoadExit"):
        if cov.get(act, 0) == 0:
            raise vlib.ToolError("vacuous TLC run: action %s never taken" % act)
    for d, viol in wit.items():
        if not viol:
            raise vlib.ToolError("deviation %s is no longer refuted by the model (spec rot)" % d)
    sim = vlib.run_tlc("MC_Resolver", "Resolver_sim.cfg", PID, "sim", workers=1, timeout=30 if q else 300,
                       simulate=1000 if q else 100000, depth=80, seed=seed)
    tlc_runs.append({"cfg": "Resolver_sim.cfg (simulate)", "schedules": len(sim["cases"]), "wall_s": sim["wall_s"]})
    cases += sim["cases"]
    cases = list(dict.fromkeys(cases))
    wd = vlib.workdir(PID)
    rep, aborted, shards = replay_cases(cases, wd)
    v.from_report(rep)
    for i, rc, at, err in aborted:
        path = os.path.join(v.rdir, "abort_shard_%d.json" % i)
        case = json.loads(shards[i][at]) if 0 <= at < len(shards[i]) else None
        json.dump({"class": "abort", "case": case, "exit": rc, "stderr": err}, open(path, "w"))
        v.violations.append(("abort(exit %s)" % rc, path))
    # the recorded finding against the real globalcache SyncCache (TLC counterexample schedule, child process)
    pr = subprocess.run([vlib.BIN, "synccache-probe"], stdout=subprocess.PIPE, stderr=subprocess.PIPE, text=True, timeout=120)
    probe = [l for l in pr.stdout.splitlines() if l.startswith("PROBE")]
    probe = probe[-1] if probe else "PROBE none (exit %s)" % pr.returncode
    if "end=hang" in probe or "end=deadlock" in probe:
        v.failure("asbuilt:cache_wait_unbounded", {"class": "asbuilt:cache_wait_unbounded", "probe": probe}, True)
    elif "end=done" not in probe:
        v.violations.append(("synccache-probe:" + probe, os.path.join(v.rdir, "probe.txt")))
        open(os.path.join(v.rdir, "probe.txt"), "w").write(pr.stdout + pr.stderr)
    tstats = engine_b(v, tier, seed)
    rc = v.finish()
    vlib.write_evidence(PID, tier, seed, "model_checking", {
        "states": states, "transitions": trans,
        "traces_validated_against_impl": rep["cases"],
        "samples": rep["samples"][:2],
        "evaluations": rep["execs"], "distinct_nontrivial": rep["nontrivial"],
        "rule": "schedules = sequences of thread steps between the yield points guard?/cache?/publish?/exit?/blocked: ALL interleavings of 2 threads x 1 load "
                "(graphs: independent, chain, join, 2-cycle, self-loop; shared/per-thread resolver; cache on/off), a transition cover (one path per distinct "
                "model state, prefixes dropped, completed serially) of 2 threads x 2 loads and 3 threads x 1 load, and seeded random complete walks; each is "
                "replayed on real threads by the baton scheduler; per-call results are compared with the spec's SeqAnswer and with a real lone run; "
                "non-trivial = the schedule switches between threads; evaluations = scheduler steps executed",
        "exhaustive": False,
        "schedules_replayed": rep["cases"], "scheduler_steps": rep["counters"].get("steps", 0), "schedule_drift": rep["counters"].get("drift", 0),
        "tlc_runs": tlc_runs, "action_coverage": cov, "deviation_witnesses_refuted": wit,
        "liveness": "Termination checked under weak fairness (Resolver_live.cfg, no state constraint, no VIEW)",
        "known_findings_hit": sorted(v.known_hit), "harness_counters": rep["counters"],
        "real_synccache_probe": probe,
        "trace_validation": dict(tstats, rule="Engine B: free-running threads (2-4 threads, up to 8 loads each, 6 keys, random dependency chains and cycles, shared / per-thread resolver, "
                                 "cache on (acyclic graphs) / off), one event per critical section recorded inside the lock that orders it, runs concatenated; TLC accepts a trace iff every "
                                 "event is the corresponding Resolver.tla action enabled for the recorded thread and key, the recorded answers equal the model's results, and "
                                 "TypeOK, SequentialAnswers, NoPanic, InProcHasOwner hold in every state; a trace with one corrupted event must be rejected"),
    }, ["bounded: 2-3 threads, 1-3 loads each, 3 keys, dependency graphs with <= 1 eager dependency per key are replayed (fan-out graphs are model-checked only)",
        "the instrumented caches (harness/src/sched.rs VCache for schedule replay, TCache for trace recording) follow the protocol of globalcache SyncCache::get; the real SyncCache is exercised by the probe",
        "trace recording excludes cache-on runs over cyclic dependency graphs (threads may wait for each other there: the recorded finding, decided by schedule replay)",
        "hooks: cfg(pdf_rs_pdf_verif) yield/log points in StorageResolver::get (commit 5526931 in /repo)"],
        time.time() - t0, len(v.violations))
    return rc


def replay(path, seed):
    rec = json.load(open(path))
    if rec.get("trace"):
        # a recorded trace: record again with the same seed (the interleaving is not reproducible, the workload is) and validate both
        v = vlib.Verdict(PID)
        wd = vlib.workdir(PID, "replay_trace")
        vlib.build_harness()
        tp = os.path.join(wd, "trace.ndjson")
        subprocess.run([vlib.BIN, "restrace", tp, os.path.join(wd, "report.json"), "--seed", str(rec.get("seed", 1)), "--runs", "150", "--threads", "4", "--keys", "6", "--loads", "8"], check=True)
        for name, t in (("recorded", rec["trace"]), ("fresh", tp)):
            if os.path.exists(t):
                ok, detail = validate_trace(t, "replay_" + name)
                vlib.log("%s trace %s: %s" % (name, t, "accepted" if ok else detail))
                if not ok:
                    v.failure(rec["class"], rec)
        return v.finish()
    if not rec.get("case"):
        vlib.log(open(path).read()[:4000])
        return 1
    wd = vlib.workdir(PID, "replay_run")
    rep, aborted, _ = replay_cases([json.dumps(rec["case"])], wd)
    v = vlib.Verdict(PID)
    v.from_report(rep)
    for f in rep["failures"][:5]:
        vlib.log(json.dumps({k: f[k] for k in ("class", "expected", "observed", "observed_end", "results") if k in f}))
    for a in aborted:
        v.violations.append(("abort", path))
    return v.finish()
