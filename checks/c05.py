"""C05 - stream filters decode what standard encoders produce."""
from checks import common

PID = "C05"
WIT = [("Filters_w_hex_odd_dropped.cfg", "hex_odd_dropped"), ("Filters_w_rl_unchecked_index.cfg", "rl_unchecked_index"),
       ("Filters_w_up_avg_swapped.cfg", "up_avg_swapped"), ("Filters_w_chain_reversed.cfg", "chain_reversed"), ("Filters_w_parms_shifted.cfg", "parms_shifted")]


def run(tier, seed):
    q = tier == "quick"
    return common.run_enum(PID, tier, seed, "MC_Filters", "filters", ["Filters_q.cfg"] if q else ["Filters_q.cfg", "Filters_t.cfg"], WIT, actions=[],
        rule="every case of the spec's five parts: hex strings <= 5 over {digit, digit, white-space, EOD, illegal}, ASCII85 structures <= 6 over {digit, z, white-space, ~>, illegal}, "
             "<= 3 run-length runs incl. input ending inside a run, PNG rows (3 bytes over 4 sample values x previous row x 5 tags x bpp 1/3) encoded by the spec's reference "
             "predictor, filter chains <= 3 over 5 filters with parameter patterns (as stream dictionaries, /Filter name or array, /DecodeParms with nulls), each concretised with "
             "seeded random payloads and the harness' reference encoders (flate2 zlib and raw deflate, weezl LZW, own hex/85/RL/PNG/TIFF); conformant input must decode to the "
             "payload, corrupted input must not panic; plus fixed parameter combinations the statement lists and sweeps of the numeric cores against the spec's formulas: all "
             "2^24 Paeth triples, all hex digit pairs, all 256 run-length headers, 2^18 (quick) / 2^24 (thorough) seeded ASCII85 words + boundary words; every truncation of "
             "six encoded samples; non-trivial = >= 2 symbols",
        assumptions=["Flate (libflate) and LZW (weezl) cores are uninterpreted in the spec and exercised only through the reference encoders' output",
                     "the ASCII85 sweep is sampled (2^32 words are not enumerated)"],
        harness_opts=[] if q else ["--all-variants"], level="model_checking", exhaustive=False)


def replay(path, seed):
    return common.replay_generic(PID, "filters", path, opts=(), show=("class", "data", "dict", "expected", "observed", "params"))
