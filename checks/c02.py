"""C02 - the newest cross-reference entry for an object always wins.
TLC: spec/XRef.tla (Mech reader => NewestWins on every well-formed history within the bound) and
emission of every history; Engine A: rx_xref.rs realises each history as a real multi-revision
file and resolves every object number through the library."""
import json, os, time
from lib import vlib

PID = "C02"
WITNESSES = [("XRef_w_stream.cfg", "stream_entry_overwritten"), ("XRef_w_ge.cfg", "merge_ge"),
             ("XRef_w_prev.cfg", "prev_skips_one")]


def run(tier, seed):
    t0 = time.time()
    v = vlib.Verdict(PID)
    cfgs = ["XRef_q.cfg", "XRef_q3.cfg"] if tier == "quick" else ["XRef_q.cfg", "XRef_q3.cfg", "XRef_t3.cfg", "XRef_t2r.cfg"]
    states = trans = 0
    cases = []
    cov = {}
    tlc_runs = []
    for cfg in cfgs:
        r = vlib.run_tlc("MC_XRef", cfg, PID, cfg[:-4], workers=8, timeout=1500, heap="8g")
        tlc_runs.append({"cfg": cfg, "distinct": r["distinct"], "generated": r["generated"], "cases": len(r["cases"]), "wall_s": r["wall_s"]})
        if r["violation"]:
            v.model_violation("XRef:%s:%s" % (cfg, r["violation"]), r)
        states += r["distinct"]; trans += r["generated"]
        cases += r["cases"]
        for k, n in r["coverage"].items():
            cov[k] = cov.get(k, 0) + n
    for act in ("AppendSection", "StartRead", "MergeSection", "Finish"):
        if cov.get(act, 0) == 0:
            raise vlib.ToolError("vacuous TLC run: action %s never taken" % act)
    # every deviation switch must be refuted by TLC (spec adequacy / no vacuity)
    wit = {}
    for cfg, dev in WITNESSES:
        r = vlib.run_tlc("MC_XRef", cfg, PID, cfg[:-4], workers=4, timeout=600, expect_violation=True, coverage=False)
        wit[dev] = r["violation"]
        if not r["violation"]:
            raise vlib.ToolError("deviation %s is no longer refuted by the model (spec rot)" % dev)
    if tier == "thorough":
        r = vlib.run_tlc("MC_XRef", "XRef_sim.cfg", PID, "sim", workers=1, timeout=120, simulate=3000, depth=12, seed=seed)
        tlc_runs.append({"cfg": "XRef_sim.cfg (simulate)", "cases": len(r["cases"]), "wall_s": r["wall_s"]})
        cases += r["cases"]
    cases = list(dict.fromkeys(cases))
    wd = vlib.workdir(PID)
    cpath = os.path.join(wd, "cases.ndjson")
    vlib.write_cases(cases, cpath)
    opts = ["--seed=%d" % seed] + (["--all-variants"] if tier == "thorough" else [])
    if len(cases) > 20000:
        rep = vlib.run_harness_sharded("xref", cases, wd, opts, shards=12)
        json.dump(rep, open(os.path.join(wd, "report.json"), "w"))
    else:
        rep = vlib.run_harness("xref", cpath, os.path.join(wd, "report.json"), opts)
    v.from_report(rep)
    rc = v.finish()
    vlib.write_evidence(PID, tier, seed, "model_checking", {
        "states": states, "transitions": trans,
        "traces_validated_against_impl": rep["execs"],
        "samples": rep["samples"],
        "evaluations": rep["execs"], "distinct_nontrivial": rep["nontrivial"],
        "rule": "every history TLC enumerates (one per distinct terminal state) is written as a real file in several layouts "
                "(subsection splitting, /W widths, filters, junk prefix) and read strict+tolerant via Storage and File; "
                "non-trivial = some object number is mentioned by >= 2 sections",
        "exhaustive": True,
        "histories": rep["cases"], "tlc_runs": tlc_runs, "action_coverage": cov,
        "deviation_witnesses_refuted": wit, "known_findings_hit": sorted(v.known_hit), "harness_counters": rep["counters"],
    }, ["bounded: object numbers 1..3, <= 2 (quick) / <= 3 (thorough) sections; hybrid /XRefStm files out of scope",
        "the harness' own PDF writer (mkpdf) realises the model's histories faithfully",
        "values are one-key dictionaries; storage-kind sensitivity of values is C11's subject"],
        time.time() - t0, len(v.violations))
    return rc


def replay(path, seed):
    rec = json.load(open(path))
    if "case" not in rec:
        vlib.log(open(path).read()[:4000])
        return 1
    wd = vlib.workdir(PID, "replay_run")
    cpath = os.path.join(wd, "case.ndjson")
    vlib.write_cases([json.dumps(rec["case"])], cpath)
    rep = vlib.run_harness("xref", cpath, os.path.join(wd, "report.json"), ["--all-variants"])
    v = vlib.Verdict(PID)
    v.from_report(rep)
    for f in rep["failures"][:5]:
        vlib.log(json.dumps({k: f[k] for k in ("class", "object", "expected", "observed", "variant", "path") if k in f}))
    return v.finish()
