"""C14 - hostile but well-formed object graphs end in an error, not a crash."""
import json, os, time, concurrent.futures as cf
from lib import vlib, walk, schema_frags as S

PID = "C14"
SLOW_MS = 4000
WITNESSES = [("Schema_w_walk.cfg", "walk_unguarded"), ("Schema_w_guard.cfg", "no_guard"), ("Schema_w_budget.cfg", "no_budget"),
             ("Schema_w_loop.cfg", "unchecked:loop"), ("Schema_w_index.cfg", "unchecked:index")]


def sig(c):
    return "%s%s[%s|%s]" % (c["frag"], "+shift" if c.get("shift") else "", ",".join("%s=%s" % kv for kv in sorted(c["refs"].items())), ",".join("%s=%s" % kv for kv in sorted(c["nums"].items()) if kv[1] != "sane"))


def concretise(model_cases):
    out = []
    for k, c in enumerate(model_cases):
        b = S.build(c["frag"], c["refs"], c["nums"])
        if c.get("shift"):
            b = b"%junk before the header, 33 bytes.\n" + b       # offsets are relative to the header
        out.append({"id": k, "cls": sig(c), "hex": b.hex(), "frag": c["frag"]})
    return out


# hand-written decoders: (model name of the registry, well-formed value, [(label, value leading back to object 10)])
HAND_SELF = [
    ("Font", "<< /Type /Font /Subtype /Type1 /BaseFont /Helvetica >>",
     [("Encoding", "<< /Type /Font /Subtype /Type1 /BaseFont /Helvetica /Encoding 10 0 R >>"),
      ("ToUnicode", "<< /Type /Font /Subtype /Type1 /BaseFont /Helvetica /ToUnicode 10 0 R >>"),
      ("FontDescriptor", "<< /Type /Font /Subtype /Type1 /BaseFont /Helvetica /FontDescriptor 10 0 R >>"),
      ("Widths", "<< /Type /Font /Subtype /Type1 /BaseFont /Helvetica /FirstChar 0 /LastChar 0 /Widths 10 0 R >>"),
      ("DescendantFonts", "<< /Type /Font /Subtype /Type0 /BaseFont /A /Encoding /Identity-H /DescendantFonts 10 0 R >>"),
      ("DescendantFonts[]", "<< /Type /Font /Subtype /Type0 /BaseFont /A /Encoding /Identity-H /DescendantFonts [10 0 R] >>"),
      ("CIDToGIDMap", "<< /Type /Font /Subtype /CIDFontType2 /BaseFont /A /CIDSystemInfo << /Registry (A) /Ordering (I) /Supplement 0 >> /CIDToGIDMap 10 0 R >>"),
      ("W", "<< /Type /Font /Subtype /CIDFontType2 /BaseFont /A /CIDSystemInfo << /Registry (A) /Ordering (I) /Supplement 0 >> /W 10 0 R >>"),
      ("W[]", "<< /Type /Font /Subtype /CIDFontType2 /BaseFont /A /CIDSystemInfo << /Registry (A) /Ordering (I) /Supplement 0 >> /W [1 10 0 R] >>")]),
    ("Encoding", "<< /Type /Encoding /BaseEncoding /WinAnsiEncoding >>",
     [("BaseEncoding", "<< /Type /Encoding /BaseEncoding 10 0 R >>"), ("Differences", "<< /Type /Encoding /Differences 10 0 R >>"),
      ("Differences[]", "<< /Type /Encoding /Differences [1 10 0 R] >>")]),
    ("ColorSpace", "/DeviceGray",
     [("ICCBased", "[/ICCBased 10 0 R]"), ("Indexed.base", "[/Indexed 10 0 R 1 <0000>]"), ("Indexed.lookup", "[/Indexed /DeviceGray 1 10 0 R]"),
      ("Separation.alt", "[/Separation /A 10 0 R << /FunctionType 2 /Domain [0 1] /N 1 >>]"), ("Separation.tint", "[/Separation /A /DeviceGray 10 0 R]"),
      ("DeviceN.names", "[/DeviceN 10 0 R /DeviceGray << /FunctionType 2 /Domain [0 1] /N 1 >>]"), ("DeviceN.attr", "[/DeviceN [/A] /DeviceGray << /FunctionType 2 /Domain [0 1] /N 1 >> 10 0 R]"),
      ("Pattern", "[/Pattern 10 0 R]"), ("CalRGB", "[/CalRGB 10 0 R]"), ("Lab", "[/Lab 10 0 R]")]),
    ("Dest", "[3 0 R /Fit]", [("page", "[10 0 R /Fit]"), ("whole", "10 0 R"), ("XYZ", "[3 0 R /XYZ 10 0 R 10 0 R 10 0 R]")]),
    ("MaybeNamedDest", "[3 0 R /Fit]", [("whole", "10 0 R"), ("D", "<< /D 10 0 R >>")]),
    ("Action", "<< /S /GoTo /D [3 0 R /Fit] >>", [("D", "<< /S /GoTo /D 10 0 R >>"), ("S", "<< /S 10 0 R >>"), ("Next", "<< /S /GoTo /D [3 0 R /Fit] /Next 10 0 R >>")]),
    ("Rectangle", "[0 0 1 1]", [("element", "[0 0 1 10 0 R]"), ("whole", "10 0 R")]),
    ("Matrix", "[1 0 0 1 0 0]", [("element", "[1 0 0 1 0 10 0 R]"), ("whole", "10 0 R")]),
    ("Date", "(D:20200101000000Z)", [("whole", "10 0 R")]),
    ("CidToGidMap", "/Identity", [("whole", "10 0 R")]),
]


def typed_cases(assignments):
    """the fragment `typedfield` instantiated for every keyed entry of every typed model (and the hand-written decoders):
    object 10 and 11 are values of the model whose entry refers to F10 / F11 (10, 11, or 12 = a well-formed value without
    the entry), as a direct entry, an array element and a dictionary value"""
    import re
    from lib import models
    ms = models.extract()
    by = {m["name"]: m for m in ms}
    # assignments that differ as seen from object 10
    assigns = sorted({(a["F10"], a["F11"] if a["F10"] == 11 else 12) for a in assignments})
    out = []

    def add(model, label, a, make):
        """make(target) -> text of an object whose entry refers to `target`; make(None) -> the well-formed value"""
        objs = {1: b"<< /Type /Catalog /Pages 2 0 R >>", 2: b"<< /Type /Pages /Kids [3 0 R] /Count 1 >>",
                3: b"<< /Type /Page /Parent 2 0 R /MediaBox [0 0 10 10] /Contents 4 0 R /Resources << >> >>", 4: S._stream_body("<< >>", S.CONTENT),
                10: make(a[0]).encode("latin-1"), 11: make(a[1]).encode("latin-1"), 12: make(None).encode("latin-1")}
        for k, t in models.AUX.items():
            objs[k] = t.encode()
        b = S._write_table(objs, "")
        out.append({"id": len(out), "cls": "typedfield:%s[%s|F10=%d,F11=%d]" % (model, label, a[0], a[1]), "hex": b.hex(), "frag": "typedfield", "typed": [[model, 10]]})

    for m in ms:
        base = models.minimal(m, by)
        if base is False:
            continue
        for f in m["fields"]:
            if f["other"] or f["skip"] or f["key"] is None:
                continue
            body = re.sub(r"/%s (\[[^\]]*\]|<<.*?>>|\([^)]*\)|\S+( 0 R)?)" % re.escape(f["key"]), "", base[2:-2], count=1).strip()
            # (the last shape names the object with another generation number than the one it is reached by: the reader
            # finds objects by number, so the reference still leads back to the same object)
            for label, shape in (("entry", "%d 0 R"), ("element", "[%d 0 R]"), ("value", "<< /E %d 0 R >>"), ("entry-gen1", "%d 1 R")):
                def make(t, body=body, key=f["key"], shape=shape, base=base):
                    return base if t is None else "<< %s /%s %s >>" % (body, key, shape % t)
                for a in assigns:
                    add(m["name"], "%s:%s" % (f["key"], label), a, make)
    for model, good, variants in HAND_SELF:
        for label, val in variants:
            def make(t, val=val, good=good):
                return good if t is None else val.replace("10 0 R", "%d 0 R" % t)
            for a in assigns:
                add(model, label, a, make)
    return out


def shape_cases(assignments):
    """the fragment `typedshape` instantiated for every keyed entry of every typed model: the entry's value is the shape the
    model's assignment selects (one deviating slot = that shape; both = the first)"""
    import re
    from lib import models
    ms = models.extract()
    by = {m["name"]: m for m in ms}
    shapes = sorted({S.SHAPES[k][a[k]] for a in assignments for k in ("SH1", "SH2") if a.get(k, "sane") != "sane"})
    out = []

    def add(model, label, body10):
        objs = {1: b"<< /Type /Catalog /Pages 2 0 R >>", 2: b"<< /Type /Pages /Kids [3 0 R] /Count 1 >>",
                3: b"<< /Type /Page /Parent 2 0 R /MediaBox [0 0 10 10] /Contents 4 0 R /Resources << >> >>", 4: S._stream_body("<< >>", S.CONTENT),
                10: body10.encode("latin-1")}
        for k, t in models.AUX.items():
            objs[k] = t.encode()
        out.append({"id": len(out), "cls": "typedshape:%s[%s]" % (model, label), "hex": S._write_table(objs, "").hex(), "frag": "typedshape", "typed": [[model, 10]]})

    for m in ms:
        base = models.minimal(m, by)
        if base is False:
            continue
        for f in m["fields"]:
            if f["other"] or f["skip"] or f["key"] is None:
                continue
            body = re.sub(r"/%s (\[[^\]]*\]|<<.*?>>|\([^)]*\)|\S+( 0 R)?)" % re.escape(f["key"]), "", base[2:-2], count=1).strip()
            for sh in shapes:
                add(m["name"], "%s=%s" % (f["key"], sh), "<< %s /%s %s >>" % (body, f["key"], sh))
    for model, good, variants in HAND_SELF:
        for sh in shapes:
            add(model, "whole=%s" % sh, sh)
    return out


def judge(v, concrete, results, deaths, expect):
    """expect: sig -> set of model results for tree-walk fragments"""
    n_nontrivial = 0
    base = {}        # per fragment: the number of error values of its least erroneous case (beyond-range page lookups etc.)
    byid0 = {c["id"]: c for c in concrete}
    for r in results:
        f = byid0[r["id"]]["frag"]
        base[f] = min(base.get(f, 1 << 30), r["errs"])
    for d in deaths:
        frag = d["case"]["frag"]
        v.failure("died:%s:%s" % (d["kind"], frag), {"class": "died:%s:%s" % (d["kind"], frag), "case_sig": d["case"]["cls"], "hex": d["case"]["hex"], "rc": d["rc"], "stderr_tail": d["stderr_tail"]})
    byid = {c["id"]: c for c in concrete}
    for r in results:
        c = byid[r["id"]]
        if r["errs"] > base[c["frag"]] or r["panics"] or not r["loaded"]:
            n_nontrivial += 1
        for p in r["panics"]:
            cls = p["outcome"]
            v.failure(cls, {"class": cls, "entry": p["entry"], "config": p["config"], "case_sig": c["cls"], "hex": c["hex"]})
        if r["ms"] > SLOW_MS:
            v.failure("slow:%s" % c["frag"], {"class": "slow:%s" % c["frag"], "ms": r["ms"], "case_sig": c["cls"], "hex": c["hex"]})
        # binding of the walk model: a graph the model refuses (revisited node) must not be walked successfully
        exp = expect.get(c["cls"])
        if exp and r.get("detail"):
            walks = [d for d in r["detail"] if d[0].endswith(".walk")]
            for name, outc in walks:
                if exp == {"err"} and outc == "ok":
                    v.failure("walk-accepts-revisit:%s" % c["frag"], {"class": "walk-accepts-revisit:%s" % c["frag"], "case_sig": c["cls"], "hex": c["hex"], "entry": name})
    return n_nontrivial


def run(tier, seed):
    t0 = time.time()
    q = tier == "quick"
    v = vlib.Verdict(PID)
    cfg = "Schema_q.cfg" if q else "Schema_t.cfg"
    with cf.ThreadPoolExecutor(max_workers=3) as ex:
        main = ex.submit(vlib.run_tlc, "MC_Schema", cfg, PID, cfg[:-4], workers=6 if q else 12, timeout=3000, heap="8g")
        wf = [(dev, ex.submit(vlib.run_tlc, "MC_Schema", c, PID, c[:-4], workers=2, timeout=600, expect_violation=True, coverage=False)) for c, dev in WITNESSES]
        r = main.result()
        wit = {dev: f.result()["violation"] for dev, f in wf}
    if r["violation"]:
        v.model_violation("MC_Schema:%s:%s" % (cfg, r["violation"]), r)
    for act in ("NumStep", "Follow", "Return", "Descend", "Stop", "LazyStep"):
        if r["coverage"].get(act, 0) == 0:
            raise vlib.ToolError("vacuous TLC run: action %s never taken" % act)
    for dev, viol in wit.items():
        if not viol:
            raise vlib.ToolError("deviation %s is no longer refuted by the model (spec rot)" % dev)
    model_cases, expect = [], {}
    for s in r["cases"]:
        c = json.loads(s)
        for k in ("refs", "nums"):          # an empty TLA+ function is printed as an empty sequence
            if c[k] == []:
                c[k] = {}
        if c["kind"] == "case":
            model_cases.append(c)
        else:
            expect.setdefault(sig(c), set()).add(c["result"])
    model_cases.sort(key=lambda c: (c["frag"], sorted(c["refs"].items()), sorted(c["nums"].items())))
    frs = sorted({c["frag"] for c in model_cases})
    if frs != sorted(S.ORDER):
        raise vlib.ToolError("fragment table of the model and of the replay differ")
    typed = typed_cases([c["refs"] for c in model_cases if c["frag"] == "typedfield"])
    shaped = shape_cases([c["nums"] for c in model_cases if c["frag"] == "typedshape"])
    concrete = concretise([c for c in model_cases if c["frag"] not in ("typedfield", "typedshape")])
    for c in typed + shaped:
        c["id"] = len(concrete)
        concrete.append(c)
    results, deaths = walk.run(PID, "walk", concrete, shards=14, secs=20, extra=("--detail",))
    if len(results) + len(deaths) != len(concrete):
        raise vlib.ToolError("replay lost cases: %d results + %d deaths != %d" % (len(results), len(deaths), len(concrete)))
    nontrivial = judge(v, concrete, results, deaths, expect)
    rc = v.finish()
    per_frag = {}
    for c in concrete:
        per_frag[c["frag"]] = per_frag.get(c["frag"], 0) + 1
    samples = [c["cls"] for c in concrete[:: max(1, len(concrete) // 3)]][:3]
    cov = {"states": r["distinct"], "transitions": r["generated"], "traces_validated_against_impl": len(concrete), "samples": samples,
           "evaluations": sum(x["calls"] for x in results), "distinct_nontrivial": nontrivial,
           "rule": "TLC enumerates, per schema fragment, every assignment of every reference slot to every object of the fragment and of every numeric slot to the boundary "
                   "values {-1, 0, 1, 2^31-1, 2^32-1, 2^64-1} (quick: one deviating numeric slot at a time with default references, thorough: up to two, and every reference "
                   "assignment crossed with every single numeric deviation) and checks on the traversal model that the recursion depth stays bounded, every traversal ends in ok/err "
                   "and terminates; each assignment is written as a complete file and every read entry point (open, pages, boxes, resources, fonts with widths / ToUnicode / embedded data, "
                   "images, forms, content operators, name and number tree walks, outline steps, every object by number incl. stream decoding, recovery scan) is called under "
                   "{strict, tolerant} x {cached, uncached} in child processes with a 20 s watchdog per configuration and a 3 GiB address-space cap; a panic, process death, "
                   "case slower than %d ms or a tree walk that succeeds on a graph the model refuses is a failure; non-trivial = the library answered with more error values than for the fragment's well-formed assignment" % SLOW_MS,
           "exhaustive": True, "fragments": per_frag, "process_deaths": len(deaths), "tlc": {"cfg": cfg, "wall_s": r["wall_s"]},
           "action_coverage": r["coverage"], "deviation_witnesses_refuted": wit, "known_findings_hit": sorted(v.known_hit),
           "slowest_ms": max([x["ms"] for x in results] + [0])}
    vlib.write_evidence(PID, tier, seed, "model_checking", cov,
                        ["fragments hold at most 5 objects; reference slots and numeric slots are those listed in lib/schema_frags.py",
                         "time / memory 'out of proportion' is decided as: more than %d ms for a file under 25 KB, or more than 3 GiB of address space" % SLOW_MS,
                         "the traversal model abstracts which kid a page lookup descends into (nondeterministic choice)"],
                        time.time() - t0, len(v.violations))
    return rc


def replay(path, seed):
    rec = json.load(open(path))
    if "hex" not in rec:
        print(json.dumps(rec)[:2000])
        return 1
    concrete = [{"id": 0, "cls": rec.get("case_sig", ""), "hex": rec["hex"], "frag": rec.get("case_sig", "?").split("[")[0]}]
    results, deaths = walk.run(PID, "replay_walk", concrete, shards=1, secs=20, extra=("--detail",))
    v = vlib.Verdict(PID)
    judge(v, concrete, results, deaths, {})
    for r in results:
        print("calls:", [d for d in r.get("detail", []) if d[1] != "ok"][:40])
    for d in deaths:
        print("process died:", d["kind"], d["stderr_tail"][-300:])
    return v.finish()
