"""C14 - hostile but well-formed object graphs end in an error, not a crash."""
import json, os, time, concurrent.futures as cf
from lib import vlib, walk, schema_frags as S

PID = "C14"
SLOW_MS = 4000
WITNESSES = [("Schema_w_walk.cfg", "walk_unguarded"), ("Schema_w_guard.cfg", "no_guard"), ("Schema_w_budget.cfg", "no_budget"),
             ("Schema_w_loop.cfg", "unchecked:loop"), ("Schema_w_index.cfg", "unchecked:index")]


def sig(c):
    return "%s%s[%s|%s]" % (c["frag"], "+shift" if c.get("shift") else "", ",".join("%s=%s" % kv for kv in sorted(c["refs"].items())), ",".join("%s=%s" % kv for kv in sorted(c["nums"].items()) if kv[1] != "sane"))


def concretise(model_cases):
    out = []
    for k, c in enumerate(model_cases):
        b = S.build(c["frag"], c["refs"], c["nums"])
        if c.get("shift"):
            b = b"%junk before the header, 33 bytes.\n" + b       # offsets are relative to the header
        out.append({"id": k, "cls": sig(c), "hex": b.hex(), "frag": c["frag"]})
    return out


def judge(v, concrete, results, deaths, expect):
    """expect: sig -> set of model results for tree-walk fragments"""
    n_nontrivial = 0
    base = {}        # per fragment: the number of error values of its least erroneous case (beyond-range page lookups etc.)
    byid0 = {c["id"]: c for c in concrete}
    for r in results:
        f = byid0[r["id"]]["frag"]
        base[f] = min(base.get(f, 1 << 30), r["errs"])
    for d in deaths:
        frag = d["case"]["frag"]
        v.failure("died:%s:%s" % (d["kind"], frag), {"class": "died:%s:%s" % (d["kind"], frag), "case_sig": d["case"]["cls"], "hex": d["case"]["hex"], "rc": d["rc"], "stderr_tail": d["stderr_tail"]})
    byid = {c["id"]: c for c in concrete}
    for r in results:
        c = byid[r["id"]]
        if r["errs"] > base[c["frag"]] or r["panics"] or not r["loaded"]:
            n_nontrivial += 1
        for p in r["panics"]:
            cls = p["outcome"]
            v.failure(cls, {"class": cls, "entry": p["entry"], "config": p["config"], "case_sig": c["cls"], "hex": c["hex"]})
        if r["ms"] > SLOW_MS:
            v.failure("slow:%s" % c["frag"], {"class": "slow:%s" % c["frag"], "ms": r["ms"], "case_sig": c["cls"], "hex": c["hex"]})
        # binding of the walk model: a graph the model refuses (revisited node) must not be walked successfully
        exp = expect.get(c["cls"])
        if exp and r.get("detail"):
            walks = [d for d in r["detail"] if d[0].endswith(".walk")]
            for name, outc in walks:
                if exp == {"err"} and outc == "ok":
                    v.failure("walk-accepts-revisit:%s" % c["frag"], {"class": "walk-accepts-revisit:%s" % c["frag"], "case_sig": c["cls"], "hex": c["hex"], "entry": name})
    return n_nontrivial


def run(tier, seed):
    t0 = time.time()
    q = tier == "quick"
    v = vlib.Verdict(PID)
    cfg = "Schema_q.cfg" if q else "Schema_t.cfg"
    with cf.ThreadPoolExecutor(max_workers=3) as ex:
        main = ex.submit(vlib.run_tlc, "MC_Schema", cfg, PID, cfg[:-4], workers=6 if q else 12, timeout=3000, heap="8g")
        wf = [(dev, ex.submit(vlib.run_tlc, "MC_Schema", c, PID, c[:-4], workers=2, timeout=600, expect_violation=True, coverage=False)) for c, dev in WITNESSES]
        r = main.result()
        wit = {dev: f.result()["violation"] for dev, f in wf}
    if r["violation"]:
        v.model_violation("MC_Schema:%s:%s" % (cfg, r["violation"]), r)
    for act in ("NumStep", "Follow", "Return", "Descend", "Stop", "LazyStep"):
        if r["coverage"].get(act, 0) == 0:
            raise vlib.ToolError("vacuous TLC run: action %s never taken" % act)
    for dev, viol in wit.items():
        if not viol:
            raise vlib.ToolError("deviation %s is no longer refuted by the model (spec rot)" % dev)
    model_cases, expect = [], {}
    for s in r["cases"]:
        c = json.loads(s)
        for k in ("refs", "nums"):          # an empty TLA+ function is printed as an empty sequence
            if c[k] == []:
                c[k] = {}
        if c["kind"] == "case":
            model_cases.append(c)
        else:
            expect.setdefault(sig(c), set()).add(c["result"])
    model_cases.sort(key=lambda c: (c["frag"], sorted(c["refs"].items()), sorted(c["nums"].items())))
    frs = sorted({c["frag"] for c in model_cases})
    if frs != sorted(S.ORDER):
        raise vlib.ToolError("fragment table of the model and of the replay differ")
    concrete = concretise(model_cases)
    results, deaths = walk.run(PID, "walk", concrete, shards=14, secs=10, extra=("--detail",))
    if len(results) + len(deaths) != len(concrete):
        raise vlib.ToolError("replay lost cases: %d results + %d deaths != %d" % (len(results), len(deaths), len(concrete)))
    nontrivial = judge(v, concrete, results, deaths, expect)
    rc = v.finish()
    per_frag = {}
    for c in concrete:
        per_frag[c["frag"]] = per_frag.get(c["frag"], 0) + 1
    samples = [c["cls"] for c in concrete[:: max(1, len(concrete) // 3)]][:3]
    cov = {"states": r["distinct"], "transitions": r["generated"], "traces_validated_against_impl": len(concrete), "samples": samples,
           "evaluations": sum(x["calls"] for x in results), "distinct_nontrivial": nontrivial,
           "rule": "TLC enumerates, per schema fragment, every assignment of every reference slot to every object of the fragment and of every numeric slot to the boundary "
                   "values {-1, 0, 1, 2^31-1, 2^32-1, 2^64-1} (quick: one deviating numeric slot at a time with default references, thorough: up to two, and every reference "
                   "assignment crossed with every single numeric deviation) and checks on the traversal model that the recursion depth stays bounded, every traversal ends in ok/err "
                   "and terminates; each assignment is written as a complete file and every read entry point (open, pages, boxes, resources, fonts with widths / ToUnicode / embedded data, "
                   "images, forms, content operators, name and number tree walks, outline steps, every object by number incl. stream decoding, recovery scan) is called under "
                   "{strict, tolerant} x {cached, uncached} in child processes with a 10 s watchdog per configuration and a 3 GiB address-space cap; a panic, process death, "
                   "case slower than %d ms or a tree walk that succeeds on a graph the model refuses is a failure; non-trivial = the library answered with more error values than for the fragment's well-formed assignment" % SLOW_MS,
           "exhaustive": True, "fragments": per_frag, "process_deaths": len(deaths), "tlc": {"cfg": cfg, "wall_s": r["wall_s"]},
           "action_coverage": r["coverage"], "deviation_witnesses_refuted": wit, "known_findings_hit": sorted(v.known_hit),
           "slowest_ms": max([x["ms"] for x in results] + [0])}
    vlib.write_evidence(PID, tier, seed, "model_checking", cov,
                        ["fragments hold at most 5 objects; reference slots and numeric slots are those listed in lib/schema_frags.py",
                         "time / memory 'out of proportion' is decided as: more than %d ms for a file under 25 KB, or more than 3 GiB of address space" % SLOW_MS,
                         "the traversal model abstracts which kid a page lookup descends into (nondeterministic choice)"],
                        time.time() - t0, len(v.violations))
    return rc


def replay(path, seed):
    rec = json.load(open(path))
    if "hex" not in rec:
        print(json.dumps(rec)[:2000])
        return 1
    concrete = [{"id": 0, "cls": rec.get("case_sig", ""), "hex": rec["hex"], "frag": rec.get("case_sig", "?").split("[")[0]}]
    results, deaths = walk.run(PID, "replay_walk", concrete, shards=1, secs=10, extra=("--detail",))
    v = vlib.Verdict(PID)
    judge(v, concrete, results, deaths, {})
    for r in results:
        print("calls:", [d for d in r.get("detail", []) if d[1] != "ok"][:40])
    for d in deaths:
        print("process died:", d["kind"], d["stderr_tail"][-300:])
    return v.finish()
