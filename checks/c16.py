"""C16 - every encoder is inverted by its decoder and emits the standard format."""
import json, os, time
from lib import vlib

PID = "C16"


def run(tier, seed):
    t0 = time.time()
    v = vlib.Verdict(PID)
    # the encoder automata of spec/Filters.tla are the inverse direction of C05's parts: the model check of C05's configuration covers both;
    # here: the hex / ascii85 structure model (quick config) + replay of the real encoders
    r = vlib.run_tlc("MC_Filters", "Filters_enc.cfg", PID, "enc", workers=4, timeout=600, coverage=False)
    if r["violation"]:
        v.model_violation("Filters:Filters_enc.cfg:" + r["violation"], r)
    wd = vlib.workdir(PID)
    cpath = os.path.join(wd, "cases.ndjson")
    vlib.write_cases(["{}"], cpath)
    rep = vlib.run_harness("encoders", cpath, os.path.join(wd, "report.json"), ["--seed=%d" % seed] + ([] if tier == "quick" else ["--all-variants"]))
    v.from_report(rep)
    rc = v.finish()
    vlib.write_evidence(PID, tier, seed, "model_checking", {
        "states": r["distinct"], "transitions": r["generated"], "traces_validated_against_impl": rep["cases"], "samples": rep["samples"] or [{"input": [0, 0, 0, 0]}],
        "evaluations": rep["execs"], "distinct_nontrivial": rep["nontrivial"],
        "rule": "inputs: the empty string, all 1- and 2-byte strings (hex and ASCII85: all; LZW and Flate: every 64th 2-byte string in the quick tier), seeded 3-byte strings "
                "(thorough: a 3.3M subset of all 3-byte strings), single-value runs up to 300, random / structured / all-zero data up to 64 KiB; for each filter the encoder supports "
                "(ASCIIHex, ASCII85, LZW with EarlyChange 0, Flate): enc::encode -> enc::decode must return the input, and the encoded bytes must be accepted with the same result "
                "by the harness' reference decoder (own hex / ASCII85, weezl LZW with 8-bit symbols, flate2 zlib inflate); filters the encoder rejects are not violations; "
                "non-trivial = >= 2 bytes",
        "exhaustive": False, "harness_counters": rep["counters"], "known_findings_hit": sorted(v.known_hit),
        "tlc_runs": [{"cfg": "Filters_enc.cfg", "distinct": r["distinct"], "generated": r["generated"]}],
    }, ["codec cores are third-party crates (uninterpreted in the spec)", "the reference hex decoder accepts a missing EOD marker at the end of the data"],
        time.time() - t0, len(v.violations))
    return rc


def replay(path, seed):
    vlib.log(open(path).read()[:3000])
    return 1
