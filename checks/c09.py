"""C09 - a reload sees exactly the saved modifications and nothing else changes.
TLC: spec/Store.tla (intended design => ReadYourWrites, SameRef, ReloadExact, Retry, Prefix; each
deviation switch refuted); Engine A: transition cover + random walks replayed on real Storage/File."""
import json, os, time, concurrent.futures as cf
from lib import vlib

PID = "C09"
DEVS = ["cmp_update_creates_new", "update_keeps_cache", "failed_save_leaves_promise", "failed_create_leaves_promise", "offsets_ignore_header",
        "no_separator_before_endobj", "repeated_update_merges", "pending_kept"]


def drop_prefixes(cases):
    """a case whose call path is a strict prefix of another case's path (same configuration) is replayed anyway"""
    keyed = []
    for c in cases:
        j = json.loads(c)
        key = (j["hdr"], j["cached"], tuple((s["op"], s["r"], tuple(s["v"])) for s in j["path"]))
        keyed.append((key, c))
    prefixes = set()
    for (h, cm, p), _ in keyed:
        for n in range(1, len(p)):
            prefixes.add((h, cm, p[:n]))
    return [c for k, c in keyed if k not in prefixes]


def engine_b(v, tier, seed):
    """random long call histories recorded from the real document, validated against spec/StoreTrace.tla"""
    import subprocess
    from lib import tracev
    q = tier == "quick"
    wd = vlib.workdir(PID, "trace")
    runs, ncalls = (40, 40) if q else (150, 80)
    plan = [("nomerge", "StoreTrace_ideal.cfg")] * (3 if q else 9) + [("free", "StoreTrace_asbuilt.cfg")] * (2 if q else 6)
    stats = {"batches": len(plan), "runs": 0, "calls": 0, "saves_ok": 0, "saves_err": 0, "merge_situations": 0}

    def one(b):
        mode, cfg = plan[b]
        tp, rp = os.path.join(wd, "trace_%d.ndjson" % b), os.path.join(wd, "report_%d.json" % b)
        p = subprocess.run([vlib.BIN, "storetrace", tp, rp, "--seed", str(seed * 1000 + b), "--runs", str(runs), "--calls", str(ncalls), "--maxnew", "6", "--mode", mode],
                           stdout=subprocess.PIPE, stderr=subprocess.PIPE, text=True, timeout=1800)
        if p.returncode != 0:
            return b, tp, None, (False, "recorder died (exit %s): %s" % (p.returncode, p.stderr[-600:]), "recorder-died")
        return b, tp, json.load(open(rp)), tracev.validate(PID, "StoreTrace", cfg, tp, str(b))
    with cf.ThreadPoolExecutor(max_workers=5) as ex:
        res = list(ex.map(one, range(len(plan))))
    for b, tp, rep, (ok, detail, kind) in res:
        if rep:
            for k in ("runs", "calls", "saves_ok", "saves_err", "merge_situations"):
                stats[k] += rep[k]
        if not ok:
            cls = "trace:%s:%s" % (plan[b][0], kind)
            v.failure(cls, {"class": cls, "trace": tp, "cfg": plan[b][1], "mode": plan[b][0], "detail": detail, "seed": seed * 1000 + b})
    if stats["saves_ok"] == 0 or stats["merge_situations"] == 0:
        raise vlib.ToolError("trace validation is vacuous: %s" % stats)
    # binding self-test: one corrupted observation must be rejected
    b0 = res[0]
    if b0[3][0]:
        lines = open(b0[1]).read().splitlines()
        idx = next(i for i, ln in enumerate(lines) if '"ev":"update"' in ln and i > 20)
        d = json.loads(lines[idx]); d["obs"][0] = ["Q"]; lines[idx] = json.dumps(d)
        cp = os.path.join(wd, "corrupted.ndjson")
        open(cp, "w").write("\n".join(lines) + "\n")
        if tracev.validate(PID, "StoreTrace", plan[0][1], cp, "corrupt")[0]:
            raise vlib.ToolError("binding self-test failed: a trace with a corrupted observation was accepted")
        stats["corrupted_trace_rejected"] = True
    stats["rule"] = ("Engine B: a seeded random driver issues %d runs x %d calls (create / update / promise / fulfil / get / save; values {A}, {B}, {A,B}, integer, an unserialisable stream; "
                     "junk prefix 0/7, both base layouts, cached File / uncached Storage) on the real document and records after every call what every reference resolves to, the typed value of "
                     "every get, and after every successful save what a reload of the written bytes resolves to; TLC accepts a trace iff every line is the Store.tla action with these arguments and "
                     "the observations equal the model's; traces of the driver that never writes a dictionary over a different pending one are validated against the intended design with "
                     "ReadYourWrites, SameRef, ReloadExact, Retry as invariants, free traces against the as-built model (recorded merge finding)" % (runs, ncalls))
    return stats


SYS_DEVS = ["merge_oldest_wins", "update_keeps_cache", "save_forgets_table"]


def system_part(v, tier):
    """spec/PdfSystem.tla: several sessions over one file (open / modify / save / close / open the saved bytes again ...)"""
    q = tier == "quick"
    with cf.ThreadPoolExecutor(max_workers=3) as ex:
        f_mc = ex.submit(vlib.run_tlc, "MC_PdfSystem", "PdfSystem_mcq.cfg" if q else "PdfSystem_mc.cfg", PID, "sys_mc", workers=4, timeout=3000, heap="8g")
        f_gen = ex.submit(vlib.run_tlc, "MC_PdfSystem", "PdfSystem_q6_gen.cfg" if q else "PdfSystem_q_gen.cfg", PID, "sys_gen", workers=4, timeout=3000, heap="8g", coverage=False)
        f_w = {d: ex.submit(vlib.run_tlc, "MC_PdfSystem", "PdfSystem_w_%s.cfg" % d, PID, "sys_w_" + d, workers=2, timeout=900, expect_violation=True, coverage=False) for d in SYS_DEVS}
        f_gen7 = ex.submit(vlib.run_tlc, "MC_PdfSystem", "PdfSystem_q7_gen.cfg", PID, "sys_gen7", workers=2, timeout=3000, heap="8g", coverage=False) if q else None
        mc, gen = f_mc.result(), f_gen.result()
        if f_gen7:          # one value, uncached: long enough for a second session that saves again
            gen["cases"] += f_gen7.result()["cases"]
        wit = {d: f.result()["violation"] for d, f in f_w.items()}
    if mc["violation"]:
        v.model_violation("PdfSystem:%s" % mc["violation"], mc)
    for d, viol in wit.items():
        if not viol:
            raise vlib.ToolError("deviation %s is no longer refuted by the model (spec rot)" % d)
    for act in ("Open", "Create", "Update", "Get", "Save", "Close"):
        if mc["coverage"].get(act, 0) == 0:
            raise vlib.ToolError("vacuous TLC run: action %s never taken" % act)
    cases = drop_prefix_paths(gen["cases"])
    wd = vlib.workdir(PID, "system")
    nsh = 6
    reps = []

    def one(k):
        cp, rp = os.path.join(wd, "cases_%d.ndjson" % k), os.path.join(wd, "report_%d.json" % k)
        vlib.write_cases(cases[k::nsh], cp)
        return vlib.run_harness("system", cp, rp)
    with cf.ThreadPoolExecutor(max_workers=nsh) as ex:
        reps = list(ex.map(one, range(nsh)))
    tot = {"cases": 0, "execs": 0, "nontrivial": 0}
    for r in reps:
        v.from_report(r)
        for k in tot:
            tot[k] += r[k]
    return {"states": mc["distinct"] + gen["distinct"], "transitions": mc["generated"] + gen["generated"], "paths_replayed": tot["cases"], "calls_replayed": tot["execs"],
            "multi_session_paths_with_a_save": tot["nontrivial"], "deviation_witnesses_refuted": wit, "action_coverage": mc["coverage"],
            "rule": "spec/PdfSystem.tla composes the cross-reference merge, the store and the caches over up to 3 sessions (8 calls, 3 saves) on one file; TLC checks SessionView, "
                    "GetAnswers, Durable and AppendOnly and refutes merge_oldest_wins, update_keeps_cache, save_forgets_table; one shortest call path per distinct (state, last call) "
                    "is replayed: every session opens the bytes the previous one saved (cached File / uncached Storage as the path says, junk prefix 0/7, both base layouts), after every call "
                    "every known reference is resolved and every get compared with the ghost, every save must extend the previous bytes"}


def drop_prefix_paths(cases):
    """a path that is a proper prefix of another emitted path is replayed as part of that one"""
    keyed = []
    for c in cases:
        j = json.loads(c)
        keyed.append((tuple((s["op"], s["r"], s["v"], s["cached"]) for s in j["path"]), c))
    prefixes = set()
    for k, _ in keyed:
        for n in range(1, len(k)):
            prefixes.add(k[:n])
    return [c for k, c in keyed if k not in prefixes]


def run(tier, seed):
    t0 = time.time()
    v = vlib.Verdict(PID)
    q = tier == "quick"
    mc_cfg = "Store_q.cfg" if q else "Store_t.cfg"
    gen_cfg = "Store_q_gen.cfg" if q else "Store_t_gen.cfg"
    tlc_runs = []
    with cf.ThreadPoolExecutor(max_workers=3) as ex:
        f_mc = ex.submit(vlib.run_tlc, "MC_Store", mc_cfg, PID, "mc", workers=6, timeout=3000, heap="12g")
        f_gen = ex.submit(vlib.run_tlc, "MC_Store", gen_cfg, PID, "gen", workers=6, timeout=3000, heap="12g")
        f_stm = ex.submit(vlib.run_tlc, "MC_Store", "Store_stm_gen.cfg", PID, "gen_stm", workers=4, timeout=3000, heap="8g", coverage=False)
        f_w = {d: ex.submit(vlib.run_tlc, "MC_Store", "Store_w_%s.cfg" % d, PID, "w_" + d, workers=2, timeout=900,
                            expect_violation=True, coverage=False) for d in DEVS}
        mc = f_mc.result()
        gen = f_gen.result()
        stm = f_stm.result()
        wit = {d: f.result()["violation"] for d, f in f_w.items()}
    tlc_runs.append({"cfg": mc_cfg, "distinct": mc["distinct"], "generated": mc["generated"], "wall_s": mc["wall_s"]})
    tlc_runs.append({"cfg": gen_cfg, "distinct": gen["distinct"], "generated": gen["generated"], "cases": len(gen["cases"]), "wall_s": gen["wall_s"]})
    tlc_runs.append({"cfg": "Store_stm_gen.cfg", "distinct": stm["distinct"], "generated": stm["generated"], "cases": len(stm["cases"]), "wall_s": stm["wall_s"]})
    if mc["violation"]:
        v.model_violation("Store:%s:%s" % (mc_cfg, mc["violation"]), mc)
    for act in ("Create", "Update", "Promise", "Fulfil", "Get", "Save"):
        if mc["coverage"].get(act, 0) == 0:
            raise vlib.ToolError("vacuous TLC run: action %s never taken" % act)
    for d, viol in wit.items():
        if not viol:
            raise vlib.ToolError("deviation %s is no longer refuted by the model (spec rot)" % d)
    cases = gen["cases"] + stm["cases"]
    n_all = len(cases)
    cases = drop_prefixes(cases)
    sim = vlib.run_tlc("MC_Store", "Store_sim.cfg", PID, "sim", workers=1, timeout=20 if q else 240,
                       simulate=300 if q else 20000, depth=14, seed=seed)
    walks = drop_prefixes(sim["cases"])
    tlc_runs.append({"cfg": "Store_sim.cfg (simulate)", "walk_cases": len(walks), "wall_s": sim["wall_s"]})
    cases = list(dict.fromkeys(cases + walks))
    wd = vlib.workdir(PID)
    cpath = os.path.join(wd, "cases.ndjson")
    vlib.write_cases(cases, cpath)
    if len(cases) > 20000:
        rep = vlib.run_harness_sharded("store", cases, wd, [] if q else ["--both-layouts"], shards=10)
        json.dump(rep, open(os.path.join(wd, "report.json"), "w"))
    else:
        rep = vlib.run_harness("store", cpath, os.path.join(wd, "report.json"), [] if q else ["--both-layouts"])
    v.from_report(rep)
    tstats = engine_b(v, tier, seed)
    sysstats = system_part(v, tier)
    rc = v.finish()
    vlib.write_evidence(PID, tier, seed, "model_checking", {
        "trace_validation": tstats,
        "system_composition": sysstats,
        "states": mc["distinct"] + gen["distinct"], "transitions": mc["generated"] + gen["generated"],
        "traces_validated_against_impl": rep["cases"],
        "samples": rep["samples"][:2],
        "evaluations": rep["execs"], "distinct_nontrivial": rep["nontrivial"],
        "rule": "transition cover: one shortest call path per distinct (model state, last call), prefixes of longer paths dropped, "
                "plus seeded random walks from tlc -simulate; every path is replayed on a generated base file (raw dict, compressed dict, "
                "stream; junk prefix 0/7; cached File API / uncached Storage API); after each call every known reference is resolved and "
                "typed-loaded, after each save the bytes are reloaded (cached and uncached) and the previous bytes must be a prefix; every number the caller "
                "does not hold (catalog, containers, the cross-reference stream of each revision written) reads or is absent, in the open document and after reload; "
                "non-trivial = the path contains a write followed by a save",
        "exhaustive": False,
        "cover_states_emitted": n_all, "paths_replayed": rep["cases"], "calls_replayed": rep["execs"],
        "tlc_runs": tlc_runs, "action_coverage": mc["coverage"], "deviation_witnesses_refuted": wit,
        "known_findings_hit": sorted(v.known_hit), "harness_counters": rep["counters"],
    }, ["bounded: 3 base objects + <= 2-3 new ids, <= 4 (quick) / 6 (thorough) calls in the exhaustive part, 3 writable values + 1 unserialisable value",
        "save with an unfulfilled promise and update of a free/undefined id are outside the property's domain and not generated",
        "the harness' base files realise the model's base objects (mkpdf); values are dictionaries identified by their key sets"],
        time.time() - t0, len(v.violations))
    return rc


def replay(path, seed):
    rec = json.load(open(path))
    if rec.get("trace"):
        # the driver is deterministic for a seed: record the same trace again from the current tree and validate it
        import subprocess
        from lib import tracev
        v = vlib.Verdict(PID)
        wd = vlib.workdir(PID, "replay_trace")
        vlib.build_harness()
        tp = os.path.join(wd, "trace.ndjson")
        subprocess.run([vlib.BIN, "storetrace", tp, os.path.join(wd, "report.json"), "--seed", str(rec["seed"]), "--runs", "150", "--calls", "80", "--maxnew", "6", "--mode", rec["mode"]], check=True)
        ok, detail, kind = tracev.validate(PID, "StoreTrace", rec["cfg"], tp, "replay")
        vlib.log("trace %s: %s" % (tp, "accepted" if ok else detail))
        if not ok:
            v.failure(rec["class"], rec)
        return v.finish()
    if "case" not in rec:
        vlib.log(open(path).read()[:4000])
        return 1
    wd = vlib.workdir(PID, "replay_run")
    cpath = os.path.join(wd, "case.ndjson")
    vlib.write_cases([json.dumps(rec["case"])], cpath)
    rep = vlib.run_harness("store", cpath, os.path.join(wd, "report.json"), ["--layout", str(rec["layout"])] if "layout" in rec else ["--both-layouts"])
    v = vlib.Verdict(PID)
    v.from_report(rep)
    for f in rep["failures"][:5]:
        vlib.log(json.dumps({k: f[k] for k in ("class", "step", "id", "expected", "observed", "layout") if k in f}))
    return v.finish()
