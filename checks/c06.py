"""C06 - encrypted documents yield their plaintext with either password, and only then."""
import glob, json
from lib import vlib
from checks import common

PID = "C06"
WIT = [("Crypt_w_%s.cfg" % d, d) for d in ("aesv3_key_truncated", "metadata_exemption_ignored", "encrypt_dict_decrypted", "objstm_strings_decrypted_twice", "array_elements_not_decrypted", "catalog_read_before_decoder",
                                          "metadata_flag_honoured_below_v4", "cf_bits_refused_for_owner", "aesv2_defaults_to_40_bits", "uo_length_exact", "strf_ignored")]


KDF = {}


def add_fixtures(cases):
    out = list(cases)
    # the iteration rule of the revision 6 hash (spec/Kdf.tla): its own model, witness and cases
    cfg = KDF["cfg"]
    r = vlib.run_tlc("MC_Kdf", cfg, PID, cfg[:-4], workers=2, timeout=600)
    w = vlib.run_tlc("MC_Kdf", "Kdf_w_boundary.cfg", PID, "Kdf_w_boundary", workers=2, timeout=600, expect_violation=True, coverage=False)
    if r["violation"]:
        raise vlib.ToolError("Kdf model violated: %s" % r["violation"])
    if not w["violation"]:
        raise vlib.ToolError("deviation kdf_boundary_excluded is no longer refuted by the model (spec rot)")
    KDF["cov"].update({"kdf_model": {"cfg": cfg, "distinct": r["distinct"], "cases": len(r["cases"]), "witness_refuted": w["violation"]}})
    out += r["cases"]
    for f in sorted(glob.glob("/repo/files/encrypted_*.pdf")):
        out.append(json.dumps({"fixture": f, "good": [""]}))
    for f in sorted(glob.glob("/repo/files/password_protected/*.pdf")):
        out.append(json.dumps({"fixture": f, "good": ["userpassword", "ownerpassword"]}))
    return out


def run(tier, seed):
    KDF["cfg"] = "Kdf_q.cfg" if tier == "quick" else "Kdf_t.cfg"
    KDF["cov"] = {}
    return common.run_enum(PID, tier, seed, "MC_Crypt", "crypt", ["Crypt_q.cfg"], WIT, actions=["Open", "Read"],
        rule="every configuration of the protocol model: 7 handler variants (RC4 40-bit R2, RC4 56/128-bit R3, crypt filters with RC4 / AES-128 R4, AES-256 R5 and R6) x "
             "{user, owner, wrong password, empty user password} x EncryptMetadata x placement {string as a dictionary value / as the object itself / as an array element / inside nested containers of an indirect object, stream, metadata stream, the /Encrypt dictionary "
             "indirect / direct, string inside an object stream, cross-reference stream} x length class {empty, < 16, 16, 100} x (object, generation) {(3,0), (4,5), (70000,0)}; "
             "each is written by the harness' independent security handler (Algorithms 1, 1.A, 2, 2.A, 2.B, 3-5, 8, 9 on md5/sha2/aes/cbc + own RC4) and opened through "
             "FileOptions::password(..).load; strings via resolve, stream data via raw_data must equal the plaintext, a wrong password must give the invalid-password error; "
             "plus Engine B: the 10 encrypted fixtures of the repository opened with every valid password (complete snapshots must be free of decryption errors and equal for "
             "user and owner) and a wrong one; plus the iteration rule of the revision 6 hash (spec/Kdf.tla): for every pattern of 'last byte vs round - 32' relations up to the "
             "stop (3 rounds quick, 5 thorough) and each of the four uses of the hash (user / owner x validation / key salt) a password whose reference hash follows the pattern "
             "is searched, a document written with it and opened with the found, the other and a wrong password; non-trivial = anything but a short string in a plain object",
        assumptions=["MD5 / RC4 / AES / SHA arithmetic is uninterpreted in the spec; it is bound through the harness' transcription, which agrees with the library on all variants "
                     "and is cross-checked by the third-party fixtures", "object numbers above 1,000,000 cannot occur (the library caps /Size), so the 3-byte truncation of the object number is not reachable",
                     "password strength is out of scope: the spec covers the accept / reject protocol"],
        case_filter=add_fixtures, exhaustive=True, extra_cov=KDF["cov"])


def replay(path, seed):
    return common.replay_generic(PID, "crypt", path, opts=(), show=("class", "observed", "expected_len"))
