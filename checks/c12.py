"""C12 - caches are invisible: cached and uncached documents answer identically."""
from checks import common

PID = "C12"


def run(tier, seed):
    q = tier == "quick"
    return common.run_enum(PID, tier, seed, "MC_CacheView", "cache",
        ["CacheView_mc.cfg", "CacheView_cyc_mc.cfg", "CacheView_q_gen.cfg" if q else "CacheView_t_gen.cfg", "CacheView_cyc_gen.cfg"],
        [("CacheView_w_error_cached_across_types.cfg", "error_cached_across_types"),
         ("CacheView_w_stream_cache_key_ignores_filters.cfg", "stream_cache_key_ignores_filters"),
         ("CacheView_w_nested_value_cached.cfg", "nested_value_cached"),
         ("CacheView_w_raw_read_through_stream_cache.cfg", "raw_read_through_stream_cache")],
        actions=["GetAs", "Resolve", "Data", "RawImage", "Image", "RawData"],
        rule="ALL sequences of 3 (quick) / 4 (thorough) calls over {typed get as PagesNode / as Dictionary of 3 objects, resolve, Stream::data, "
             "raw_image_data, image_data, PdfStream::raw_data} x {both caches, object cache only, stream cache only, none}; each runs on a generated document (an object "
             "loadable as two types, one loadable as only one type, one loadable as neither, an image with [ASCIIHex, Flate]); every answer is compared "
             "with the same call alone on a fresh uncached document and with the spec's Uncached; non-trivial = a cache is on and the sequence has >= 2 calls",
        assumptions=["bounded call sequences on one generated document; corpus files are not part of this run",
                     "'same kind of error' = equality of the root-cause kind",
                     "the model's load outcomes per (object, type) are checked against a real lone run (class lone-answer-differs-from-spec)"],
        exhaustive=True)


def replay(path, seed):
    return common.replay_generic(PID, "cache", path, opts=(), show=("class", "step", "expected", "observed", "all_observed"))
