"""C08 - content-stream operators round-trip and mean what the operator table says."""
import json, os, time
from lib import vlib
from checks import common

PID = "C08"


def run(tier, seed):
    q = tier == "quick"
    # the operator table (Prop 2) is data of the spec: one case per row
    tab = vlib.run_tlc("ContentTable", "ContentTable.cfg", PID, "table", workers=1, timeout=300, coverage=False)
    if tab["violation"]:
        raise vlib.ToolError("operator table is not well formed: %s" % tab["violation"])
    rows = tab["cases"]

    def add_table(cases):
        return cases + rows

    return common.run_enum(PID, tier, seed, "MC_Content", "content",
        ["Content_q.cfg", "Content_q2.cfg", "Content_q3.cfg"] if q else ["Content_t.cfg", "Content_q2.cfg"],
        [("Content_w_td_uses_x.cfg", "td_uses_x"), ("Content_w_td_ignores_sign.cfg", "td_ignores_sign"), ("Content_w_sh_dropped.cfg", "sh_dropped"), ("Content_w_ri_without_slash.cfg", "ri_without_slash"),
         ("Content_w_close_moves_current.cfg", "close_moves_current")],
        actions=["Extend", "Start", "Serialize", "Parse"],
        rule="(1) every operation sequence of length <= 3 (quick) / <= 4 (thorough) over the 25 merge-relevant operations, <= 4 over the 10 operations that read or move the current point, and <= 2 over all 61 operation variants, "
             "each at several numeric scales (1, 1e-3, 1e4, 3e9, 1e-7: boundary reals) -> serialize_ops -> parse_ops -> structural equality (integers = reals of equal value); "
             "(2) every row of the operator table (66 of the 73 operators of Table A.1; BX EX d0 d1 BI ID EI have no operation in the library's alphabet) printed with "
             "generated operands in several conformant spellings, followed by another operator (operand leak), compared with the denoted operations; "
             "non-trivial = sequences of >= 2 operations and all table rows",
        assumptions=["inline images are outside the round-trip domain (the serializer rejects them)",
                     "operand domains are small in the model; the harness scales numbers and varies spellings",
                     "name operands are plain names (escaping is C04's subject)"],
        harness_opts=[] if q else ["--all-variants"], case_filter=add_table, extra_cov={"operator_table_rows": len(rows)})


def replay(path, seed):
    return common.replay_generic(PID, "content", path, show=("class", "text", "expected", "observed"))
