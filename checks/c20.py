"""C20 - a page imported into another document is equal and self-contained."""
import json, os
from lib import vlib
from checks import common

PID = "C20"


def run(tier, seed):
    q = tier == "quick"
    try:
        return common.run_enum(PID, tier, seed, "MC_Import", "import", ["Import_mc.cfg", "Import_q_gen.cfg"] if q else ["Import_mc.cfg", "Import_q_gen.cfg", "Import_t_gen.cfg", "Import_t2_gen.cfg"],
            [("Import_w_memo.cfg", "memo_after_recursion"), ("Import_w_unpruned.cfg", "unpruned:colorspace"), ("Import_w_streamcache.cfg", "clone_reads_stream_cache")],
            actions=["Choose", "Step"],
            rule="every source graph TLC enumerates (2 objects quick / 3 thorough with every edge set incl. self-loops and cycles, every set of objects referenced from the "
                 "page's extra entries, resources of the categories ExtGState / Font / ColorSpace present or not and named by the operations or not) is written as a source "
                 "document (the form XObject stored hex-encoded); with and without a prior inspection of the page through the cached source document (resources loaded, form and page "
                 "operations decoded), its page is imported with PageBuilder::clone_page through Importer, built, reloaded; checked: termination (a runaway recursion ends the harness "
                 "process and is reported), closure (every reference of every object of the new document resolves), single copy and exact copy set (marker objects counted), "
                 "page attributes and operation sequence equal, every used resource present with equal content, unused resources pruned; non-trivial = cyclic graph or a used resource",
            assumptions=["graph objects sit behind the /Font resource and the page's extra entries (plain deep clone); ExtGState and ColorSpace resources are typed leaf values",
                         "an import that returns Err is acceptable (not generated here)", "Pattern, Shading and Properties resources are not part of this model yet"],
            exhaustive=True, shards=10)
    except vlib.ToolError as e:
        # a crashed harness (stack overflow / abort while importing) is data about the code under test
        import glob
        wd = os.path.join(vlib.WORK, PID)
        progs = [p for p in glob.glob(os.path.join(wd, "report*.json.progress")) if not os.path.exists(p[:-len(".progress")])]
        if "harness module import failed" in str(e) and progs:
            prog = progs[0]
            at = int(open(prog).read() or 0)
            cfile = os.path.join(wd, os.path.basename(prog).replace("report", "cases").replace(".json.progress", ".ndjson"))
            cases = open(cfile).read().splitlines()
            v = vlib.Verdict(PID)
            v.failure("import:process-died", {"class": "import:process-died", "case": json.loads(cases[at]) if at < len(cases) else None, "error": str(e)})
            rc = v.finish()
            vlib.write_evidence(PID, tier, seed, "model_checking", {"evaluations": at + 1, "distinct_nontrivial": 2, "samples": [json.loads(cases[at])] if at < len(cases) else ["none"],
                                "rule": "harness process died while importing (stack overflow / abort)"}, [], 0.0, 1)
            return rc
        raise


def replay(path, seed):
    return common.replay_generic(PID, "import", path, opts=(), show=("class", "expected_copies", "observed_copies", "dangling", "resource"))
