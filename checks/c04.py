"""C04 - serialised objects parse back to the same value."""
from checks import common

PID = "C04"


def run(tier, seed):
    q = tier == "quick"
    return common.run_enum(PID, tier, seed, "MC_Serializer", "serial", ["Serializer_q.cfg"],
        [("Serializer_w_cr_written_raw.cfg", "cr_written_raw"), ("Serializer_w_name_raw.cfg", "name_raw"),
         ("Serializer_w_bigint_rejected.cfg", "bigint_rejected"), ("Serializer_w_no_separator_before_endobj.cfg", "no_separator_before_endobj")],
        actions=[],
        rule="every value class of the spec (strings of <= 2 bytes over 8 byte classes, names of <= 2 characters over 5 character classes, 7 lexical classes of numbers, booleans, "
             "null, references, arrays and dictionaries over sample atoms incl. keys with spaces / '#' / non-ASCII / empty) x the 4 placements (indirect-object body framed like "
             "save, dictionary value, array element, content-stream operand); every class is expanded to concrete values (quick: representatives; thorough: all 256 byte values in "
             "strings of length 1-2, Unicode scalars of every UTF-8 length in names, boundary integers and reals incl. i32::MIN, 2^31, f32::MAX, subnormals, -0), serialised with "
             "the real serializer and read back by the library's parser and by the independent reference parser; non-trivial = string / name / number classes",
        assumptions=["reals are f32: a real written in integer form is equal if it converts to the same f32", "finite reals only",
                     "the operand placement uses the scn operator (arbitrary operands)"],
        harness_opts=[] if q else ["--all-variants"], exhaustive=True)


def replay(path, seed):
    return common.replay_generic(PID, "serial", path, show=("class", "value", "written", "observed"))
