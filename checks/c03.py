"""C03 - every spec-conformant spelling of an object parses to the value it denotes.
Two layers (spec/Syntax.tla): byte-level tokens (reference tokenizer vs the library's next_word, all byte strings up to a bound) and
item-level spellings (spec/Spelling.tla: conformant printer; atoms in every variant, containers, separators, contexts)."""
import json, os, time
from lib import vlib
from checks import common

PID = "C03"


def run(tier, seed):
    q = tier == "quick"
    t0 = time.time()
    rc1 = common.run_enum(PID, tier, seed, "MC_Syntax", "lexer", ["Syntax_q4.cfg"] if q else ["Syntax_q.cfg", "Syntax_t6.cfg"],
        [("Syntax_w_ff_not_ws.cfg", "ff_not_ws"), ("Syntax_w_comment_only_lf.cfg", "comment_only_lf")], actions=["Next"], rule="", assumptions=[])
    ev1 = json.load(open(os.path.join(vlib.EVID, PID + ".json")))
    os.rename(os.path.join(vlib.WORK, PID, "report.json"), os.path.join(vlib.WORK, PID, "report_lexer.json"))
    rc2 = common.run_enum(PID, tier, seed, "MC_Spelling", "syntax", ["Spelling_q.cfg" if q else "Spelling_t.cfg"],
        [("Spelling_w_slash_not_delimiter.cfg", "slash_not_delimiter")], actions=[], rule="", assumptions=[])
    ev2 = json.load(open(os.path.join(vlib.EVID, PID + ".json")))
    os.rename(os.path.join(vlib.WORK, PID, "report.json"), os.path.join(vlib.WORK, PID, "report_syntax.json"))
    rc3 = common.run_enum(PID, tier, seed, "MC_StrLit", "lexer", ["StrLit_q.cfg" if q else "StrLit_t.cfg"],
        [("StrLit_w_%s.cfg" % d, d) for d in ("octal_takes_decimal_digits", "continuation_cr_only", "unknown_escape_keeps_backslash", "raw_cr_kept")], actions=[], rule="", assumptions=[])
    ev3 = json.load(open(os.path.join(vlib.EVID, PID + ".json")))
    os.rename(os.path.join(vlib.WORK, PID, "report.json"), os.path.join(vlib.WORK, PID, "report_strlit.json"))
    rc4 = common.run_enum(PID, tier, seed, "MC_Literals", "lexer", ["Literals_q.cfg" if q else "Literals_t.cfg"],
        [("Literals_w_%s.cfg" % d, d) for d in ("hex_nul_not_ws", "name_hash_literal", "real_needs_leading_digit")], actions=[], rule="", assumptions=[])
    ev4 = json.load(open(os.path.join(vlib.EVID, PID + ".json")))
    rc2 = rc2 or rc3 or rc4
    c1, c2, c3 = ev1["coverage"], ev2["coverage"], ev3["coverage"]
    c4 = ev4["coverage"]
    for k in ("states", "transitions", "traces_validated_against_impl", "evaluations", "distinct_nontrivial"):
        c3[k] += c4[k]
    c3["known_findings_hit"] = sorted(set(c3["known_findings_hit"]) | set(c4["known_findings_hit"]))
    cov = {
        "states": c1["states"] + c2["states"] + c3["states"], "transitions": c1["transitions"] + c2["transitions"] + c3["transitions"],
        "traces_validated_against_impl": c1["traces_validated_against_impl"] + c2["traces_validated_against_impl"] + c3["traces_validated_against_impl"],
        "samples": c1["samples"][:1] + c2["samples"][:2],
        "evaluations": c1["evaluations"] + c2["evaluations"] + c3["evaluations"], "distinct_nontrivial": c1["distinct_nontrivial"] + c2["distinct_nontrivial"] + c3["distinct_nontrivial"],
        "rule": "tokens: every byte string of length <= 4 (quick) / 5-6 (thorough) over 12 representative bytes (SP FF NUL CR LF % / < > [ 1 a): token boundaries of "
                "Lexer::next must equal those of the spec's reference tokenizer; spellings: every atom kind in every spelling variant (signs, leading zeros, .5, 4., #xx names, "
                "escapes, octal codes, line continuations, raw end-of-lines, balanced parentheses, hex strings with white-space / odd digits, references) x every separator "
                "(SP TAB LF CR CRLF FF NUL, comments ended by LF or CR, none where legal) x context (end of buffer, followed by an integer / a name / endobj / an operator), "
                "arrays, dictionaries (keys with #xx) and nested containers of two atoms with every adjacency, streams with LF / CRLF after the keyword; oracle: the "
                "harness' reference parser (refparse.rs) on the object's own text; checked: value, exact consumption (Lexer::get_pos), the follower parses next; "
                "non-trivial = more than one item or a separator other than a space; literal strings (spec/StrLit.tla): every byte string of length <= 5 (quick) / 6 (thorough) over "
                "{backslash ( ) 1 7 8 n x CR LF} after an opening parenthesis, value and end position computed by the spec's transcription of ISO 32000-1 7.3.4.2 "
                "(named escapes, 1-3 octal digits, line continuation, ignored backslash, end-of-line normalisation, balanced parentheses); unterminated input must be rejected; "
                "other literals (spec/Literals.tla): every byte string of length <= 4 (quick) / 6 (thorough) over small alphabets as a hexadecimal string (digits in both cases, "
                "white-space incl. NUL ignored, odd digit padded), as a name (#xx decoding, end at a delimiter) and as a number token (integer / real / not a number), "
                "class and value computed by the spec; for tokens that are not valid literals only the absence of a panic is required",
        "exhaustive": True,
        "tokens": {k: c1[k] for k in ("tlc_runs", "deviation_witnesses_refuted", "harness_counters", "cases_replayed")},
        "spellings": {k: c2[k] for k in ("tlc_runs", "deviation_witnesses_refuted", "harness_counters", "cases_replayed")},
        "literal_strings": {k: c3[k] for k in ("tlc_runs", "deviation_witnesses_refuted", "harness_counters", "cases_replayed")},
        "other_literals": {k: c4[k] for k in ("tlc_runs", "deviation_witnesses_refuted", "harness_counters", "cases_replayed")},
        "known_findings_hit": sorted(set(c1["known_findings_hit"]) | set(c2["known_findings_hit"]) | set(c3["known_findings_hit"])),
    }
    vlib.write_evidence(PID, tier, seed, "model_checking", cov,
        ["integer tokens outside the 32-bit range, names that are not UTF-8 after # decoding and generations > 65535 are not generated (DESIGN 5.21)",
         "decimal -> f32 rounding is not modelled; reals are compared after conversion to f32",
         "the reference parser (harness/src/refparse.rs) is written from ISO 32000-1 7.2-7.3 independently of the library"],
        time.time() - t0, ev1.get("violations", 0) + ev2.get("violations", 0) + ev3.get("violations", 0) + ev4.get("violations", 0))
    return 1 if (rc1 or rc2) else 0


def replay(path, seed):
    rec = json.load(open(path))
    mod = "lexer" if "bytes" in rec.get("case", {}) else "syntax"      # token and literal-string cases both carry `bytes`
    return common.replay_generic(PID, mod, path, opts=(), show=("class", "text", "expected", "observed"))
