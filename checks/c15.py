"""C15 - typed objects round-trip through their dictionary form without losing entries."""
import json, re
from lib import vlib, models
from checks import common

PID = "C15"


# empty containers by (outer) Rust type. Only types for which "empty" and "absent" are different typed values: for Vec / HashMap
# fields an absent entry IS the empty container (an omitted default in the sense of the property), so dropping `/Font << >>` is no loss
EMPTY = {"Dictionary": "<< >>", "PdfString": "()"}


def inner(ty, prefix):
    t = ty.replace(" ", "")
    return t[len(prefix):-1] if t.startswith(prefix) else None


def concrete_cases(tlc_cases):
    """map the spec's presence patterns onto every typed model (fields found by the source extractor)"""
    pats = {}
    for c in tlc_cases:
        j = json.loads(c)
        if j["readable"]:
            pats[(j["o"], j["dd"], j["v"], j["u"], j["tag"], j["r"])] = j
    ms = models.extract()
    by = {m["name"]: m for m in ms}
    out = []
    for m in ms:
        base = models.minimal(m, by)
        if base is False:
            continue
        has_other = any(f["other"] for f in m["fields"])
        tag = m.get("type_tag")
        seen = set()
        for (o, dd, v, u, tg, rr) in sorted(pats):
            if tg == "-" and not (tag and tag.endswith("?")):
                continue          # the tag may only be absent where it is optional
            if tg == "-" and not tag:
                continue
            parts = []
            for k, val in m.get("checks", {}).items():
                if k == "Type" and tg == "-":
                    continue
                parts.append("/%s /%s" % (k, val.rstrip("?")))
            for f in m["fields"]:
                if f["other"] or f["skip"] or f["key"] is None:
                    continue
                t = f["type"].replace(" ", "")
                val = None
                if f["default"] is not None:
                    if dd == "d":
                        val = models.value_for(t, by)
                    elif dd == "dflt" and re.fullmatch(r"-?\d+\.?\d*|true|false", f["default"].strip()):
                        val = f["default"].strip()
                elif t.startswith("Option<") and o == "oe":
                    val = EMPTY.get(re.sub(r"<.*", "", t[7:-1]))              # an empty container is a value, not an absent entry
                elif t.startswith("Option<"):
                    if o == "o":
                        it = t[7:-1]
                        val = models.value_for(it, by)
                        if val is None and it.startswith("Vec<"):
                            e = models.value_for(it[4:-1], by)
                            val = "[%s]" % e if isinstance(e, str) else None
                elif t.startswith("Vec<"):
                    e = models.value_for(t[4:-1], by)
                    if isinstance(e, str) and v != "-":
                        val = {"single": e, "arr1": "[%s]" % e, "arr2": "[%s %s]" % (e, e)}[v]
                elif rr == "re" and re.sub(r"<.*", "", t) in EMPTY:
                    val = EMPTY[re.sub(r"<.*", "", t)]
                else:
                    val = models.value_for(t, by)
                if isinstance(val, str):
                    parts.append("/%s %s" % (f["key"], val))
            if u == "u" and not has_other:
                continue          # unknown entries are only kept by models with a catch-all
            if u == "u":
                parts.append("/ZzUnknown (kept?) /ZzRef 50 0 R")
            d = "<< %s >>" % " ".join(parts)
            if d in seen:
                continue
            seen.add(d)
            pattern = "minimal" if (o, dd, v, u, rr) == ("-", "-", "-", "-", "r") and tg != "-" else "o=%s,d=%s,v=%s,u=%s,tag=%s,r=%s" % (o, dd, v, u, tg, rr)
            out.append(json.dumps({"model": m["name"], "dict": d, "aux": {str(k): x for k, x in models.AUX.items()}, "has_other": has_other, "pattern": pattern}))
    return out


# hand-written reader / writer pairs: explicit values (each exercises a branch of the writer: grouping of codes, optional parts,
# variants); the same idempotence check applies, and values given in the writer's own canonical form must come back unchanged
HAND = {
    "Encoding": ["/WinAnsiEncoding", "<< /Type /Encoding /BaseEncoding /WinAnsiEncoding /Differences [1 /bullet /dagger 65 /Alpha] >>",
                 "<< /Differences [0 /a 2 /b /c 128 /d 255 /e] >>", "<< /Differences [2 /x] >>", "<< /BaseEncoding /MacRomanEncoding >>"],
    "Font": ["<< /Type /Font /Subtype /Type1 /BaseFont /Helvetica /FirstChar 65 /LastChar 66 /Widths [500 600] /Encoding << /Type /Encoding /Differences [1 /bullet /dagger 40 /x] >> >>",
             "<< /Type /Font /Subtype /TrueType /BaseFont /Arial /FirstChar 32 /LastChar 33 /Widths [250 300] /Encoding /WinAnsiEncoding /Name /F7 >>",
             "<< /Type /Font /Subtype /Type1 /BaseFont /Symbol >>",
             # the other kinds of font dictionary: whatever the reader makes of them, a written form keeps the entries of the input
             "<< /Type /Font /Subtype /MMType1 /BaseFont /Minion_367_585 /FirstChar 65 /LastChar 66 /Widths [500 600] /Name /F8 >>",
             "<< /Type /Font /Subtype /Type3 /FontBBox [0 0 1 1] /FontMatrix [0.001 0 0 0.001 0 0] /CharProcs << >> /Encoding << /Type /Encoding /Differences [] >> /FirstChar 65 /LastChar 65 /Widths [500] /Name /F9 >>",
             "<< /Type /Font /Subtype /Type0 /BaseFont /A /Encoding /Identity-H /DescendantFonts [] /Name /F10 >>",
             "<< /Type /Font /Subtype /CIDFontType2 /BaseFont /A /CIDSystemInfo << /Registry (Adobe) /Ordering (Identity) /Supplement 0 >> /DW 750 /W [1 [500 600] 10 12 700] /FontDescriptor << /Type /FontDescriptor /FontName /A /Flags 4 /FontBBox [0 0 1 1] /ItalicAngle 0 /Ascent 1 /Descent 0 /CapHeight 1 /StemV 1 >> >>"],
    "Matrix": ["[1 2 3 4 5 6]", "[0.5 0 0 -0.5 10 20]"],
    "Rectangle": ["[1 2 30 40]", "[-5 -6 7.5 8]"],
    "Date": ["(D:20240229235958+05'30)", "(D:20240229235958Z)", "(D:20240229235958-08'00)", "(D:19991231000000+00'00)"],
    "Dest": ["[50 0 R /XYZ 1 2 3]", "[50 0 R /XYZ null 7 2]", "[50 0 R /Fit]", "[50 0 R /FitH 7]", "[50 0 R /FitV 8]", "[50 0 R /FitR 1 2 30 40]", "[50 0 R /FitB]", "[50 0 R /FitBH 9]"],
    "MaybeNamedDest": ["/Chapter1", "(Chapter 2)", "[50 0 R /Fit]"],
    "ColorSpace": ["/DeviceRGB", "/DeviceCMYK", "[/Indexed /DeviceRGB 1 <000000FFFFFF>]"],
    "CidToGidMap": ["/Identity"],
    "Action": ["<< /S /GoTo /D [50 0 R /Fit] >>", "<< /S /URI /URI (http://example.org/a?b=c) >>"],
    "PdfString": ["(plain)", "(with \\( parens \\) and \\\\ backslash)", "<00FF80>", "()", "(line\\nbreak\\rreturn)"],
    "Name": ["/Plain", "/With#20Space", "/", "/A#23B#2F#28"],
}


# entries of a hand-written type that its writer has to keep (the type stores them); other differences are normalisations
MUST_KEEP = {"Font": ["BaseFont", "FirstChar", "LastChar", "Widths", "Name", "Subtype"], "Encoding": ["Differences"], "Action": ["S", "D", "URI"]}


def hand_cases():
    out = []
    for ty, vals in HAND.items():
        for k, v in enumerate(vals):
            out.append(json.dumps({"model": ty, "dict": v, "aux": {str(a): x for a, x in models.AUX.items()}, "has_other": False, "pattern": "hand:%d" % k,
                                   "must_keep": MUST_KEEP.get(ty, [])}))
    return out


def run(tier, seed):
    return common.run_enum(PID, tier, seed, "MC_Derive", "derive", ["Derive_1.cfg", "Derive_2.cfg", "Derive_3.cfg", "Derive_4.cfg"],
        [("Derive_w_writer_drops_other.cfg", "writer_drops_other"), ("Derive_w_empty_written_as_null.cfg", "empty_written_as_null")], actions=["Step"],
        rule="the spec's presence patterns (optional present/absent, default absent/explicit default/other value, one-or-many single/array of 1/array of 2, unknown extra "
             "entries, optional type tag present/absent) mapped onto every typed model with a derived reader found in the sources; each generated dictionary d is read, "
             "written (w1), read again and written again (w2) through the model's real reader/writer with a recording Updater; required: w2 == w1 (references to objects "
             "created by the writer are compared by content) and, for models with a catch-all, every entry of d is kept in w1 (up to one-or-many and indirection); "
             "non-trivial = not the minimal dictionary",
        assumptions=["models without a writer and generic models are listed in the notes (unwritable / not covered)",
                     "values per field type come from a fixed table (lib/models.py); hand-written reader/writer pairs (Font, Encoding, Date, ...) are not part of this run",
                     "dictionaries the reader rejects are not round-trip cases"],
        case_filter=lambda cs: concrete_cases(cs) + hand_cases(), exhaustive=True)


def replay(path, seed):
    return common.replay_generic(PID, "derive", path, opts=(), show=("class", "lost", "w1", "w2"))
