----------------------------- MODULE MC_Filters -----------------------------
EXTENDS Filters, Json
Ideal == CASE part = "hex" -> RefHex(input) [] part = "a85" -> RefA85(input)
           [] part = "rl" -> (LET r == RefRL(input, 1) IN IF HasErr(r) THEN <<"err">> ELSE r)
           [] part = "pred" -> FilterRow(aux.tag, aux.bpp, aux.prev, input)        \* the encoded row the decoder gets
           [] part = "chain" -> <<"plain">>
CaseJson == [part |-> part, input |-> input, aux |-> aux, ideal |-> Ideal]
Emit == PrintT(<<"CASE", ToJson(CaseJson)>>)
=============================================================================
