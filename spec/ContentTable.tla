--------------------------- MODULE ContentTable ---------------------------
(***************************************************************************)
(* Prop 2 of C08: the operator table (ISO 32000-1 Table A.1 / Table 51 ff) *)
(* as data: keyword, operand kinds, and the operation(s) it denotes with   *)
(* the operands they take (by position).  Replayed verbatim by the harness:*)
(* operands are printed by a reference printer, the keyword appended, the  *)
(* result of parse_ops compared with the denoted operations.               *)
(* Not representable in the library's operation alphabet and therefore not *)
(* in the table: BX EX d0 d1 (no operation), BI ID EI (inline image, own   *)
(* test).                                                                  *)
(***************************************************************************)
EXTENDS Naturals, Sequences, TLC, Json

R(kw, ar, res) == [kw |-> kw, ar |-> ar, res |-> res]
O(op, use) == [op |-> op, use |-> use]
N6 == <<"n", "n", "n", "n", "n", "n">>
N4 == <<"n", "n", "n", "n">>

Table == <<
  R("b",   <<>>, <<O("Close", <<>>), O("FillAndStroke:nz", <<>>)>>),
  R("B",   <<>>, <<O("FillAndStroke:nz", <<>>)>>),
  R("b*",  <<>>, <<O("Close", <<>>), O("FillAndStroke:eo", <<>>)>>),
  R("B*",  <<>>, <<O("FillAndStroke:eo", <<>>)>>),
  R("BDC", <<"nm", "pr">>, <<O("BeginMarkedContent", <<1, 2>>)>>),
  R("BMC", <<"nm">>, <<O("BeginMarkedContent", <<1>>)>>),
  R("BT",  <<>>, <<O("BeginText", <<>>)>>),
  R("c",   N6, <<O("CurveTo", <<1, 2, 3, 4, 5, 6>>)>>),
  R("cm",  N6, <<O("Transform", <<1, 2, 3, 4, 5, 6>>)>>),
  R("CS",  <<"nm">>, <<O("StrokeColorSpace", <<1>>)>>),
  R("cs",  <<"nm">>, <<O("FillColorSpace", <<1>>)>>),
  R("d",   <<"an", "n">>, <<O("Dash", <<1, 2>>)>>),
  R("Do",  <<"nm">>, <<O("XObject", <<1>>)>>),
  R("DP",  <<"nm", "pr">>, <<O("MarkedContentPoint", <<1, 2>>)>>),
  R("EMC", <<>>, <<O("EndMarkedContent", <<>>)>>),
  R("ET",  <<>>, <<O("EndText", <<>>)>>),
  R("f",   <<>>, <<O("Fill:nz", <<>>)>>),
  R("F",   <<>>, <<O("Fill:nz", <<>>)>>),
  R("f*",  <<>>, <<O("Fill:eo", <<>>)>>),
  R("G",   <<"n">>, <<O("StrokeColor:gray", <<1>>)>>),
  R("g",   <<"n">>, <<O("FillColor:gray", <<1>>)>>),
  R("gs",  <<"nm">>, <<O("GraphicsState", <<1>>)>>),
  R("h",   <<>>, <<O("Close", <<>>)>>),
  R("i",   <<"n">>, <<O("Flatness", <<1>>)>>),
  R("j",   <<"i">>, <<O("LineJoin", <<1>>)>>),
  R("J",   <<"i">>, <<O("LineCap", <<1>>)>>),
  R("K",   N4, <<O("StrokeColor:cmyk", <<1, 2, 3, 4>>)>>),
  R("k",   N4, <<O("FillColor:cmyk", <<1, 2, 3, 4>>)>>),
  R("l",   <<"n", "n">>, <<O("LineTo", <<1, 2>>)>>),
  R("m",   <<"n", "n">>, <<O("MoveTo", <<1, 2>>)>>),
  R("M",   <<"n">>, <<O("MiterLimit", <<1>>)>>),
  R("MP",  <<"nm">>, <<O("MarkedContentPoint", <<1>>)>>),
  R("n",   <<>>, <<O("EndPath", <<>>)>>),
  R("q",   <<>>, <<O("Save", <<>>)>>),
  R("Q",   <<>>, <<O("Restore", <<>>)>>),
  R("re",  N4, <<O("Rect", <<1, 2, 3, 4>>)>>),
  R("RG",  <<"n", "n", "n">>, <<O("StrokeColor:rgb", <<1, 2, 3>>)>>),
  R("rg",  <<"n", "n", "n">>, <<O("FillColor:rgb", <<1, 2, 3>>)>>),
  R("ri",  <<"ri">>, <<O("RenderingIntent", <<1>>)>>),
  R("s",   <<>>, <<O("Close", <<>>), O("Stroke", <<>>)>>),
  R("S",   <<>>, <<O("Stroke", <<>>)>>),
  R("SC",  <<"n", "n", "n">>, <<O("StrokeColor:other", <<1, 2, 3>>)>>),
  R("SCN", <<"n", "n", "n", "nm">>, <<O("StrokeColor:other", <<1, 2, 3, 4>>)>>),
  R("sc",  <<"n">>, <<O("FillColor:other", <<1>>)>>),
  R("scn", <<"nm">>, <<O("FillColor:other", <<1>>)>>),
  R("sh",  <<"nm">>, <<O("Shade", <<1>>)>>),
  R("T*",  <<>>, <<O("TextNewline", <<>>)>>),
  R("Tc",  <<"n">>, <<O("CharSpacing", <<1>>)>>),
  R("Td",  <<"n", "n">>, <<O("MoveTextPosition", <<1, 2>>)>>),
  R("TD",  <<"n", "n">>, <<O("Leading:neg", <<2>>), O("MoveTextPosition", <<1, 2>>)>>),
  R("Tf",  <<"nm", "n">>, <<O("TextFont", <<1, 2>>)>>),
  R("Tj",  <<"s">>, <<O("TextDraw", <<1>>)>>),
  R("TJ",  <<"atj">>, <<O("TextDrawAdjusted", <<1>>)>>),
  R("TL",  <<"n">>, <<O("Leading", <<1>>)>>),
  R("Tm",  N6, <<O("SetTextMatrix", <<1, 2, 3, 4, 5, 6>>)>>),
  R("Tr",  <<"i">>, <<O("TextRenderMode", <<1>>)>>),
  R("Ts",  <<"n">>, <<O("TextRise", <<1>>)>>),
  R("Tw",  <<"n">>, <<O("WordSpacing", <<1>>)>>),
  R("Tz",  <<"n">>, <<O("TextScaling", <<1>>)>>),
  R("v",   N4, <<O("CurveTo:v", <<1, 2, 3, 4>>)>>),
  R("w",   <<"n">>, <<O("LineWidth", <<1>>)>>),
  R("W",   <<>>, <<O("Clip:nz", <<>>)>>),
  R("W*",  <<>>, <<O("Clip:eo", <<>>)>>),
  R("y",   N4, <<O("CurveTo:y", <<1, 2, 3, 4>>)>>),
  R("'",   <<"s">>, <<O("TextNewline", <<>>), O("TextDraw", <<1>>)>>),
  R("\"",  <<"n", "n", "s">>, <<O("WordSpacing", <<1>>), O("CharSpacing", <<2>>), O("TextNewline", <<>>), O("TextDraw", <<3>>)>>)
>>

VARIABLE row
Init == row \in 1..Len(Table)
Next == UNCHANGED row
\* every operand of a row is used by the operations it denotes (operands in order, none invented)
WellFormedRow == \A k \in 1..Len(Table[row].res) : \A j \in 1..Len(Table[row].res[k].use) :
                    Table[row].res[k].use[j] \in 1..Len(Table[row].ar)
Emit == PrintT(<<"CASE", ToJson([table_row |-> row, kw |-> Table[row].kw, ar |-> Table[row].ar,
                                 res |-> [k \in 1..Len(Table[row].res) |-> [op |-> Table[row].res[k].op, use |-> Table[row].res[k].use]]])>>)
=============================================================================
