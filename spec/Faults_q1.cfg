SPECIFICATION Spec
CONSTANTS
  Layouts <- LayoutsAllCuts
  Stages <- MCStages
  MaxFaults = 1
  Dev = {}
INVARIANTS TypeOK OutcomeOk Bounded Emit
PROPERTY Terminates
CHECK_DEADLOCK FALSE
