----------------------------- MODULE MC_Derive -----------------------------
EXTENDS Derive, Json
CaseJson == [tagRequired |-> TagRequired, hasOther |-> HasOther, tag |-> d.Type, r |-> d.R, o |-> d.O, dd |-> d.D, v |-> d.V, u |-> d.U,
             readable |-> x.ok]
Emit == phase = "done" => PrintT(<<"CASE", ToJson(CaseJson)>>)
=============================================================================
