----------------------------- MODULE MC_StrLit -----------------------------
EXTENDS StrLit, Json
CaseJson == [strlit |-> TRUE, bytes |-> str, ideal |-> Ref(str)]
\* strings that only extend an already complete string are not emitted again (the decoder stops at the closing parenthesis)
Emit == (Ref(str).k = "eof" \/ Ref(str).end = Len(str) + 1) => PrintT(<<"CASE", ToJson(CaseJson)>>)
=============================================================================
