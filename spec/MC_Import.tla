------------------------------ MODULE MC_Import ------------------------------
EXTENDS Import, Json
AsBuilt == {"unpruned:colorspace"}
CaseJson == [n |-> N, edges |-> [o \in Src |-> edges[o]], roots |-> roots,
             resobj |-> [c \in Categories |-> resobj[c]], used |-> used, inspected |-> inspected, dev |-> Dev,
             ideal |-> [o \in Src |-> IF o \in Needed THEN 1 ELSE 0],
             mech  |-> [o \in Src |-> copies[o]], mech_copied |-> copied]
Emit == phase = "done" => PrintT(<<"CASE", ToJson(CaseJson)>>)
=============================================================================
