------------------------------- MODULE StrLit -------------------------------
(***************************************************************************)
(* Literal strings at byte level (ISO 32000-1 7.3.4.2;                     *)
(* pdf/src/parser/lexer/str.rs StringLexer::next_lexeme).                  *)
(*                                                                         *)
(* The input is what follows the opening parenthesis.  Decoding ends at    *)
(* the first unbalanced `)`; input that ends before is an error.           *)
(*   \n \r \t \b \f \( \) \\      the named escapes                        *)
(*   \ddd                         1 to 3 OCTAL digits, value modulo 256    *)
(*   \ + end-of-line              line continuation (CR, LF or CR LF)      *)
(*   \ + anything else            the backslash is ignored                 *)
(*   raw CR, LF, CR LF            one LF                                   *)
(*   ( ... )                      balanced parentheses are part of the     *)
(*                                string                                   *)
(* Ref is the standard, Lib the library's lexer transcribed, with one      *)
(* deviation switch per rule.  Every byte string over the alphabet up to   *)
(* the bound is decoded by both; the replay compares the library with Ref. *)
(***************************************************************************)
EXTENDS Naturals, Sequences, TLC

CONSTANTS Bytes, MaxLen, Dev

BS == 92  LP == 40  RP == 41  CR == 13  LF == 10
IsOct(b) == b >= 48 /\ b <= 55
IsDec(b) == b >= 48 /\ b <= 57
Named(b) == CASE b = 110 -> 10 [] b = 114 -> 13 [] b = 116 -> 9 [] b = 98 -> 8 [] b = 102 -> 12 [] OTHER -> b
IsNamed(b) == b \in {110, 114, 116, 98, 102, LP, RP, BS}

\* digits of an escape that starts at p (the first one is octal): how many are taken, and the code
DigitOk(b, lib) == IF lib /\ "octal_takes_decimal_digits" \in Dev THEN IsDec(b) ELSE IsOct(b)
RECURSIVE OctTake(_, _, _, _, _)
OctTake(s, p, n, code, lib) ==
  IF n = 3 \/ p > Len(s) \/ ~(IF n = 0 THEN IsOct(s[p]) ELSE DigitOk(s[p], lib)) THEN <<p, code>>
  ELSE OctTake(s, p + 1, n + 1, code * 8 + (s[p] - 48), lib)

RECURSIVE Decode(_, _, _, _, _)
Decode(s, p, nest, out, lib) ==
  IF p > Len(s) THEN [k |-> "eof", val |-> <<>>, end |-> 0]
  ELSE LET c == s[p] IN
    IF c = BS THEN
      IF p + 1 > Len(s) THEN [k |-> "eof", val |-> <<>>, end |-> 0]
      ELSE LET d == s[p + 1] IN
        IF IsNamed(d) THEN Decode(s, p + 2, nest, Append(out, Named(d)), lib)
        ELSE IF d = LF THEN Decode(s, p + 2, nest, out, lib)
        ELSE IF d = CR THEN
             (IF lib /\ "continuation_cr_only" \in Dev THEN Decode(s, p + 2, nest, out, lib)
              ELSE Decode(s, (IF p + 2 <= Len(s) /\ s[p + 2] = LF THEN p + 3 ELSE p + 2), nest, out, lib))
        ELSE IF IsOct(d) THEN LET r == OctTake(s, p + 1, 0, 0, lib) IN Decode(s, r[1], nest, Append(out, r[2] % 256), lib)
        ELSE IF lib /\ "unknown_escape_keeps_backslash" \in Dev THEN Decode(s, p + 2, nest, out \o <<BS, d>>, lib)
        ELSE Decode(s, p + 2, nest, Append(out, d), lib)
    ELSE IF c = LP THEN Decode(s, p + 1, nest + 1, Append(out, LP), lib)
    ELSE IF c = RP THEN (IF nest = 0 THEN [k |-> "ok", val |-> out, end |-> p + 1] ELSE Decode(s, p + 1, nest - 1, Append(out, RP), lib))
    ELSE IF c = CR THEN
         (IF lib /\ "raw_cr_kept" \in Dev THEN Decode(s, p + 1, nest, Append(out, CR), lib)
          ELSE Decode(s, (IF p + 1 <= Len(s) /\ s[p + 1] = LF THEN p + 2 ELSE p + 1), nest, Append(out, LF), lib))
    ELSE Decode(s, p + 1, nest, Append(out, c), lib)

Ref(s) == Decode(s, 1, 0, <<>>, FALSE)
Lib(s) == Decode(s, 1, 0, <<>>, TRUE)

VARIABLES str
Init == str = <<>>
Next == Len(str) < MaxLen /\ \E b \in Bytes : str' = Append(str, b)
Spec == Init /\ [][Next]_str

\* C03: the library reads every literal string as the standard defines it
SameString == Lib(str) = Ref(str)
\* C01: the decoder's cursor ends inside the input
EndInside == Lib(str).k = "ok" => Lib(str).end <= Len(str) + 1
=============================================================================
