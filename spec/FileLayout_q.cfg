\* quick: header positions {0,1,7,512,1019} x 4 file kinds
CONSTANTS
  Headers = {0, 1, 7, 512, 1019}
  Kinds = {"classic", "xrefstm", "prev2", "objstm"}
  Consumers = {"startxref", "prev", "entry", "streamdata", "scan"}
  Dev = {}
INIT Init
NEXT Next
INVARIANTS SameAsUnprefixed HeaderFindable Emit
CHECK_DEADLOCK FALSE
