\* witness
CONSTANTS
  StrClasses = {"print", "lparen", "rparen", "bslash", "cr", "lf", "nul", "high"}
  NameClasses = {"reg", "space", "hash", "delim", "high"}
  NumClasses = {"int", "intmin", "intlike-real", "bigreal", "frac", "tiny", "negzero"}
  Placements = {"objbody", "dictvalue", "arrayelem", "operand"}
  Dev = {"no_separator_before_endobj"}
INIT Init
NEXT Next
INVARIANTS PlacementsOk
CHECK_DEADLOCK FALSE
