\* witness: a guard shared between threads must be refuted
CONSTANTS
  Threads <- T2
  Keys <- K3
  DirectKeys = {}
  MaxRepeats = 2
  DepsOpts <- AcyclicGraphs
  LoadsOpts <- W2_1
  SharedOpts = {TRUE}
  CacheOpts = {TRUE, FALSE}
  Dev = {"shared_chain"}
INIT Init
NEXT Next
VIEW View
INVARIANTS SequentialAnswers NoPanic
CHECK_DEADLOCK TRUE
