\* traces of the driver that never writes a dictionary over a different pending one: intended design, all properties
CONSTANTS
  BaseRaw = {1}
  BaseCmp = {2}
  BaseStm = {3}
  MaxNew = 6
  WVals = {}
  MaxCalls = 100000
  MaxSaves = 100000
  Headers = {0, 7}
  CacheModes = {TRUE, FALSE}
  Dev = {}
SPECIFICATION TraceSpec
VIEW TraceView
INVARIANTS TypeOK ReadYourWrites SameRef ReloadExact Retry
POSTCONDITION TraceAccepted
CHECK_DEADLOCK FALSE
