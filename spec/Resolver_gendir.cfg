\* as built, cover mode: one shortest schedule per distinct state, graphs with the direct leaf 4
CONSTANTS
  Threads <- T2
  Keys <- K4
  DirectKeys <- D4
  MaxRepeats = 2
  DepsOpts <- DirectGraphs
  LoadsOpts <- W_dir
  SharedOpts = {TRUE, FALSE}
  CacheOpts = {TRUE, FALSE}
  Dev <- AsBuilt
INIT Init
NEXT Next
VIEW View
INVARIANT EmitAll
CHECK_DEADLOCK FALSE
