\* quick: all ordered trees <= 5 nodes x MediaBox/Resources on <= 2 nodes x CropBox on <= 1 node x all indices
CONSTANTS
  MaxN = 5
  Shape = "all"
  MaxM = 2
  MaxC = 1
  Budget = 16
  Dev = {}
INIT Init
NEXT Next
INVARIANTS LookupsCorrect Complete PosBounded Emit
CHECK_DEADLOCK FALSE
