\* deep chains: 11 nested Pages nodes + 2 leaves hung anywhere (12 levels)
CONSTANTS
  MaxN = 13
  Shape = "deep"
  MaxM = 1
  MaxC = 0
  Budget = 16
  Dev = {}
INIT Init
NEXT Next
INVARIANTS LookupsCorrect Complete PosBounded Emit
CHECK_DEADLOCK FALSE
