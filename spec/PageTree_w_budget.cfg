\* witness: a depth budget of 10 must be refuted by the 12-level chain
CONSTANTS
  MaxN = 13
  Shape = "deep"
  MaxM = 0
  MaxC = 0
  Budget = 10
  Dev = {}
INIT Init
NEXT Next
INVARIANTS LookupsCorrect Complete
CHECK_DEADLOCK FALSE
