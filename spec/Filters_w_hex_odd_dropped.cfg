\* witness
CONSTANTS
  Parts = {"hex"}
  MaxHex = 5
  MaxA85 = 6
  MaxRuns = 3
  Samples = {0, 1, 128, 255}
  RowLen = 3
  Dev = {"hex_odd_dropped"}
INIT Init
NEXT Next
INVARIANTS HexOk
CHECK_DEADLOCK FALSE
