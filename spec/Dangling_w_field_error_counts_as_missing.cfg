\* witness
CONSTANTS
  Kinds = {"free", "beyond", "gap"}
  Carriers = {"prim", "struct", "mayberef", "rcref", "vec", "lazy", "ref"}
  Modes = {"strict", "tolerant"}
  Dev = {"field_error_counts_as_missing"}
INIT Init
NEXT Next
INVARIANTS DanglingIsNull
CHECK_DEADLOCK FALSE
