\* witness: inherit_skips_grandparent must be refuted
CONSTANTS
  MaxN = 4
  Shape = "all"
  MaxM = 2
  MaxC = 1
  Budget = 16
  Dev = {"inherit_skips_grandparent"}
INIT Init
NEXT Next
INVARIANTS LookupsCorrect Complete
CHECK_DEADLOCK FALSE
