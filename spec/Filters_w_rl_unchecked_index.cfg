\* witness
CONSTANTS
  Parts = {"rl"}
  MaxHex = 5
  MaxA85 = 6
  MaxRuns = 3
  Samples = {0, 1, 128, 255}
  RowLen = 3
  Dev = {"rl_unchecked_index"}
INIT Init
NEXT Next
INVARIANTS RLOk
CHECK_DEADLOCK FALSE
