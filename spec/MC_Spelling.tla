---------------------------- MODULE MC_Spelling ----------------------------
EXTENDS Spelling, Json
MC_Kinds == {"int", "real", "name", "lit", "hex", "bool", "null", "ref"}
MC_NVar == ("int" :> 6) @@ ("real" :> 8) @@ ("name" :> 8) @@ ("lit" :> 12) @@ ("hex" :> 6) @@ ("bool" :> 2) @@ ("null" :> 1) @@ ("ref" :> 3)
MC_Seps == {"sp", "tab", "lf", "cr", "crlf", "ff", "nul", "comment-lf", "comment-cr", "two", "comments2", "comments3"}
MC_SepsQ == {"sp", "lf", "cr", "ff", "comment-cr", "comments2"}
CaseJson == [shape |-> shape, items |-> items, seps |-> seps, ctx |-> ctx]
Emit == PrintT(<<"CASE", ToJson(CaseJson)>>)
=============================================================================
