------------------------------- MODULE Store -------------------------------
(***************************************************************************)
(* The read/write store of an open document: pdf/src/file.rs `Storage`     *)
(* (Updater impl: create / update / promise / fulfill; save; resolve_ref;  *)
(* StorageResolver::get with the object cache).                            *)
(*                                                                         *)
(* Prop layer: ghost `expected` = last value written through a reference;  *)
(* `Want(i)`; the invariants ReadYourWrites, SameRef, ReloadExact, Retry   *)
(* and the action property Prefix.                                         *)
(* Mech layer: `kind` (in-memory xref table), `changes` (pending set),     *)
(* `disk` (what a reload of the current backend yields), `ocache`.         *)
(* Dev layer: deviation switches, see Update / Save.                       *)
(*                                                                         *)
(* Values are sets of strings: a dictionary value is the set of its keys   *)
(* (so that the library's merge-on-repeated-update is expressible); the    *)
(* atoms {"#I"} (an integer), {"#S"} (a stream), {"#BAD"} (a value the     *)
(* serializer rejects: a stream that still points into the source file).   *)
(***************************************************************************)
EXTENDS Naturals, Sequences, FiniteSets, TLC

CONSTANTS BaseRaw,    \* ids of base objects stored as ordinary indirect objects (dictionaries)
          BaseCmp,    \* ids of base objects stored in an object stream (dictionaries)
          BaseStm,    \* ids of base objects that are streams
          MaxNew,     \* how many ids may be allocated by create / promise
          WVals,      \* values a caller may write
          MaxCalls, MaxSaves,
          Headers,    \* set of header offsets (junk bytes before %PDF-), e.g. {0, 7}
          CacheModes, \* subset of BOOLEAN: object cache on / off
          Dev

Base  == BaseRaw \cup BaseCmp \cup BaseStm
NB    == Cardinality(Base)
Ids   == 1..(NB + MaxNew)
NoVal == {"#NONE"}
Bad   == {"#BAD"}
Broken == {"#BROKEN"}       \* reload cannot produce the object at all
Atoms == {"#I", "#S", "#T", "#BAD", "#NONE", "#BROKEN"}     \* "#T": a new stream with data of its own (the base stream is "#S")
IsDict(v) == v \cap Atoms = {}
Merge(old, new) == IF IsDict(old) /\ IsDict(new) THEN old \cup new ELSE new
BaseVal(i) == IF i \in BaseStm THEN {"#S"} ELSE {"Z"}

VARIABLES hdr, cached,            \* configuration, fixed in Init
          kind, changes, disk, ocache,          \* Mech
          nnew, unfulf,                         \* allocation
          expected,                             \* ghost (Prop)
          backend,                              \* sequence of appended chunks (Prop: append-only)
          calls, saves, stuck, savedOk,
          last,                                 \* last call: [op, r, v, ret, res]
          path                                  \* history of calls with expected observations (hidden by VIEW)

mvars == <<hdr, cached, kind, changes, disk, ocache, nnew, unfulf, expected, backend, calls, saves, stuck, savedOk>>
vars  == <<mvars, last, path>>

Known == Base \cup ((NB + 1)..(NB + nnew))

-----------------------------------------------------------------------------
(* state functions                                                          *)

\* file.rs resolve_ref: pending changes first, then the table
Resolve(i) == IF changes[i] # NoVal THEN changes[i]
              ELSE IF kind[i] \in {"raw", "cmp"} THEN disk[i] ELSE NoVal
\* file.rs StorageResolver::get: object cache first
TypedGet(i) == IF cached /\ ocache[i] # NoVal THEN ocache[i] ELSE Resolve(i)
\* Prop: what every read of reference i must return
Want(i) == IF expected[i] # NoVal THEN expected[i] ELSE IF i \in Base THEN BaseVal(i) ELSE NoVal

Readable == Known \ unfulf
IdealObs == [i \in Ids |-> IF i \in Readable THEN Want(i) ELSE NoVal]
MechRes  == [i \in Ids |-> IF i \in Readable THEN Resolve(i) ELSE NoVal]
MechGet  == [i \in Ids |-> IF i \in Readable THEN TypedGet(i) ELSE NoVal]
MechDisk == [i \in Ids |-> IF i \in Readable THEN disk[i] ELSE NoVal]

Step(op, r, v, ret, res) ==
  [op |-> op, r |-> r, v |-> v, ret |-> ret, res |-> res,
   ideal |-> IdealObs', mres |-> MechRes', mget |-> MechGet', mdisk |-> MechDisk',
   savedOk |-> savedOk']

Record(op, r, v, ret, res) ==
  /\ last' = [op |-> op, r |-> r, v |-> v, ret |-> ret, res |-> res]
  /\ path' = Append(path, Step(op, r, v, ret, res))
  /\ calls' = calls + 1

-----------------------------------------------------------------------------
(* the public calls                                                         *)

Alloc == NB + nnew + 1

Create(v) ==
  /\ calls < MaxCalls /\ nnew < MaxNew
  /\ kind' = [kind EXCEPT ![Alloc] = "prom"]
  /\ changes' = [changes EXCEPT ![Alloc] = v]
  /\ expected' = [expected EXCEPT ![Alloc] = v]
  /\ nnew' = nnew + 1
  /\ savedOk' = FALSE
  /\ UNCHANGED <<hdr, cached, disk, ocache, unfulf, backend, saves, stuck>>
  /\ Record("create", 0, v, Alloc, "ok")

\* create of a value that cannot be brought into its primitive form (Updater::create returns Err): nothing is created.
\* Deviation "failed_create_leaves_promise": the number reserved for it stays promised for ever, and every later save fails
CreateFails ==
  /\ calls < MaxCalls /\ "#BAD" \in UNION WVals
  /\ stuck' = (stuck \/ "failed_create_leaves_promise" \in Dev)
  /\ UNCHANGED <<hdr, cached, kind, changes, disk, ocache, nnew, unfulf, expected, backend, saves, savedOk>>
  /\ Record("createfail", 0, NoVal, 0, "err")

\* write v through reference r (shared by update and fulfill)
Write(op, r, v) ==
  IF kind[r] = "cmp" /\ "cmp_update_creates_new" \in Dev
  THEN \* as built before the repair: a fresh id is allocated and returned, r keeps its value
       /\ nnew < MaxNew
       /\ kind' = [kind EXCEPT ![Alloc] = "prom"]
       /\ changes' = [changes EXCEPT ![Alloc] = v]
       /\ expected' = [expected EXCEPT ![r] = v]
       /\ nnew' = nnew + 1
       /\ UNCHANGED <<ocache, unfulf>>
       /\ Record(op, r, v, Alloc, "ok")
  ELSE /\ changes' = [changes EXCEPT ![r] =
                        IF @ # NoVal /\ "repeated_update_merges" \in Dev THEN Merge(@, v) ELSE v]
       /\ expected' = [expected EXCEPT ![r] = v]
       /\ ocache' = IF "update_keeps_cache" \in Dev THEN ocache ELSE [ocache EXCEPT ![r] = NoVal]
       /\ unfulf' = unfulf \ {r}
       /\ UNCHANGED <<kind, nnew>>
       /\ Record(op, r, v, r, "ok")

Update(r, v) ==
  /\ calls < MaxCalls
  /\ r \in Readable
  /\ savedOk' = FALSE
  /\ UNCHANGED <<hdr, cached, disk, backend, saves, stuck>>
  /\ Write("update", r, v)

Promise ==
  /\ calls < MaxCalls /\ nnew < MaxNew
  /\ kind' = [kind EXCEPT ![Alloc] = "prom"]
  /\ nnew' = nnew + 1
  /\ unfulf' = unfulf \cup {Alloc}
  /\ UNCHANGED <<hdr, cached, changes, disk, ocache, expected, backend, saves, stuck, savedOk>>
  /\ Record("promise", 0, NoVal, Alloc, "ok")

Fulfil(p, v) ==
  /\ calls < MaxCalls
  /\ p \in unfulf
  /\ savedOk' = FALSE
  /\ UNCHANGED <<hdr, cached, disk, backend, saves, stuck>>
  /\ Write("fulfil", p, v)

\* typed load; fills the object cache
Get(r) ==
  /\ calls < MaxCalls
  /\ r \in Readable
  /\ ocache' = IF cached /\ ocache[r] = NoVal THEN [ocache EXCEPT ![r] = Resolve(r)] ELSE ocache
  /\ UNCHANGED <<hdr, cached, kind, changes, disk, nnew, unfulf, expected, backend, saves, stuck, savedOk>>
  /\ Record("get", r, NoVal, r, "ok")

Pending == {i \in Ids : changes[i] # NoVal}

Save ==
  /\ calls < MaxCalls /\ saves < MaxSaves
  /\ unfulf = {}                              \* domain: no save with an unfulfilled promise
  /\ saves' = saves + 1
  /\ IF stuck
     THEN \* as built: every later save fails with "invalid xref entry: Promised"
          /\ UNCHANGED <<hdr, cached, kind, changes, disk, ocache, nnew, unfulf, expected, backend, stuck, savedOk>>
          /\ Record("save", 0, NoVal, 0, "err")
     ELSE IF \E i \in Pending : changes[i] = Bad
     THEN \* a pending value cannot be serialised: Err; objects before it may already be appended
          /\ backend' = Append(backend, "partial")
          /\ stuck' = ("failed_save_leaves_promise" \in Dev)
          /\ UNCHANGED <<hdr, cached, kind, changes, disk, ocache, nnew, unfulf, expected, savedOk>>
          /\ Record("save", 0, NoVal, 0, "err")
     ELSE /\ backend' = Append(backend, "rev")
          /\ disk' = IF "offsets_ignore_header" \in Dev /\ hdr > 0
                     THEN [i \in Ids |-> Broken]
                     ELSE [i \in Ids |->
                             IF i \in Pending
                             THEN (IF "no_separator_before_endobj" \in Dev /\ changes[i] = {"#I"}
                                   THEN Broken ELSE changes[i])
                             ELSE disk[i]]
          /\ kind' = [i \in Ids |-> IF i \in Pending THEN "raw" ELSE kind[i]]
          /\ changes' = IF "pending_kept_after_save" \in Dev THEN changes ELSE [i \in Ids |-> NoVal]
          /\ ocache' = [i \in Ids |-> NoVal]
          /\ savedOk' = TRUE
          /\ UNCHANGED <<hdr, cached, nnew, unfulf, expected, stuck>>
          /\ Record("save", 0, NoVal, 0, "ok")

-----------------------------------------------------------------------------
Init ==
  /\ hdr \in Headers
  /\ cached \in CacheModes
  /\ kind = [i \in Ids |-> IF i \in BaseCmp THEN "cmp" ELSE IF i \in Base THEN "raw" ELSE "none"]
  /\ changes = [i \in Ids |-> NoVal]
  /\ disk = [i \in Ids |-> IF i \in Base THEN BaseVal(i) ELSE NoVal]
  /\ ocache = [i \in Ids |-> NoVal]
  /\ nnew = 0 /\ unfulf = {}
  /\ expected = [i \in Ids |-> NoVal]
  /\ backend = <<"base">>
  /\ calls = 0 /\ saves = 0 /\ stuck = FALSE /\ savedOk = FALSE
  /\ last = [op |-> "init", r |-> 0, v |-> NoVal, ret |-> 0, res |-> "ok"]
  /\ path = <<>>

Next ==
  \/ \E v \in WVals : Create(v)
  \/ CreateFails
  \/ \E r \in Ids, v \in WVals : Update(r, v)
  \/ Promise
  \/ \E p \in Ids, v \in WVals : Fulfil(p, v)
  \/ \E r \in Ids : Get(r)
  \/ Save

Spec == Init /\ [][Next]_vars

-----------------------------------------------------------------------------
(* Properties (C09)                                                         *)

TypeOK == /\ nnew \in 0..MaxNew /\ unfulf \subseteq Known /\ calls \in 0..MaxCalls

\* before any save every read through the same open document already reflects each write
ReadYourWrites == \A i \in Readable : Resolve(i) = Want(i) /\ TypedGet(i) = Want(i)

\* the reference handed back for update(r, .) / fulfil(p, .) is r / p
SameRef == last.op \in {"update", "fulfil"} => last.ret = last.r

\* reloading the saved bytes resolves every reference to the last value written,
\* and every untouched object to its previous value
ReloadExact == savedOk => \A i \in Readable : disk[i] = Want(i)

\* a failed save can be retried once the offending object is replaced
Retry == stuck => \E i \in Pending : changes[i] = Bad

\* the previous bytes remain an unmodified prefix of the output
Prefix == [][Len(backend') >= Len(backend) /\ SubSeq(backend', 1, Len(backend)) = backend]_vars

\* hides the history variable: one BFS path per distinct (state, last call)
View == <<mvars, last>>
=============================================================================
