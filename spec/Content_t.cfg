\* thorough: all sequences <= 4 over the merge-relevant alphabet
CONSTANTS
  Alphabet <- MergeAlphabet
  MaxLen = 4
  Dev = {}
INIT Init
NEXT Next
INVARIANTS RoundTrip PrefixParsed Emit
CHECK_DEADLOCK FALSE
