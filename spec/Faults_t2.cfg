SPECIFICATION Spec
CONSTANTS
  Layouts <- LayoutsSomeCuts
  Stages <- MCStages
  MaxFaults = 2
  Dev = {}
INVARIANTS TypeOK OutcomeOk Bounded Emit
PROPERTY Terminates
CHECK_DEADLOCK FALSE
