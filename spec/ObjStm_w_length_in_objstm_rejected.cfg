\* witness
CONSTANTS
  Kinds <- MC_KindsQ
  BigN = 60
  MaxN = 2
  Filters = {"none", "flate"}
  HdrSeps = {"sp", "nl", "tight"}
  LenStores = {"direct", "raw", "cmp"}
  Dev = {"length_in_objstm_rejected"}
INIT Init
NEXT Next
INVARIANTS TwinEqual
CHECK_DEADLOCK FALSE
