------------------------------- MODULE ObjStm -------------------------------
(***************************************************************************)
(* Object streams: pdf/src/object/stream.rs ObjectStream (header of N      *)
(* pairs, /First, member slicing), pdf/src/file.rs resolve_ref (compressed *)
(* look-up path), pdf/src/parser/mod.rs (top-level parse of a member       *)
(* slice: integer / reference look-ahead at the end of the buffer; indirect*)
(* /Length while parsing a stream).                                        *)
(*                                                                         *)
(* A container holds members 1..n; member j has a value kind, a text of    *)
(* abstract length len[j] and is followed by sep[j] white-space bytes      *)
(* (sep[n] = trailing white-space; sep[j] may be 0 when member j+1 starts  *)
(* with a delimiter).  The writer Prop computes the header   *)
(* offsets; the reader Mech slices and parses.  Prop: the compressed twin  *)
(* resolves to the same value as the direct twin.                          *)
(***************************************************************************)
EXTENDS Naturals, Sequences, FiniteSets, TLC

CONSTANTS Kinds,      \* value kinds
          MaxN,       \* members per container
          BigN,       \* size of the "many small members" container (0 = none)
          Filters,    \* container filters
          HdrSeps,    \* white-space variants between header numbers
          LenStores,  \* how a stream's /Length is stored: "direct", "raw", "cmp"
          Dev

IntLike == {"int", "negint"}       \* kinds whose text is a single integer token
DelimStart == {"name", "emptyname", "lit", "hex", "arr", "dict", "nested"}   \* kinds whose text starts with a delimiter

VARIABLES n, kinds, len, sep, idx, filter, hdrsep, lenstore,
          phase,                  \* "choose" | "slice" | "parse" | "done"
          start, end,             \* Mech: byte range of the slice inside the decoded data (relative to /First)
          result                  \* "same" | "err" | "wrong"

vars == <<n, kinds, len, sep, idx, filter, hdrsep, lenstore, phase, start, end, result>>

-----------------------------------------------------------------------------
(* writer (Prop): offsets of the members relative to /First                 *)
RECURSIVE Off(_)
Off(j) == IF j = 1 THEN 0 ELSE Off(j - 1) + len[j - 1] + sep[j - 1]
BodyLen == Off(n) + len[n] + sep[n]

\* the target: a value member, or (for stream cases) the /Length integer of a stream
\* a container with many small members: its header alone is longer than the compressed stream (the header length /First
\* is an offset into the DECODED data and must not be compared with anything measured on the stored bytes)
ChooseMany ==
  /\ phase = "choose" /\ BigN > 0
  /\ n' = BigN
  /\ kinds' = [j \in 1..BigN |-> "null"] /\ len' = [j \in 1..BigN |-> 1] /\ sep' = [j \in 1..BigN |-> 1]
  /\ idx' \in {1, BigN \div 2, BigN}
  /\ filter' \in Filters /\ hdrsep' \in HdrSeps \ {"tight"} /\ lenstore' = "direct"
  /\ phase' = "slice"
  /\ UNCHANGED <<start, end, result>>

Choose ==
  /\ phase = "choose"
  /\ \E nn \in 1..MaxN :
       /\ n' = nn
       /\ \E ks \in [1..nn -> Kinds], ls \in [1..nn -> 1..2], ss \in [1..nn -> 0..1], i \in 1..nn :
            \* members are separated by white-space, except that none is needed in front of a member
            \* whose text starts with a delimiter ( / ( < [ << )
            /\ \A j \in 1..(nn - 1) : ss[j] = 0 => ks[j + 1] \in DelimStart
            /\ kinds' = ks /\ len' = ls /\ sep' = ss /\ idx' = i
  /\ filter' \in Filters /\ hdrsep' \in HdrSeps /\ lenstore' \in LenStores
  \* "tight": nothing stands between the last number of the header and the first member, which then has to start with a delimiter
  /\ (hdrsep' = "tight" => kinds'[1] \in DelimStart)
  /\ (lenstore' # "direct" => kinds'[idx'] = "int")       \* the /Length twin is an integer member
  /\ phase' = "slice"
  /\ UNCHANGED <<start, end, result>>

\* stream.rs get_object_slice
Slice ==
  /\ phase = "slice"
  /\ start' = Off(idx)
  /\ end' = IF idx = n THEN BodyLen
            ELSE IF "slice_end_off_by_one" \in Dev THEN Off(idx + 1) - 1 ELSE Off(idx + 1)
  /\ phase' = "parse"
  /\ UNCHANGED <<n, kinds, len, sep, idx, filter, hdrsep, lenstore, result>>

\* parser/mod.rs parse of the slice with the caller's flags
Parse ==
  /\ phase = "parse"
  /\ result' =
       IF lenstore = "cmp" /\ "length_in_objstm_rejected" \in Dev THEN "err"      \* flags lack STREAM (as built before the repair)
       ELSE IF start # Off(idx) \/ end < Off(idx) + len[idx] THEN "wrong"         \* the slice cuts the member
       ELSE IF kinds[idx] \in IntLike /\ "int_lookahead_eof" \in Dev THEN "err"   \* look-ahead for `n g R` hits the end of the buffer
       ELSE "same"
  /\ phase' = "done"
  /\ UNCHANGED <<n, kinds, len, sep, idx, filter, hdrsep, lenstore, start, end>>

Init ==
  /\ n = 1 /\ kinds = <<"null">> /\ len = <<1>> /\ sep = <<0>> /\ idx = 1
  /\ filter \in Filters /\ hdrsep \in HdrSeps /\ lenstore = "direct"
  /\ phase = "choose" /\ start = 0 /\ end = 0 /\ result = "none"

Next == Choose \/ ChooseMany \/ Slice \/ Parse
Spec == Init /\ [][Next]_vars

-----------------------------------------------------------------------------
\* C11: an object's value does not depend on how it is stored
TwinEqual == phase = "done" => result = "same"
\* the slice of member idx is exactly its text plus the white-space that follows it
SliceExact == phase \in {"parse", "done"} => start = Off(idx) /\ end = Off(idx) + len[idx] + sep[idx]
=============================================================================
