\* witness
CONSTANTS
  Objs = {1, 2, 3, 8, 9, 10}
  Types = {"P", "D", "VM", "VR"}
  TypesOf <- MC_TypesOf
  Loads <- MC_Loads
  Streams = {4}
  MaxCalls = 3
  ObjCacheOpts = {TRUE, FALSE}
  StmCacheOpts = {TRUE, FALSE}
  Dev = {"error_cached_across_types"}
INIT Init
NEXT Next
INVARIANTS Invisible
CHECK_DEADLOCK FALSE
