----------------------------- MODULE MC_XRef -----------------------------
(* TLC-only wrapper of XRef: case emission for Engine A (spec -> impl replay). *)
EXTENDS XRef, Json

SecJson(i) == [fmt |-> hist[i].fmt,
               ch  |-> [o \in Objs |-> [o |-> o, k |-> hist[i].ch[o].k,
                                        g |-> hist[i].ch[o].g, v |-> hist[i].ch[o].v]]]

CaseJson == [sections |-> [i \in 1..Len(hist) |-> SecJson(i)],
             ideal    |-> [o \in Objs |-> [o |-> o, k |-> Ideal[o].k, v |-> Ideal[o].v]],
             mech     |-> [o \in Objs |-> [o |-> o, k |-> MechResult[o].k, v |-> MechResult[o].v]],
             trailer  |-> trailer]

\* printed once per distinct terminal state = once per history
Emit == phase = "done" => PrintT(<<"CASE", ToJson(CaseJson)>>)
=============================================================================
