\* as built: transition cover of 3 threads x 1 load
CONSTANTS
  Threads <- T3
  Keys <- K3
  DirectKeys = {}
  MaxRepeats = 2
  DepsOpts <- AllGraphs
  LoadsOpts <- W3_1
  SharedOpts = {TRUE, FALSE}
  CacheOpts = {TRUE, FALSE}
  Dev <- AsBuilt
INIT Init
NEXT Next
VIEW View
INVARIANT EmitAll
CHECK_DEADLOCK FALSE
