\* hex: 4 A a f SP NUL LF > G       name: A # 4 1 f G SP / ( .      num: + - . 0 7 9 e
CONSTANTS
  Parts = {"hex", "name", "num"}
  HexBytes = {52, 65, 97, 102, 32, 0, 10, 62, 71}
  NameBytes = {65, 35, 52, 49, 102, 71, 32, 47, 40, 46}
  NumBytes = {43, 45, 46, 48, 55, 57, 101}
  MaxLen = 4
  Dev = {}
INIT Init
NEXT Next
INVARIANTS SameLiteral Emit
CHECK_DEADLOCK FALSE
