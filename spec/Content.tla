------------------------------ MODULE Content ------------------------------
(***************************************************************************)
(* Content streams: pdf/src/content.rs serialize_ops (look-ahead merging   *)
(* into the shorthand operators s b b* ' " TD v y, tracking of the current *)
(* point) and OpBuilder::parse / add (operand buffer, operator dispatch,   *)
(* `last` point).                                                          *)
(*                                                                         *)
(* An operation is a record [op, a] with `a` a tuple of abstract operands  *)
(* (all integers: winding 1 = non-zero, 2 = even-odd; texts, names and    *)
(* numbers are small integers too)                                         *)
(* (points are small integers: equal integers = equal points; numbers      *)
(* likewise).  A token is [kw, a].  The product machine first serialises   *)
(* the chosen sequence one step at a time, then parses the token sequence  *)
(* one token at a time.  Prop 1: Parse(Serialize(ops)) = ops.  Prop 2 is   *)
(* the operator table `Table` (keyword -> operations), replayed verbatim.  *)
(***************************************************************************)
EXTENDS Naturals, Integers, Sequences, FiniteSets, TLC

CONSTANTS Alphabet,    \* set of operations sequences are drawn from
          MaxLen,
          Dev

VARIABLES ops,          \* the chosen sequence
          phase,        \* "choose" | "ser" | "parse" | "done"
          i,            \* serializer: index of the next operation / parser: index of the next token
          cur,          \* serializer: current point (0 = none)
          toks,         \* serializer output
          last,         \* parser: last point (1 = the origin, as OpBuilder::new)
          out           \* parser output

vars == <<ops, phase, i, cur, toks, last, out>>

Op(o, a) == [op |-> o, a |-> a]
Tok(k, a) == [kw |-> k, a |-> a]
Origin == 1            \* the point (0,0)

-----------------------------------------------------------------------------
(* serializer Mech: one iteration of the `while ops.len() > 0` loop          *)

At(k) == IF k <= Len(ops) THEN ops[k] ELSE Op("none", <<>>)

\* the point the subpath open at position k began with (0 = none)
SubStart(k) ==
  LET S == {j \in 1..(k - 1) : ops[j].op = "MoveTo"} IN
  IF S = {} THEN 0 ELSE ops[CHOOSE j \in S : \A j2 \in S : j2 <= j].a[1]

\* returns <<token, advance, new current point>>
SerStep(k) ==
  LET o == ops[k]  n1 == At(k + 1)  n2 == At(k + 2)  n3 == At(k + 3) IN
  CASE o.op = "Close" ->
         \* the parser keeps `last` across h / s / b: so does the serializer's current point. That agreement is what the
         \* round trip needs; the operator table moves the current point to the subpath's start (recorded finding
         \* table:v:current-point-after-*, probed by the table part of the replay)
         \* (deviation: a serializer that follows the graphics model and moves back to the subpath's start)
         LET c == IF "close_moves_current" \in Dev THEN SubStart(k) ELSE cur IN
         (CASE n1.op = "Stroke" -> <<Tok("s", <<>>), 2, c>>
            [] n1.op = "FillAndStroke" /\ n1.a = <<1>> -> <<Tok("b", <<>>), 2, c>>
            [] n1.op = "FillAndStroke" /\ n1.a = <<2>> -> <<Tok("b*", <<>>), 2, c>>
            [] OTHER -> <<Tok("h", <<>>), 1, c>>)
    [] o.op = "MoveTo" -> <<Tok("m", o.a), 1, o.a[1]>>
    [] o.op = "LineTo" -> <<Tok("l", o.a), 1, o.a[1]>>
    [] o.op = "CurveTo" ->
         (IF o.a[1] = cur THEN <<Tok("v", <<o.a[2], o.a[3]>>), 1, o.a[3]>>
          ELSE IF o.a[2] = o.a[3] THEN <<Tok("y", <<o.a[1], o.a[3]>>), 1, o.a[3]>>
          ELSE <<Tok("c", o.a), 1, o.a[3]>>)
    [] o.op = "WordSpacing" ->
         (IF n1.op = "CharSpacing" /\ n2.op = "TextNewline" /\ n3.op = "TextDraw"
          THEN <<Tok("dquote", <<o.a[1], n1.a[1], n3.a[1]>>), 4, cur>>
          ELSE <<Tok("Tw", o.a), 1, cur>>)
    [] o.op = "Leading" ->
         \* translation = <<x, y>>; the shorthand TD means: leading = -y
         (IF n1.op = "MoveText" /\ (IF "td_uses_x" \in Dev THEN o.a[1] = 0 - n1.a[1]
                                   ELSE IF "td_ignores_sign" \in Dev THEN (o.a[1] = n1.a[2] \/ o.a[1] = 0 - n1.a[2])
                                   ELSE o.a[1] = 0 - n1.a[2])
          THEN <<Tok("TD", n1.a), 2, cur>>
          ELSE <<Tok("TL", o.a), 1, cur>>)
    [] o.op = "TextNewline" ->
         (IF n1.op = "TextDraw" THEN <<Tok("quote", n1.a), 2, cur>> ELSE <<Tok("T*", <<>>), 1, cur>>)
    [] o.op = "Shade" -> <<Tok("sh", o.a), 1, cur>>
    [] o.op = "RenderingIntent" -> <<Tok(IF "ri_without_slash" \in Dev THEN "ri-bare" ELSE "ri", o.a), 1, cur>>
    [] OTHER -> <<Tok(o.op, o.a), 1, cur>>      \* one operator per operation, operands in order

Serialize ==
  /\ phase = "ser"
  /\ IF i > Len(ops)
     THEN /\ phase' = "parse" /\ i' = 1 /\ UNCHANGED <<toks, cur>>
     ELSE LET r == SerStep(i) IN
          /\ toks' = Append(toks, r[1]) /\ i' = i + r[2] /\ cur' = r[3] /\ UNCHANGED phase
  /\ UNCHANGED <<ops, last, out>>

-----------------------------------------------------------------------------
(* parser Mech: OpBuilder::add for one operator token                         *)

\* returns <<operations pushed, new last point>>
ParseTok(t) ==
  CASE t.kw = "s"  -> <<<<Op("Close", <<>>), Op("Stroke", <<>>)>>, last>>
    [] t.kw = "b"  -> <<<<Op("Close", <<>>), Op("FillAndStroke", <<1>>)>>, last>>
    [] t.kw = "b*" -> <<<<Op("Close", <<>>), Op("FillAndStroke", <<2>>)>>, last>>
    [] t.kw = "h"  -> <<<<Op("Close", <<>>)>>, last>>
    [] t.kw = "m"  -> <<<<Op("MoveTo", t.a)>>, t.a[1]>>
    [] t.kw = "l"  -> <<<<Op("LineTo", t.a)>>, t.a[1]>>
    [] t.kw = "c"  -> <<<<Op("CurveTo", t.a)>>, t.a[3]>>
    [] t.kw = "v"  -> <<<<Op("CurveTo", <<last, t.a[1], t.a[2]>>)>>, t.a[2]>>
    [] t.kw = "y"  -> <<<<Op("CurveTo", <<t.a[1], t.a[2], t.a[2]>>)>>, t.a[2]>>
    [] t.kw = "dquote" -> <<<<Op("WordSpacing", <<t.a[1]>>), Op("CharSpacing", <<t.a[2]>>), Op("TextNewline", <<>>), Op("TextDraw", <<t.a[3]>>)>>, last>>
    [] t.kw = "Tw" -> <<<<Op("WordSpacing", t.a)>>, last>>
    [] t.kw = "TD" -> <<<<Op("Leading", <<0 - t.a[2]>>), Op("MoveText", t.a)>>, last>>
    [] t.kw = "TL" -> <<<<Op("Leading", t.a)>>, last>>
    [] t.kw = "quote" -> <<<<Op("TextNewline", <<>>), Op("TextDraw", t.a)>>, last>>
    [] t.kw = "T*" -> <<<<Op("TextNewline", <<>>)>>, last>>
    [] t.kw = "sh" -> <<(IF "sh_dropped" \in Dev THEN <<>> ELSE <<Op("Shade", t.a)>>), last>>
    [] t.kw = "ri" -> <<<<Op("RenderingIntent", t.a)>>, last>>
    [] t.kw = "ri-bare" -> <<<<>>, last>>           \* the operand is not a name: the operator is lost
    [] OTHER -> <<<<Op(t.kw, t.a)>>, last>>

Parse ==
  /\ phase = "parse"
  /\ IF i > Len(toks)
     THEN /\ phase' = "done" /\ UNCHANGED <<i, out, last>>
     ELSE LET r == ParseTok(toks[i]) IN
          /\ out' = out \o r[1] /\ last' = r[2] /\ i' = i + 1 /\ UNCHANGED phase
  /\ UNCHANGED <<ops, cur, toks>>

-----------------------------------------------------------------------------
Extend ==
  /\ phase = "choose" /\ Len(ops) < MaxLen
  /\ \E o \in Alphabet : ops' = Append(ops, o)
  /\ UNCHANGED <<phase, i, cur, toks, last, out>>

Start ==
  /\ phase = "choose" /\ Len(ops) >= 1
  /\ phase' = "ser" /\ i' = 1
  /\ UNCHANGED <<ops, cur, toks, last, out>>

Init == ops = <<>> /\ phase = "choose" /\ i = 1 /\ cur = 0 /\ toks = <<>> /\ last = Origin /\ out = <<>>
Next == Extend \/ Start \/ Serialize \/ Parse
Spec == Init /\ [][Next]_vars

-----------------------------------------------------------------------------
\* C08 (1): writing a sequence and parsing it back returns the same sequence
RoundTrip == phase = "done" => out = ops

\* the two sides agree on the point a `v` curve starts from: while parsing, the parser's `last`
\* equals the serializer's current point at the same position (0 = none on the serializer side)
\* - checked at the end through RoundTrip; as a step invariant on the prefix parsed so far:
PrefixParsed == phase = "parse" => \E n \in 0..Len(ops) : out = SubSeq(ops, 1, n)
=============================================================================
