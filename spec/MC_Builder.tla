----------------------------- MODULE MC_Builder -----------------------------
EXTENDS Builder, Json
\* page descriptions: boxes x rotation x extra entry x resources x operations
PK_full == [boxes : {"none", "media", "media+crop"}, rot : {0, 90}, other : {0, 1}, res : {"empty", "font", "font+gs"}, ops : {0, 1, 2, 3}]
PK_small == {[boxes |-> "media", rot |-> 0, other |-> 0, res |-> "font", ops |-> 2],
             [boxes |-> "none", rot |-> 90, other |-> 1, res |-> "empty", ops |-> 1],
             [boxes |-> "media+crop", rot |-> 0, other |-> 0, res |-> "font+gs", ops |-> 3],
             [boxes |-> "media", rot |-> 0, other |-> 0, res |-> "empty", ops |-> 0]}
CaseJson == [pages |-> pages, info |-> info, n_objects |-> Cardinality(Written), size |-> size]
Emit == pc = "done" => PrintT(<<"CASE", ToJson(CaseJson)>>)
=============================================================================
