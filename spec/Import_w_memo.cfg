\* witness: memo inserted after the recursion does not terminate on cycles
CONSTANTS
  N = 2
  Categories = {"gs", "colorspace"}
  Dev = {"memo_after_recursion"}
INIT Init
NEXT Next
CONSTRAINT Bounded
INVARIANTS Terminates
CHECK_DEADLOCK FALSE
