\* transition cover for the replay
CONSTANTS
  NBase = 3
  MaxNew = 2
  Vals = {"I1", "I2"}
  MaxCalls = 6
  MaxSessions = 3
  MaxSaves = 3
  CacheModes = {TRUE, FALSE}
  Dev = {}
INIT Init
NEXT Next
VIEW View
INVARIANTS SessionView GetAnswers Durable Emit

CHECK_DEADLOCK FALSE
