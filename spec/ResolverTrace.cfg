CONSTANTS
  Threads = {1, 2, 3, 4}
  Keys = {1, 2, 3, 4, 5, 6}
  DirectKeys = {6}
  MaxRepeats = 1000000
  DepsOpts = {}
  LoadsOpts = {}
  SharedOpts = {}
  CacheOpts = {}
  Dev = {}
SPECIFICATION TraceSpec
VIEW TraceView
INVARIANTS TypeOK SequentialAnswers NoPanic InProcHasOwner
POSTCONDITION TraceAccepted
CHECK_DEADLOCK FALSE
