----------------------------- MODULE PageTree -----------------------------
(***************************************************************************)
(* Page trees: descent by cumulative /Count and attribute inheritance      *)
(* (pdf/src/object/types.rs PageTree::page / page_limited, inherit,        *)
(* Page::media_box / crop_box / resources; pdf/src/file.rs num_pages,      *)
(* get_page, pages).                                                       *)
(*                                                                         *)
(* Init chooses a well-formed tree (parent vector, node kinds) and the     *)
(* placement of the inheritable attributes; Next runs the library's        *)
(* descent loop one kid per step for every index 0..count+2 in turn.       *)
(* Prop: DFS leaf order, nearest-ancestor attribute.                       *)
(***************************************************************************)
EXTENDS Naturals, Sequences, FiniteSets, TLC

CONSTANTS MaxN,        \* max number of nodes
          Shape,       \* "all": every ordered tree; "deep": a chain of Pages nodes with two leaves hung anywhere
          MaxM, MaxC,  \* max number of nodes carrying a MediaBox(+Resources) / a CropBox
          Budget,      \* depth budget of the descent (16 in the library)
          Dev

VARIABLES n, parent, kind,          \* the tree: nodes 1..n, node 1 = root; parent[i] < i
          mset, cset,               \* nodes carrying MediaBox and Resources / CropBox
          cnt, lv,                  \* the /Count entry of every node and the DFS leaf sequence (fixed once the tree is built)
          want,                     \* page index currently looked up
          node, k, pos, rel, depth, \* Mech: descent state (current tree node, kid index, pos, index relative to node, budget left)
          phase,                    \* "build" | "descend" | "done"
          results                   \* per index: [leaf, m, c, r]  (0 = none / error)

vars == <<n, parent, kind, mset, cset, cnt, lv, want, node, k, pos, rel, depth, phase, results>>

Nodes == 1..n

-----------------------------------------------------------------------------
(* tree vocabulary                                                          *)

RECURSIVE AscSeq(_)
AscSeq(S) == IF S = {} THEN <<>>
              ELSE LET m == CHOOSE x \in S : \A y \in S : x <= y IN <<m>> \o AscSeq(S \ {m})

Kids(x) == AscSeq({i \in 2..n : parent[i] = x})

RECURSIVE Leaves(_)
\* Prop: leaves below x in depth-first document order
Leaves(x) == IF kind[x] = "Page" THEN <<x>>
             ELSE LET ks == Kids(x)
                      F[j \in 0..Len(ks)] == IF j = 0 THEN <<>> ELSE F[j-1] \o Leaves(ks[j])
                  IN F[Len(ks)]

Count(x) == Len(Leaves(x))          \* the accurate /Count of a Pages node

RECURSIVE Nearest(_, _)
\* Prop: nearest ancestor-or-self of x that is in S (0 = none)
Nearest(x, S) == IF x \in S THEN x ELSE IF x = 1 THEN 0 ELSE Nearest(parent[x], S)

IdealLeaf(i) == IF i < Len(lv) THEN lv[i + 1] ELSE 0
IdealAttrs(l) == LET m == Nearest(l, mset)
                     c == Nearest(l, cset)
                 \* c: node whose CropBox applies, or 100 + node whose MediaBox is the fallback
                 IN [m |-> m, c |-> IF c # 0 THEN c ELSE IF m # 0 THEN 100 + m ELSE 0, r |-> m]

-----------------------------------------------------------------------------
(* Mech: inheritance walk (types.rs inherit + media_box/crop_box/resources)  *)

RECURSIVE InheritFrom(_, _)
\* loop of `inherit`: start at tree node p, go up /Parent until the attribute is found
InheritFrom(p, S) == IF p \in S THEN p
                     ELSE IF p = 1 THEN 0
                     ELSE IF "inherit_skips_grandparent" \in Dev /\ parent[p] # 1
                          THEN InheritFrom(parent[parent[p]], S)
                          ELSE InheritFrom(parent[p], S)

MechAttrs(l) ==
  LET m == IF l \in mset THEN l ELSE InheritFrom(parent[l], mset)
      c0 == IF l \in cset THEN l ELSE InheritFrom(parent[l], cset)
  IN [m |-> m, c |-> IF c0 # 0 THEN c0 ELSE IF m # 0 THEN 100 + m ELSE 0, r |-> m]

-----------------------------------------------------------------------------
(* Mech: descent (types.rs page_limited), one kid per step                  *)

Finish(leaf) ==
  /\ results' = Append(results, IF leaf = 0 THEN [leaf |-> 0, m |-> 0, c |-> 0, r |-> 0]
                                ELSE [leaf |-> leaf] @@ MechAttrs(leaf))
  /\ IF want + 1 > Len(lv) + 2
     THEN /\ phase' = "done" /\ UNCHANGED <<want, node, k, pos, rel, depth>>
     ELSE /\ want' = want + 1
          /\ node' = 1 /\ k' = 1 /\ pos' = 0 /\ rel' = want + 1 /\ depth' = Budget
          /\ phase' = "descend"

\* `if depth == 0 { bail!(..) }` at the entry of page_limited; then the `for kid in kids` loop
Visit ==
  /\ phase = "descend"
  /\ UNCHANGED <<n, parent, kind, mset, cset, cnt, lv>>
  /\ IF depth = 0 THEN Finish(0)                                       \* Err(depth exceeded)
     ELSE LET ks == Kids(node) IN
       IF k > Len(ks) THEN Finish(0)                                   \* Err(PageOutOfBounds)
       ELSE LET kid == ks[k] IN
         IF kind[kid] = "Pages"
         THEN LET c == cnt[kid]
                  inside == IF "range_le" \in Dev THEN pos <= rel /\ rel <= pos + c
                            ELSE pos <= rel /\ rel < pos + c
              IN IF inside
                 THEN /\ node' = kid /\ k' = 1 /\ pos' = 0 /\ rel' = rel - pos /\ depth' = depth - 1
                      /\ UNCHANGED <<want, phase, results>>
                 ELSE /\ pos' = pos + c /\ k' = k + 1
                      /\ UNCHANGED <<want, node, rel, depth, phase, results>>
         ELSE IF pos = rel
              THEN Finish(kid)
              ELSE /\ pos' = IF "leaf_no_advance" \in Dev THEN pos ELSE pos + 1
                   /\ k' = k + 1
                   /\ UNCHANGED <<want, node, rel, depth, phase, results>>

-----------------------------------------------------------------------------
\* building the tree: every well-formed ordered tree is reachable by adding nodes in index order
AddNode ==
  /\ phase = "build" /\ Shape = "all" /\ n < MaxN
  /\ \E p \in 1..n, kd \in {"Pages", "Page"} :
       /\ kind[p] = "Pages"
       /\ n' = n + 1
       /\ parent' = [parent EXCEPT ![n + 1] = p]
       /\ kind' = [kind EXCEPT ![n + 1] = kd]
  /\ UNCHANGED <<mset, cset, cnt, lv, want, node, k, pos, rel, depth, phase, results>>

\* subsets of S with at most m <= 2 elements
UpTo(S, m) == {{}} \cup (IF m >= 1 THEN {{x} : x \in S} ELSE {}) \cup (IF m >= 2 THEN {{x, y} : x, y \in S} ELSE {})

\* placing the inheritable attributes and starting the look-ups
Place ==
  /\ phase = "build"
  /\ \E ms \in UpTo(1..n, MaxM), cs \in UpTo(1..n, MaxC) :
       /\ mset' = ms /\ cset' = cs
  /\ cnt' = [i \in 1..MaxN |-> IF i <= n THEN Count(i) ELSE 0]      \* accurate counts (well-formedness)
  /\ lv' = Leaves(1)
  /\ phase' = "descend"
  /\ UNCHANGED <<n, parent, kind, want, node, k, pos, rel, depth, results>>

Init ==
  /\ IF Shape = "deep"
     THEN \* nodes 1..MaxN-2 form a chain of Pages nodes, the last two nodes are leaves hung anywhere
          /\ n = MaxN
          /\ \E a, b \in 1..(MaxN - 2) :
               parent = [i \in 1..MaxN |-> IF i = 1 THEN 0 ELSE IF i <= MaxN - 2 THEN i - 1
                                           ELSE IF i = MaxN - 1 THEN a ELSE b]
          /\ kind = [i \in 1..MaxN |-> IF i <= MaxN - 2 THEN "Pages" ELSE "Page"]
     ELSE /\ n = 1
          /\ parent = [i \in 1..MaxN |-> 0]
          /\ kind = [i \in 1..MaxN |-> IF i = 1 THEN "Pages" ELSE "none"]
  /\ mset = {} /\ cset = {} /\ cnt = [i \in 1..MaxN |-> 0] /\ lv = <<>>
  /\ want = 0 /\ node = 1 /\ k = 1 /\ pos = 0 /\ rel = 0 /\ depth = Budget
  /\ phase = "build"
  /\ results = <<>>

Next == AddNode \/ Place \/ Visit

Spec == Init /\ [][Next]_vars

-----------------------------------------------------------------------------
(* Properties (C07)                                                         *)

Ideal(i) == LET l == IdealLeaf(i) IN
            IF l = 0 THEN [leaf |-> 0, m |-> 0, c |-> 0, r |-> 0] ELSE [leaf |-> l] @@ IdealAttrs(l)

\* every finished look-up agrees with the Prop definitions
LookupsCorrect == \A j \in 1..Len(results) : results[j] = Ideal(j - 1)

\* at the end all indices 0..count+2 were looked up
Complete == phase = "done" => Len(results) = Len(lv) + 3

\* the descent never runs out of budget on these (shallow) trees unless a deviation is active
PosBounded == phase # "build" => pos <= Len(lv)
=============================================================================
