\* as built: all graphs over 2 objects x roots x resources of 3 categories (emission)
CONSTANTS
  N = 2
  Categories = {"font", "xobject", "colorspace"}
  Dev <- AsBuilt
INIT Init
NEXT Next
INVARIANTS ContentEqual Terminates SingleCopy Closure Emit
CHECK_DEADLOCK FALSE
