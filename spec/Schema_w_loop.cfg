SPECIFICATION Spec
CONSTANTS
  Fragments <- MCFragments
  Values <- MCValues
  Dev = {"unchecked:loop"}
  MaxWork = 600
  NumK = 1
  Cross = FALSE
  Uniform = {}
  Only = {"type0font"}
INVARIANTS TypeOK StackBounded OutcomeOk WorkBounded

CHECK_DEADLOCK FALSE
