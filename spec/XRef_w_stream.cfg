\* witness: the deviation "stream_entry_overwritten" must be refuted (NewestWins / AllVisited violated)
CONSTANTS
  NObj = 2
  MaxSections = 2
  AllowRestate = FALSE
  Dev = {"stream_entry_overwritten"}
INIT Init
NEXT Next
INVARIANTS NewestWins AllVisited
CHECK_DEADLOCK FALSE
