------------------------------ MODULE MC_Crypt ------------------------------
EXTENDS Crypt, Json
CaseJson == [variant |-> variant, pwrel |-> pwrel, encMeta |-> encMeta, place |-> place, len |-> len, idc |-> idc, kind |-> kind, root |-> root, dform |-> dform,
             ideal |-> Ideal, mech |-> answer]
Emit == phase = "done" => PrintT(<<"CASE", ToJson(CaseJson)>>)
=============================================================================
