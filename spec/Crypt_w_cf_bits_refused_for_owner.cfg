\* witness
CONSTANTS
  Variants = {"R2-RC4-40", "R3-RC4-56", "R3-RC4-128", "R4-RC4-128", "R4-AESV2", "R5-AESV3", "R6-AESV3"}
  PwRelations = {"user", "owner", "wrong", "empty-user"}
  Places = {"string-in-object", "string-bare", "string-in-array", "string-nested", "stream", "metadata-stream", "encrypt-dict-indirect", "encrypt-dict-direct", "string-in-objstm", "xref-stream"}
  LenClasses = {"empty", "short", "block", "long"}
  IdClasses = {"low", "gen", "high"}
  DictForms = {"plain", "cf-length-bits", "cf-no-length", "no-length", "uo-padded", "strf-identity"}
  Roots = {"object", "objstm"}
  Dev = {"cf_bits_refused_for_owner"}
INIT Init
NEXT Next
INVARIANTS PlaintextOrRejected
CHECK_DEADLOCK FALSE
