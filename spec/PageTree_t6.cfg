\* thorough: all ordered trees <= 6 nodes with attribute placements
CONSTANTS
  MaxN = 6
  Shape = "all"
  MaxM = 2
  MaxC = 1
  Budget = 16
  Dev = {}
INIT Init
NEXT Next
INVARIANTS LookupsCorrect Complete PosBounded Emit
CHECK_DEADLOCK FALSE
