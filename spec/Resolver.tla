------------------------------ MODULE Resolver ------------------------------
(***************************************************************************)
(* Concurrent typed loads: pdf/src/file.rs StorageResolver::get            *)
(* (recursion guard `chain` around each load; compute-once cache behind    *)
(* the Cache trait, protocol of globalcache::sync::SyncCache::get:         *)
(* in-process marker + condvar).                                           *)
(*                                                                         *)
(* One action per critical section.  A thread's step runs from one yield   *)
(* point of the instrumented code to the next (guard? -> cache? ->         *)
(* publish? -> exit?, or "blocked" inside the cache), which is exactly the *)
(* granularity at which the harness' baton scheduler replays schedules.    *)
(*                                                                         *)
(* Prop: every load returns what a lone thread would get (SeqAnswer);      *)
(* no panic / poisoned lock; no deadlock; termination.                     *)
(***************************************************************************)
EXTENDS Naturals, Sequences, FiniteSets, TLC

CONSTANTS Threads,         \* 1..NT
          Keys,            \* object numbers
          DepsOpts,        \* set of dependency graphs  Keys -> Seq(Keys): what a typed load of a key loads eagerly
          LoadsOpts,       \* set of workloads  Threads -> Seq(Keys): top-level loads of each thread, in order
          SharedOpts,      \* subset of BOOLEAN: one resolver shared by all threads / one per thread
          CacheOpts,       \* subset of BOOLEAN: object cache on / off (the cache always belongs to the document)
          MaxRepeats,      \* bound on the loads of one outermost load that repeat a key it has loaded already (file.rs count_load;
                           \* 2^16 in the library, lowered through the verification hook for the replay)
          DirectKeys,      \* keys that are reached as a *direct* typed entry given by reference (Resolve::with_loading:
                           \* on the guard's list while being decoded, never through the cache); leaves, never loaded top-level
          Dev

VARIABLES conf,      \* configuration [deps, loads, shared, cacheOn], chosen in Init and never changed
          stack,     \* Threads -> Seq of frames [key, pc, i, res]
          nxt,       \* Threads -> number of top-level loads started
          chain,     \* chain id -> Seq(Keys)
          cache,     \* Keys -> "absent" | "inproc" | "ok" | "err"
          results,   \* Threads -> Seq of "ok" | "err"
          panicked,  \* a thread panicked (the chain mutex is poisoned from then on)
          seenk,     \* Threads -> set of keys loaded since the thread's current outermost load began
          reps,      \* Threads -> number of loads that repeated one of them
          gorder,    \* order of the entries <<t, k>> in the one list of a shared resolver (only kept for the deviation
                     \* "loading_pops_last", <<>> otherwise: the per-thread view `chain` is all the design needs)
          sched      \* history: sequence of thread ids (hidden by VIEW in cover mode)

mvars == <<conf, stack, nxt, chain, cache, results, panicked, gorder, seenk, reps>>

Deps == conf.deps
Loads == conf.loads
SharedResolver == conf.shared
CacheOn == conf.cacheOn
vars  == <<mvars, sched>>

-----------------------------------------------------------------------------
(* Prop: the answer of a lone thread                                         *)

RECURSIVE ReachesCycle(_, _)
ReachesCycle(k, path) == IF k \in path THEN TRUE
                         ELSE \E j \in 1..Len(Deps[k]) : ReachesCycle(Deps[k][j], path \cup {k})
SeqAnswer(k) == IF ReachesCycle(k, {}) THEN "err" ELSE "ok"

-----------------------------------------------------------------------------
(* helpers                                                                   *)

ChainIds == Threads \cup {0}
ChainOf(t) == IF "shared_chain" \in Dev /\ SharedResolver THEN 0 ELSE t
NewFrame(k) == [key |-> k, pc |-> IF k \in DirectKeys THEN "lguard" ELSE "guard", i |-> 0, res |-> "none", rc |-> FALSE]   \* rc: recomputing after a cached error
\* file.rs count_load: is this load the outermost one of its thread?  (deviation "budget_reset_needs_idle_resolver": only if no
\* thread at all has a load in progress on the resolver - the counters of a thread then run on across its top-level loads
\* while another thread is busy)
Outermost(t) == IF "budget_reset_needs_idle_resolver" \in Dev /\ SharedResolver
                THEN \A u \in Threads : chain[ChainOf(u)] = <<>>
                ELSE chain[ChainOf(t)] = <<>>
SeenAfter(t, k) == IF Outermost(t) THEN {k} ELSE seenk[t] \cup {k}
RepsAfter(t, k) == IF Outermost(t) THEN 0 ELSE IF k \in seenk[t] THEN reps[t] + 1 ELSE reps[t]
\* the shared list in its real order (deviation only)
TrackOrder == "loading_pops_last" \in Dev /\ SharedResolver
RemoveLast(s, x) == LET J == {j \in 1..Len(s) : s[j] = x} IN
                    IF J = {} THEN s
                    ELSE LET m == CHOOSE j \in J : \A j2 \in J : j2 <= j IN SubSeq(s, 1, m - 1) \o SubSeq(s, m + 1, Len(s))
Top(t) == stack[t][Len(stack[t])]
SetTop(t, f) == [stack EXCEPT ![t] = [@ EXCEPT ![Len(@)] = f]]
AfterCompute(f) == IF CacheOn /\ ~f.rc THEN "publish" ELSE "exit"
InSeq(x, s) == \E j \in 1..Len(s) : s[j] = x

\* thread that marked key k in the cache and has not published yet (0 if none)
Owner(k) == IF \E u \in Threads : \E j \in 1..Len(stack[u]) : stack[u][j].key = k /\ stack[u][j].pc \in {"compute", "publish"} /\ ~stack[u][j].rc
            THEN CHOOSE u \in Threads : \E j \in 1..Len(stack[u]) : stack[u][j].key = k /\ stack[u][j].pc \in {"compute", "publish"} /\ ~stack[u][j].rc
            ELSE 0

RECURSIVE WaitReaches(_, _, _)
\* following the wait-for graph from thread u (bounded by fuel), do we arrive at thread t?
WaitReaches(u, t, fuel) ==
  IF u = 0 \/ fuel = 0 THEN FALSE
  ELSE IF u = t THEN TRUE
  ELSE IF stack[u] # <<>> /\ Top(u).pc = "blocked" THEN WaitReaches(Owner(Top(u).key), t, fuel - 1)
  ELSE FALSE

\* the frame on top of t's stack returned r: hand the result to the parent frame or finish the top-level load.
\* Everything up to the thread's next yield point happens in the same step.
ReturnStack(t, st, r) ==
  LET n == Len(st) IN
  IF n = 1
  THEN IF nxt[t] < Len(Loads[t]) THEN <<NewFrame(Loads[t][nxt[t] + 1])>> ELSE <<>>
  ELSE LET p  == st[n - 1]
           p2 == IF r = "err" THEN [p EXCEPT !.res = "err", !.pc = AfterCompute(p)]
                 ELSE IF p.i < Len(Deps[p.key]) THEN [p EXCEPT !.i = p.i + 1]
                 ELSE [p EXCEPT !.res = "ok", !.pc = AfterCompute(p)]
           base == SubSeq(st, 1, n - 2) \o <<p2>>
       IN IF r # "err" /\ p.i < Len(Deps[p.key]) THEN Append(base, NewFrame(Deps[p.key][p.i + 1])) ELSE base

Return(t, r) ==
  /\ stack' = [stack EXCEPT ![t] = ReturnStack(t, stack[t], r)]
  /\ IF Len(stack[t]) = 1
     THEN /\ results' = [results EXCEPT ![t] = Append(@, r)]
          /\ nxt' = IF nxt[t] < Len(Loads[t]) THEN [nxt EXCEPT ![t] = @ + 1] ELSE nxt
     ELSE UNCHANGED <<results, nxt>>

\* the closure passed to the cache starts running: resolve + from_primitive, up to the first nested load
StartCompute(t) ==
  LET f == Top(t) IN
  IF Deps[f.key] = <<>>
  THEN stack' = SetTop(t, [f EXCEPT !.res = "ok", !.pc = AfterCompute(f)])
  ELSE stack' = [stack EXCEPT ![t] = Append([@ EXCEPT ![Len(@)] = [f EXCEPT !.pc = "compute", !.i = 1]],
                                            NewFrame(Deps[f.key][1]))]

\* a cached error that this call did not compute is not trusted (it may stem from another type):
\* the load is repeated without the cache, still inside this call's guard
Recompute(t) ==
  LET f == [Top(t) EXCEPT !.rc = TRUE] IN
  IF Deps[f.key] = <<>>
  THEN stack' = SetTop(t, [f EXCEPT !.res = "ok", !.pc = "exit"])
  ELSE stack' = [stack EXCEPT ![t] = Append([@ EXCEPT ![Len(@)] = [f EXCEPT !.pc = "compute", !.i = 1]],
                                            NewFrame(Deps[f.key][1]))]

-----------------------------------------------------------------------------
(* the critical sections                                                     *)

\* file.rs get: lock chain; contains => Err("Recursive reference"); else push
GuardEnter(t) ==
  /\ Top(t).pc = "guard"
  /\ LET k == Top(t).key  c == ChainOf(t) IN
     IF InSeq(k, chain[c])
     THEN /\ Return(t, "err")
          /\ UNCHANGED <<chain, cache, panicked, gorder, seenk, reps>>
     ELSE /\ seenk' = [seenk EXCEPT ![t] = SeenAfter(t, k)]
          /\ reps' = [reps EXCEPT ![t] = RepsAfter(t, k)]
          /\ IF RepsAfter(t, k) > MaxRepeats
             THEN \* the bound on repeated loads: an error, nothing is pushed
                  /\ Return(t, "err")
                  /\ UNCHANGED <<chain, cache, panicked, gorder>>
             ELSE /\ chain' = [chain EXCEPT ![c] = Append(@, k)]
                  /\ gorder' = IF TrackOrder THEN Append(gorder, <<t, k>>) ELSE gorder
                  /\ stack' = SetTop(t, [Top(t) EXCEPT !.pc = "cache"])
                  /\ UNCHANGED <<nxt, cache, results, panicked>>

\* Cache::get_or_compute under the cache mutex: hit / wait / mark in-process and compute
CacheEnter(t) ==
  /\ Top(t).pc = "cache"
  /\ LET k == Top(t).key IN
     IF ~CacheOn
     THEN StartCompute(t) /\ UNCHANGED <<nxt, chain, cache, results, panicked, gorder, seenk, reps>>
     ELSE CASE cache[k] = "absent" ->
                 /\ cache' = [cache EXCEPT ![k] = "inproc"]
                 /\ StartCompute(t)
                 /\ UNCHANGED <<nxt, chain, results, panicked, gorder, seenk, reps>>
            [] cache[k] = "ok" ->
                 /\ stack' = SetTop(t, [Top(t) EXCEPT !.res = "ok", !.pc = "exit"])
                 /\ UNCHANGED <<nxt, chain, cache, results, panicked, gorder, seenk, reps>>
            [] cache[k] = "err" ->
                 /\ Recompute(t)
                 /\ UNCHANGED <<nxt, chain, cache, results, panicked, gorder, seenk, reps>>
            [] cache[k] = "inproc" ->
                 /\ IF "cache_wait_unbounded" \notin Dev /\ WaitReaches(Owner(k), t, Cardinality(Threads) + 1)
                    THEN \* intended design: a wait that would close a cycle of waiting threads is refused
                         stack' = SetTop(t, [Top(t) EXCEPT !.res = "err", !.pc = "exit"])
                    ELSE stack' = SetTop(t, [Top(t) EXCEPT !.pc = "blocked"])     \* waits on the condvar
                 /\ UNCHANGED <<nxt, chain, cache, results, panicked, gorder, seenk, reps>>

\* the waiting thread is notified and finds the computed value
Wake(t) ==
  /\ Top(t).pc = "blocked"
  /\ cache[Top(t).key] \in {"ok", "err"}
  /\ IF cache[Top(t).key] = "ok"
     THEN stack' = SetTop(t, [Top(t) EXCEPT !.res = "ok", !.pc = "exit"])
     ELSE Recompute(t)
  /\ UNCHANGED <<nxt, chain, cache, results, panicked, gorder, seenk, reps>>

\* store the computed value, notify_all
CachePublish(t) ==
  /\ Top(t).pc = "publish"
  /\ cache' = [cache EXCEPT ![Top(t).key] = Top(t).res]
  /\ stack' = SetTop(t, [Top(t) EXCEPT !.pc = "exit"])
  /\ UNCHANGED <<nxt, chain, results, panicked, gorder, seenk, reps>>

\* drop guard: lock chain; remove this load's entry
GuardExit(t) ==
  /\ Top(t).pc = "exit"
  /\ LET k == Top(t).key  c == ChainOf(t)  ch == chain[c] IN
     /\ chain' = [chain EXCEPT ![c] = RemoveLast(ch, k)]      \* rposition + remove of this thread's own entry: never a panic
     /\ UNCHANGED panicked
     /\ gorder' = IF TrackOrder THEN RemoveLast(gorder, <<t, k>>) ELSE gorder
     /\ Return(t, Top(t).res)
     /\ UNCHANGED <<cache, seenk, reps>>

\* file.rs with_loading (a direct typed entry given by reference is decoded): lock the list; contains => Err("Recursive
\* reference"); else push.  The decoding of the (leaf) value follows in the same step, up to the yield point before the exit.
LoadEnter(t) ==
  /\ Top(t).pc = "lguard"
  /\ LET k == Top(t).key  c == ChainOf(t) IN
     IF InSeq(k, chain[c])
     THEN /\ Return(t, "err")
          /\ UNCHANGED <<chain, cache, panicked, gorder, seenk, reps>>
     ELSE /\ seenk' = [seenk EXCEPT ![t] = SeenAfter(t, k)]
          /\ reps' = [reps EXCEPT ![t] = RepsAfter(t, k)]
          /\ IF RepsAfter(t, k) > MaxRepeats
             THEN /\ Return(t, "err")
                  /\ UNCHANGED <<chain, cache, panicked, gorder>>
             ELSE /\ chain' = [chain EXCEPT ![c] = Append(@, k)]
                  /\ gorder' = IF TrackOrder THEN Append(gorder, <<t, k>>) ELSE gorder
                  /\ stack' = SetTop(t, [Top(t) EXCEPT !.res = "ok", !.pc = "lexit"])
                  /\ UNCHANGED <<nxt, cache, results, panicked>>

\* with_loading's exit: lock the list; remove this thread's own entry for the key
\* (deviation "loading_pops_last": pop whatever entry is last in the shared list)
LoadExit(t) ==
  /\ Top(t).pc = "lexit"
  /\ LET k == Top(t).key  c == ChainOf(t) IN
     /\ IF TrackOrder /\ gorder # <<>>
        THEN LET e == gorder[Len(gorder)] IN
             /\ gorder' = SubSeq(gorder, 1, Len(gorder) - 1)
             /\ chain' = [chain EXCEPT ![e[1]] = RemoveLast(@, e[2])]
        ELSE /\ chain' = [chain EXCEPT ![c] = RemoveLast(@, k)]
             /\ UNCHANGED gorder
     /\ Return(t, Top(t).res)
     /\ UNCHANGED <<cache, panicked, seenk, reps>>

Enabled(t) ==
  /\ stack[t] # <<>>
  /\ ~panicked
  /\ Top(t).pc = "blocked" => cache[Top(t).key] \in {"ok", "err"}

Act(t) ==
  /\ stack[t] # <<>>
  /\ ~panicked
  /\ (GuardEnter(t) \/ CacheEnter(t) \/ Wake(t) \/ CachePublish(t) \/ GuardExit(t) \/ LoadEnter(t) \/ LoadExit(t))
  /\ UNCHANGED conf

Step(t)   == Act(t) /\ sched' = Append(sched, t)
StepNH(t) == Act(t) /\ UNCHANGED sched          \* without the history variable (liveness checking)

AllDone == \A t \in Threads : stack[t] = <<>>
Stuck   == ~AllDone /\ \A t \in Threads : ~Enabled(t)

Terminated == (AllDone \/ panicked) /\ UNCHANGED vars

\* the initial state for configuration c (also used by the trace specification, which takes c from the recorded run)
StartStack(c) == [t \in Threads |-> IF c.loads[t] = <<>> THEN <<>> ELSE <<NewFrame(c.loads[t][1])>>]
StartNxt(c)   == [t \in Threads |-> IF c.loads[t] = <<>> THEN 0 ELSE 1]
Init ==
  /\ conf \in [deps : DepsOpts, loads : LoadsOpts, shared : SharedOpts, cacheOn : CacheOpts]
  /\ stack = StartStack(conf)
  /\ nxt = StartNxt(conf)
  /\ chain = [c \in ChainIds |-> <<>>]
  /\ cache = [k \in Keys |-> "absent"]
  /\ results = [t \in Threads |-> <<>>]
  /\ panicked = FALSE
  /\ gorder = <<>>
  /\ seenk = [t \in Threads |-> {}] /\ reps = [t \in Threads |-> 0]
  /\ sched = <<>>

Pre(t) == stack[t] # <<>> /\ ~panicked
Hist(t) == sched' = Append(sched, t) /\ UNCHANGED conf
DoGuardEnter(t)   == Pre(t) /\ GuardEnter(t)   /\ Hist(t)
DoCacheEnter(t)   == Pre(t) /\ CacheEnter(t)   /\ Hist(t)
DoWake(t)         == Pre(t) /\ Wake(t)         /\ Hist(t)
DoCachePublish(t) == Pre(t) /\ CachePublish(t) /\ Hist(t)
DoGuardExit(t)    == Pre(t) /\ GuardExit(t)    /\ Hist(t)
DoLoadEnter(t)    == Pre(t) /\ LoadEnter(t)    /\ Hist(t)
DoLoadExit(t)     == Pre(t) /\ LoadExit(t)     /\ Hist(t)

\* same relation as \E t : Step(t), written as one disjunct per critical section (per-action coverage)
Next == \/ \E t \in Threads : DoGuardEnter(t)
        \/ \E t \in Threads : DoCacheEnter(t)
        \/ \E t \in Threads : DoWake(t)
        \/ \E t \in Threads : DoCachePublish(t)
        \/ \E t \in Threads : DoGuardExit(t)
        \/ \E t \in Threads : DoLoadEnter(t)
        \/ \E t \in Threads : DoLoadExit(t)
        \/ Terminated

Spec == Init /\ [][Next]_vars
NextNH == (\E t \in Threads : StepNH(t)) \/ Terminated
FairSpec == Init /\ [][NextNH]_vars /\ \A t \in Threads : WF_vars(StepNH(t))

-----------------------------------------------------------------------------
(* Properties (C13)                                                          *)

ASSUME \A d \in DepsOpts : \A k \in DirectKeys : k \in DOMAIN d => d[k] = <<>>          \* direct keys are leaves
ASSUME \A w \in LoadsOpts : \A t \in DOMAIN w : \A j \in 1..Len(w[t]) : w[t][j] \notin DirectKeys

TypeOK ==
  /\ \A t \in Threads : \A j \in 1..Len(stack[t]) :
        stack[t][j].pc \in {"guard", "cache", "compute", "publish", "exit", "blocked", "lguard", "lexit"}
  /\ \A k \in Keys : cache[k] \in {"absent", "inproc", "ok", "err"}

\* every finished load returned what it would return if it ran alone
SequentialAnswers ==
  \A t \in Threads : \A j \in 1..Len(results[t]) : results[t][j] = SeqAnswer(Loads[t][j])

NoPanic == ~panicked

\* (intended design) a thread's guard holds exactly the keys of its frames that passed the guard
ChainMatchesStack ==
  \A t \in Threads :
     LET passed == SelectSeq(stack[t], LAMBDA f : f.pc \notin {"guard", "lguard"}) IN
     "shared_chain" \notin Dev => chain[t] = [j \in 1..Len(passed) |-> passed[j].key]

\* a key is marked in-process iff exactly one thread is computing it
InProcHasOwner == IF CacheOn THEN \A k \in Keys : cache[k] = "inproc" <=> Owner(k) # 0
                  ELSE \A k \in Keys : cache[k] = "absent"

\* deadlock freedom is TLC's deadlock check (Terminated keeps finished runs stuttering);
\* as a state predicate for the as-built witness:
NoStuck == ~Stuck

Termination == <>(AllDone \/ panicked)

View == mvars
=============================================================================
