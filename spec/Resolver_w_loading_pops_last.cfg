\* witness: an exit of with_loading that pops the last entry of the shared list must be refuted
CONSTANTS
  Threads <- T2
  Keys <- K4
  DirectKeys <- D4
  MaxRepeats = 2
  DepsOpts <- DirectGraphs
  LoadsOpts <- W_dir
  SharedOpts = {TRUE}
  CacheOpts = {TRUE, FALSE}
  Dev = {"loading_pops_last"}
INIT Init
NEXT Next
VIEW View
INVARIANTS SequentialAnswers NoPanic
CHECK_DEADLOCK TRUE
