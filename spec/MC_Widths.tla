----------------------------- MODULE MC_Widths -----------------------------
EXTENDS Widths, Json
GroupJson(g) == IF g.k = "list" THEN [k |-> "list", c |-> g.c, d |-> 0, w |-> 0, ws |-> g.ws]
                ELSE [k |-> "range", c |-> g.c, d |-> g.d, w |-> g.w, ws |-> <<>>]
CaseJson == [arr |-> [i \in 1..Len(arr) |-> GroupJson(arr[i])], dflt |-> Default,
             ideal |-> [c \in 1..(MaxCode + 3) |-> IF (c - 1) \in Codes /\ assigned[c - 1] # 0 THEN assigned[c - 1] ELSE Default],
             mech  |-> [c \in 1..(MaxCode + 3) |-> Get(c - 1)]]
Emit == Done => PrintT(<<"CASE", ToJson(CaseJson)>>)
\* all five growth cases must be exercised by the generated family (checked via -coverage on these)
=============================================================================
