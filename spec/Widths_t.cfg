\* thorough: <= 3 groups of length <= 3 over codes 0..7
CONSTANTS
  MaxCode = 7
  MaxGroups = 3
  MaxLen = 3
  Default = 99
  Dev = {}
INIT Init
NEXT Next
INVARIANTS Represents Emit
CHECK_DEADLOCK FALSE
