\* witness
CONSTANTS
  StrClasses = {"print", "lparen", "rparen", "bslash", "cr", "lf", "nul", "high"}
  NameClasses = {"reg", "space", "hash", "delim", "high"}
  NumClasses = {"int", "intmin", "intlike-real", "bigreal", "frac", "tiny", "negzero"}
  Placements = {"objbody", "dictvalue", "arrayelem", "operand"}
  Dev = {"cr_written_raw"}
INIT Init
NEXT Next
INVARIANTS StringsRoundTrip
CHECK_DEADLOCK FALSE
