\* hex and ascii85 structure models only (C16 reads them in the encode direction)
CONSTANTS
  Parts = {"hex", "a85"}
  MaxHex = 5
  MaxA85 = 6
  MaxRuns = 3
  Samples = {0, 1, 128, 255}
  RowLen = 3
  Dev = {}
INIT Init
NEXT Next
INVARIANTS HexOk A85Ok RLOk PredOk ChainOk
CHECK_DEADLOCK FALSE
