------------------------------- MODULE Derive -------------------------------
(***************************************************************************)
(* The derive-generated dictionary readers and writers                     *)
(* (pdf_derive/src/lib.rs impl_object_for_struct / impl_objectwrite_for_   *)
(* struct) and the container readers they rely on (pdf/src/object/mod.rs   *)
(* Option, Vec one-or-many, defaults), on an abstract model that has one   *)
(* field of every kind:                                                    *)
(*   R  required   O  Option   D  default   V  Vec (one-or-many)           *)
(*   (R and O also with an empty container as value: "re", "oe")           *)
(*   X  catch-all (`other`)   tag: /Type "T" (required) or "T?" (optional) *)
(* A dictionary is a function from keys to abstract values ("-" = absent). *)
(* Prop A: W(R(W(R(d)))) = W(R(d));  Prop B (catch-all): W(R(d)) keeps     *)
(* every entry of d up to omitted defaults and one-or-many normalisation.  *)
(***************************************************************************)
EXTENDS Naturals, Sequences, FiniteSets, TLC

CONSTANTS TagRequired,   \* BOOLEAN: Type = "T" vs "T?"
          HasOther,      \* BOOLEAN: the model has a catch-all field
          Dev

Keys == {"Type", "R", "O", "D", "V", "U"}      \* U = an entry the model does not know
Absent == "-"

VARIABLES d,        \* input dictionary
          phase,    \* "read1" | "write1" | "read2" | "write2" | "done"
          x, w1, x2, w2, err

vars == <<d, phase, x, w1, x2, w2, err>>

Inputs ==
  [Type : {"T", Absent, "Wrong"}, R : {"r", "re"}, O : {Absent, "o", "oe"}, D : {Absent, "dflt", "d"}, V : {Absent, "single", "arr1", "arr2"}, U : {Absent, "u"}]

\* reader: dictionary -> typed value (or error)
Read(dict) ==
  IF dict.Type = "Wrong" \/ (dict.Type = Absent /\ TagRequired) \/ dict.R = Absent THEN [ok |-> FALSE]
  ELSE [ok |-> TRUE, r |-> dict.R, o |-> dict.O,
        dv |-> IF dict.D = Absent THEN "dflt" ELSE dict.D,                      \* absent -> default value
        v  |-> IF dict.V = "single" THEN "arr1" ELSE dict.V,                      \* one-or-many: a single value is a one-element array
        other |-> IF HasOther THEN dict.U ELSE Absent]                            \* remainder goes to the catch-all, else dropped

\* writer: typed value -> dictionary
Write(val) ==
  [Type |-> "T",                                                                  \* the tag is always written
   \* "re" / "oe": a value that is an EMPTY container (empty dictionary, string, array): it is a value, not an absent entry
   R |-> IF "empty_written_as_null" \in Dev /\ val.r = "re" THEN Absent ELSE val.r,
   O |-> IF "empty_written_as_null" \in Dev /\ val.o = "oe" THEN Absent ELSE val.o,
   D |-> IF "default_not_written" \in Dev /\ val.dv = "dflt" THEN Absent ELSE val.dv,
   V |-> val.v,                                                                   \* an empty Vec is written as an empty array? no: Absent stays Absent (Null is skipped)
   U |-> IF "writer_drops_other" \in Dev THEN Absent ELSE val.other]

Step ==
  \/ /\ phase = "read1" /\ x' = Read(d)
     /\ phase' = (IF x'.ok THEN "write1" ELSE "done") /\ err' = ~x'.ok
     /\ UNCHANGED <<d, w1, x2, w2>>
  \/ /\ phase = "write1" /\ w1' = Write(x) /\ phase' = "read2" /\ UNCHANGED <<d, x, x2, w2, err>>
  \/ /\ phase = "read2" /\ x2' = Read(w1)
     /\ phase' = (IF x2'.ok THEN "write2" ELSE "done") /\ err' = ~x2'.ok
     /\ UNCHANGED <<d, x, w1, w2>>
  \/ /\ phase = "write2" /\ w2' = Write(x2) /\ phase' = "done" /\ UNCHANGED <<d, x, w1, x2, err>>

None == [ok |-> FALSE]
NoDict == [Type |-> Absent, R |-> Absent, O |-> Absent, D |-> Absent, V |-> Absent, U |-> Absent]
Init == d \in Inputs /\ phase = "read1" /\ x = None /\ w1 = NoDict /\ x2 = None /\ w2 = NoDict /\ err = FALSE
Next == Step
Spec == Init /\ [][Next]_vars

-----------------------------------------------------------------------------
\* entries equal up to omitted defaults and one-or-many normalisation
Same(k, a, b) == \/ a = b
                 \/ (k = "D" /\ a = Absent /\ b = "dflt")
                 \/ (k = "V" /\ a = "single" /\ b = "arr1")
                 \/ (k = "Type" /\ a = Absent /\ b = "T")
\* C15 A: a written value reads back to a value that writes to the identical form
Idempotent == (phase = "done" /\ ~err) => w2 = w1
\* what was written can always be read again
Rereadable == phase = "done" /\ x.ok => x2.ok
\* C15 B: reading and writing back preserves every entry of the input (models that keep unrecognised entries)
Preserves == (phase = "done" /\ ~err /\ HasOther) => \A k \in Keys : Same(k, d[k], w1[k])
=============================================================================
