\* as built: ALL call sequences of length 3 x 4 cache configurations
CONSTANTS
  Objs = {1, 2, 3, 8, 9, 10}
  Types = {"P", "D", "VM", "VR"}
  TypesOf <- MC_TypesOf
  Loads <- MC_Loads
  Partner <- MC_Partner
  TolerantOpts = {FALSE}
  Streams = {4}
  MaxCalls = 3
  ObjCacheOpts = {TRUE, FALSE}
  StmCacheOpts = {TRUE, FALSE}
  Dev <- AsBuilt
INIT Init
NEXT Next
INVARIANTS Emit
CHECK_DEADLOCK FALSE
