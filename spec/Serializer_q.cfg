\* all value classes x 4 placements
CONSTANTS
  StrClasses = {"print", "lparen", "rparen", "bslash", "cr", "lf", "nul", "high"}
  NameClasses = {"reg", "space", "hash", "delim", "high"}
  NumClasses = {"int", "intmin", "intlike-real", "bigreal", "frac", "tiny", "negzero"}
  Placements = {"objbody", "dictvalue", "arrayelem", "operand"}
  Dev = {}
INIT Init
NEXT Next
INVARIANTS StringsRoundTrip NamesRoundTrip NumbersRoundTrip PlacementsOk Emit
CHECK_DEADLOCK FALSE
