\* intended design on the /Parent cycle: values computed inside another load are not cached
CONSTANTS
  Objs = {1, 30, 31}
  Types = {"P", "D", "VM", "VR"}
  TypesOf <- MC_TypesOfC
  Loads <- MC_LoadsC
  Partner <- MC_Partner
  TolerantOpts = {TRUE, FALSE}
  Streams = {}
  MaxCalls = 5
  ObjCacheOpts = {TRUE, FALSE}
  StmCacheOpts = {FALSE}
  Dev = {}
INIT Init
NEXT Next
VIEW View
INVARIANTS Invisible CacheTruthful
CHECK_DEADLOCK FALSE
