-------------------------------- MODULE Kdf --------------------------------
(***************************************************************************)
(* C06 - the iteration rule of the revision 6 password hash (ISO 32000-2   *)
(* 7.6.4.3.4, Algorithm 2.B; pdf/src/crypt.rs Decoder::revision_6_kdf).    *)
(*                                                                         *)
(* The hash runs rounds of AES-128-CBC + SHA-256/384/512 (uninterpreted    *)
(* here).  After round i (i = number of rounds done) it stops iff          *)
(* i >= 64 and the last byte of the round's ciphertext is <= i - 32.       *)
(* The model abstracts that byte to its relation to i - 32 ("lt", "eq",    *)
(* "gt") and runs the standard's rule next to the library's loop           *)
(* condition; every pattern of relations up to the stop is a case for the  *)
(* replay, which searches passwords whose reference hash follows exactly   *)
(* that pattern, for each of the four places the hash is used.             *)
(***************************************************************************)
EXTENDS Naturals, Sequences, TLC

CONSTANTS Roles,      \* "user-validation" "user-key" "owner-validation" "owner-key"
          MaxExtra,   \* rounds explored from round 64 on
          Dev

VARIABLES role, i, pattern, refStop, libStop
vars == <<role, i, pattern, refStop, libStop>>

Init == role \in Roles /\ i = 63 /\ pattern = <<>> /\ refStop = 0 /\ libStop = 0

\* the standard: stop when the byte is <= i - 32
RefStops(c) == c \in {"lt", "eq"}
\* crypt.rs: `while i < 64 || i < last + 32` continues; i.e. it stops when last <= i - 32
LibStops(c) == IF "kdf_boundary_excluded" \in Dev THEN c = "lt" ELSE c \in {"lt", "eq"}

Round ==
  /\ Len(pattern) < MaxExtra /\ (refStop = 0 \/ libStop = 0)
  /\ \E c \in {"lt", "eq", "gt"} :
       /\ i' = i + 1
       /\ pattern' = Append(pattern, c)
       /\ refStop' = IF refStop = 0 /\ RefStops(c) THEN i + 1 ELSE refStop
       /\ libStop' = IF libStop = 0 /\ LibStops(c) THEN i + 1 ELSE libStop
  /\ UNCHANGED role

Next == Round
Spec == Init /\ [][Next]_vars

\* the library runs exactly as many rounds as the standard says (else the hash differs: a valid password is
\* rejected or a wrong file key is unwrapped)
SameRounds == refStop = libStop
=============================================================================
