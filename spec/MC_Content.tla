----------------------------- MODULE MC_Content -----------------------------
EXTENDS Content, Json

\* operations whose serialisation depends on their neighbours or on the current point
MergeAlphabet ==
  { Op("Close", <<>>), Op("Stroke", <<>>), Op("FillAndStroke", <<1>>), Op("FillAndStroke", <<2>>),
    Op("MoveTo", <<2>>), Op("LineTo", <<3>>),
    Op("CurveTo", <<1, 2, 3>>), Op("CurveTo", <<2, 3, 3>>), Op("CurveTo", <<3, 2, 2>>), Op("CurveTo", <<2, 2, 3>>), Op("CurveTo", <<3, 3, 2>>),
    Op("Rect", <<2, 3>>), Op("EndPath", <<>>),
    Op("WordSpacing", <<1>>), Op("CharSpacing", <<1>>), Op("TextNewline", <<>>), Op("TextDraw", <<1>>),
    Op("Leading", <<0 - 1>>), Op("Leading", <<0 - 2>>), Op("Leading", <<2>>), Op("Leading", <<7>>), Op("MoveText", <<1, 2>>),
    Op("Shade", <<1>>), Op("RenderingIntent", <<1>>), Op("Fill", <<1>>) }

\* operations that read or move the current point (the v / y curve forms depend on it)
PathAlphabet ==
  { Op("Close", <<>>), Op("Stroke", <<>>), Op("MoveTo", <<2>>), Op("LineTo", <<3>>),
    Op("CurveTo", <<1, 2, 3>>), Op("CurveTo", <<2, 3, 3>>), Op("CurveTo", <<3, 2, 2>>), Op("CurveTo", <<2, 2, 3>>), Op("CurveTo", <<3, 3, 2>>),
    Op("Rect", <<2, 3>>) }

\* one representative of every operation variant (operands are chosen by the harness)
FullAlphabet ==
  MergeAlphabet \cup
  { Op("BeginMarkedContent", <<1, 0>>), Op("BeginMarkedContent", <<1, 1>>), Op("EndMarkedContent", <<>>),
    Op("MarkedContentPoint", <<1, 0>>), Op("MarkedContentPoint", <<1, 1>>),
    Op("Fill", <<2>>), Op("Clip", <<1>>), Op("Clip", <<2>>), Op("Save", <<>>), Op("Restore", <<>>), Op("Transform", <<1>>),
    Op("LineWidth", <<1>>), Op("Dash", <<1>>), Op("LineJoin", <<1>>), Op("LineCap", <<2>>), Op("MiterLimit", <<1>>), Op("Flatness", <<1>>),
    Op("GraphicsState", <<1>>), Op("StrokeColor", <<1>>), Op("StrokeColor", <<2>>), Op("StrokeColor", <<3>>), Op("StrokeColor", <<4>>),
    Op("FillColor", <<1>>), Op("FillColor", <<2>>), Op("FillColor", <<3>>), Op("FillColor", <<4>>),
    Op("FillColorSpace", <<1>>), Op("StrokeColorSpace", <<1>>), Op("BeginText", <<>>), Op("EndText", <<>>),
    Op("TextScaling", <<1>>), Op("TextFont", <<1, 2>>), Op("TextRenderMode", <<2>>), Op("TextRise", <<1>>), Op("SetTextMatrix", <<1>>),
    Op("TextDrawAdjusted", <<1>>), Op("XObject", <<1>>) }

OpJson(o) == [op |-> o.op, a |-> o.a]
CaseJson == [ops |-> [k \in 1..Len(ops) |-> OpJson(ops[k])],
             toks |-> [k \in 1..Len(toks) |-> [kw |-> toks[k].kw, a |-> toks[k].a]],
             mech |-> [k \in 1..Len(out) |-> OpJson(out[k])]]
Emit == phase = "done" => PrintT(<<"CASE", ToJson(CaseJson)>>)
=============================================================================
