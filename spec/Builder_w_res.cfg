\* witness
CONSTANTS
  PageKinds <- PK_small
  MaxPages = 1
  Infos = {"none", "title", "title+dates"}
  Dev = {"page_without_resources_ref"}
INIT Init
NEXT Next
INVARIANTS PagesReadBack
CHECK_DEADLOCK FALSE
