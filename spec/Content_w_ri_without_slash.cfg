\* witness
CONSTANTS
  Alphabet <- MergeAlphabet
  MaxLen = 2
  Dev = {"ri_without_slash"}
INIT Init
NEXT Next
INVARIANTS RoundTrip
CHECK_DEADLOCK FALSE
