\* witness
CONSTANTS
  Alphabet <- MergeAlphabet
  MaxLen = 2
  Dev = {"td_uses_x"}
INIT Init
NEXT Next
INVARIANTS RoundTrip
CHECK_DEADLOCK FALSE
