\* C01 token layer: all byte strings of length <= 4 over 16 bytes chosen for the parser's branches
\* (SP LF % / < > [ ] ( ) \ 1 - . R #)
CONSTANTS
  Bytes = {32, 10, 37, 47, 60, 62, 91, 93, 40, 41, 92, 49, 45, 46, 82, 35}
  MaxLen = 4
  Dev = {}
INIT Init
NEXT Next
INVARIANTS SameTokens CursorSafe Emit
CHECK_DEADLOCK FALSE
