\* witness
CONSTANTS
  Alphabet <- PathAlphabet
  MaxLen = 4
  Dev = {"close_moves_current"}
INIT Init
NEXT Next
INVARIANTS RoundTrip
CHECK_DEADLOCK FALSE
