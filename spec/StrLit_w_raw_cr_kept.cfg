\* backslash ( ) 1 7 8 n x CR LF
CONSTANTS
  Bytes = {92, 40, 41, 49, 55, 56, 110, 120, 13, 10}
  MaxLen = 5
  Dev = {"raw_cr_kept"}
INIT Init
NEXT Next
INVARIANTS SameString EndInside
CHECK_DEADLOCK FALSE
