\* as built: ALL interleavings (quick subset: chain and cycle graphs, 2 workloads) of 2 threads x 1 load (schedule history is part of the state)
CONSTANTS
  Threads <- T2
  Keys <- K3
  DirectKeys = {}
  MaxRepeats = 2
  DepsOpts <- G_q
  LoadsOpts <- W2_1q
  SharedOpts = {TRUE, FALSE}
  CacheOpts = {TRUE, FALSE}
  Dev <- AsBuilt
INIT Init
NEXT Next
INVARIANT Emit
CHECK_DEADLOCK FALSE
