----------------------------- MODULE FileLayout -----------------------------
(***************************************************************************)
(* Byte layout of a file and every consumer of a file offset:              *)
(* pdf/src/backend.rs (header search in the first 1024 bytes, startxref,   *)
(* /Prev), pdf/src/file.rs (object offsets in resolve_ref, stream data     *)
(* ranges, the recovery scan's range).                                     *)
(*                                                                         *)
(* All offsets stored in a file are relative to the header; the header     *)
(* sits at absolute position h (h junk bytes precede it).  Each consumer   *)
(* is its own action that turns a stored offset into an absolute position; *)
(* the deviation `ignores_header(c)` makes consumer c forget to add h.     *)
(* Prop: every consumer arrives at the absolute position of the thing the  *)
(* offset denotes, for every h in 0..1019 - i.e. the reading is the same   *)
(* as for h = 0.                                                           *)
(***************************************************************************)
EXTENDS Naturals, Sequences, FiniteSets, TLC

CONSTANTS Headers,     \* set of header positions to explore
          Tails,       \* how the bytes before the header end: "plain", or with a proper prefix of the marker ("%", "%P", "%PD", "%PDF")
          Kinds,       \* file kinds: "classic", "xrefstm", "prev2" (two revisions), "objstm"
          Consumers,   \* {"startxref", "prev", "entry", "streamdata", "scan"}
          Dev          \* subset of {<<"ignores_header", c>>}

\* relative layout of the abstract file (positions relative to the header)
RelObj   == 20        \* an indirect object
RelStm   == 60        \* a stream object; its data starts at RelStm + 30
RelXref1 == 120       \* first (oldest) xref section
RelXref2 == 200       \* second section (kind "prev2" only); its /Prev is RelXref1
RelEnd(kind) == IF kind = "prev2" THEN 260 ELSE 180    \* where startxref ... %%EOF sits

VARIABLES h, kind, tail,
          pc,          \* "open" | "prev" | "entries" | "stream" | "scan" | "done"
          at,          \* consumer -> absolute position it arrived at (0 = not run)
          ok           \* all consumers so far arrived where they should

vars == <<h, kind, tail, pc, at, ok>>

Ignores(c) == <<"ignores_header", c>> \in Dev
Abs(c, rel) == IF Ignores(c) THEN rel ELSE h + rel

Newest == IF kind = "prev2" THEN RelXref2 ELSE RelXref1

\* backend.rs read_xref_table_and_trailer: startxref value -> position of the newest section
\* backend.rs locate_start_offset: the first occurrence of the five marker bytes within the first kilobyte.  A search that
\* does not restart a partial match at the current byte misses a marker that directly follows a proper prefix of itself
HeaderFound == ~(<<"naive_header_search", "header">> \in Dev /\ tail # "plain")

Open ==
  /\ pc = "open"
  /\ at' = [at EXCEPT !["startxref"] = Abs("startxref", Newest)]
  /\ ok' = (ok /\ HeaderFound /\ Abs("startxref", Newest) = h + Newest)
  /\ pc' = IF kind = "prev2" THEN "prev" ELSE "entries"
  /\ UNCHANGED <<h, kind, tail>>

\* following /Prev
FollowPrev ==
  /\ pc = "prev"
  /\ at' = [at EXCEPT !["prev"] = Abs("prev", RelXref1)]
  /\ ok' = (ok /\ Abs("prev", RelXref1) = h + RelXref1)
  /\ pc' = "entries"
  /\ UNCHANGED <<h, kind, tail>>

\* file.rs resolve_ref: in-use entry -> position of `n g obj`
ReadEntry ==
  /\ pc = "entries"
  /\ at' = [at EXCEPT !["entry"] = Abs("entry", RelObj)]
  /\ ok' = (ok /\ Abs("entry", RelObj) = h + RelObj)
  /\ pc' = "stream"
  /\ UNCHANGED <<h, kind, tail>>

\* stream data: the range recorded while parsing the stream object is used to read the data later
ReadStream ==
  /\ pc = "stream"
  /\ LET objpos == Abs("entry", RelStm)                     \* where the stream object was parsed
         datapos == IF Ignores("streamdata") THEN (objpos - h) + 30 ELSE objpos + 30
     IN /\ at' = [at EXCEPT !["streamdata"] = datapos]
        /\ ok' = (ok /\ datapos = h + RelStm + 30)
  /\ pc' = "scan"
  /\ UNCHANGED <<h, kind, tail>>

\* file.rs scan: the bytes from the header up to the newest xref section
Scan ==
  /\ pc = "scan"
  /\ LET endpos == Abs("scan", Newest) IN
     /\ at' = [at EXCEPT !["scan"] = endpos]
     /\ ok' = (ok /\ endpos = h + Newest)
  /\ pc' = "done"
  /\ UNCHANGED <<h, kind, tail>>

Init ==
  /\ h \in Headers /\ kind \in Kinds
  /\ tail \in Tails /\ (h < 4 => tail = "plain")
  /\ pc = "open"
  /\ at = [c \in Consumers |-> 0]
  /\ ok = TRUE

Next == Open \/ FollowPrev \/ ReadEntry \/ ReadStream \/ Scan
Spec == Init /\ [][Next]_vars

-----------------------------------------------------------------------------
\* C17: bytes before the header do not change what is read
SameAsUnprefixed == ok
\* the header must be found: it lies within the first 1024 bytes
HeaderFindable == h + 5 <= 1024
=============================================================================
