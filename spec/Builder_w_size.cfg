\* witness
CONSTANTS
  PageKinds <- PK_small
  MaxPages = 1
  Infos = {"none", "title", "title+dates"}
  Dev = {"size_too_small"}
INIT Init
NEXT Next
INVARIANTS SizeAboveAll
CHECK_DEADLOCK FALSE
