\* quick: all histories <= 3 sections over objects 1..2 (no restating): free-and-reuse chains
CONSTANTS
  NObj = 2
  MaxSections = 3
  AllowRestate = FALSE
  Dev = {}
INIT Init
NEXT Next
INVARIANTS TypeOK NewestWins TrailerNewest AllVisited GhostOK GensMonotone Emit
CHECK_DEADLOCK FALSE
