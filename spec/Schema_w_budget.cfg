SPECIFICATION Spec
CONSTANTS
  Fragments <- MCFragments
  Values <- MCValues
  Dev = {"no_budget"}
  MaxWork = 600
  NumK = 1
  Cross = FALSE
  Uniform = {}
  Only = {"colorspace"}
INVARIANTS TypeOK StackBounded OutcomeOk WorkBounded

CHECK_DEADLOCK FALSE
