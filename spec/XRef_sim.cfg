\* random walks: up to 6 sections
CONSTANTS
  NObj = 3
  MaxSections = 6
  AllowRestate = TRUE
  Dev = {}
INIT Init
NEXT Next
INVARIANTS NewestWins TrailerNewest AllVisited Emit
CHECK_DEADLOCK FALSE
