\* witness
CONSTANTS
  MaxCode = 5
  MaxGroups = 2
  MaxLen = 2
  Default = 99
  Dev = {"gap_off_by_one"}
INIT Init
NEXT Next
INVARIANTS Represents
CHECK_DEADLOCK FALSE
