\* all presence patterns, TagRequired=FALSE HasOther=FALSE
CONSTANTS
  TagRequired = FALSE
  HasOther = FALSE
  Dev = {}
INIT Init
NEXT Next
INVARIANTS Idempotent Rereadable Preserves Emit
CHECK_DEADLOCK FALSE
