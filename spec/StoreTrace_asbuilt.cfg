\* acceptance of free traces by the as-built model (Dev = the recorded, unrepaired deviation)
CONSTANTS
  BaseRaw = {1}
  BaseCmp = {2}
  BaseStm = {3}
  MaxNew = 6
  WVals = {}
  MaxCalls = 100000
  MaxSaves = 100000
  Headers = {0, 7}
  CacheModes = {TRUE, FALSE}
  Dev = {"repeated_update_merges"}
SPECIFICATION TraceSpec
VIEW TraceView
INVARIANTS TypeOK SameRef Retry
POSTCONDITION TraceAccepted
CHECK_DEADLOCK FALSE
