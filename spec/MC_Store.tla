----------------------------- MODULE MC_Store -----------------------------
(* TLC-only wrapper of Store: constants and case emission (transition cover). *)
EXTENDS Store, Json

MC_WVals == {{"A"}, {"B"}, {"#I"}, {"#BAD"}}
MC_WValsSmall == {{"A"}, {"B"}, {"#BAD"}}
MC_WValsStream == {{"A"}, {"#T"}}          \* a dictionary and a new stream: written over the base objects (also over the base stream)
AsBuilt == {"repeated_update_merges"}      \* the recorded (unrepaired) deviations, see known_findings.json

ObsJson(f) == [i \in Ids |-> f[i]]
\* the Mech predictions are only written out where they differ from the Prop value (as-built deviations)
Diff(m, s) == IF m = s.ideal THEN <<>> ELSE ObsJson(m)
StepJson(s) == [op |-> s.op, r |-> s.r, v |-> s.v, ret |-> s.ret, res |-> s.res,
                ideal |-> ObsJson(s.ideal), mres |-> Diff(s.mres, s), mget |-> Diff(s.mget, s),
                mdisk |-> Diff(s.mdisk, s), savedOk |-> s.savedOk]
CaseJson == [hdr |-> hdr, cached |-> cached, nb |-> NB, dev |-> Dev,
             baseRaw |-> BaseRaw, baseCmp |-> BaseCmp, baseStm |-> BaseStm,
             path |-> [k \in 1..Len(path) |-> StepJson(path[k])]]

\* one line per distinct (state, last call): its BFS path with the expected observation after every step
Emit == calls > 0 => PrintT(<<"CASE", ToJson(CaseJson)>>)
=============================================================================
