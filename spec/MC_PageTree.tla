--------------------------- MODULE MC_PageTree ---------------------------
EXTENDS PageTree, Json

CaseJson == [n |-> n,
             parent |-> [i \in 1..n |-> IF i = 1 THEN 0 ELSE parent[i]],
             kind |-> [i \in 1..n |-> kind[i]],
             count |-> [i \in 1..n |-> cnt[i]],
             mset |-> mset, cset |-> cset,
             ideal |-> [j \in 1..(Len(lv) + 3) |-> Ideal(j - 1)],
             mech |-> results]

Emit == phase = "done" => PrintT(<<"CASE", ToJson(CaseJson)>>)
=============================================================================
