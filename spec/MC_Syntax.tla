----------------------------- MODULE MC_Syntax -----------------------------
EXTENDS Syntax, Json
CaseJson == [bytes |-> str, ideal |-> RefTokens(str), mech |-> LibTokens(str)]
Emit == PrintT(<<"CASE", ToJson(CaseJson)>>)
=============================================================================
