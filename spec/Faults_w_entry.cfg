SPECIFICATION Spec
CONSTANTS
  Layouts <- LayoutsAllCuts
  Stages <- MCStages
  MaxFaults = 1
  Dev = {"unchecked:entry"}
INVARIANTS TypeOK OutcomeOk Bounded

CHECK_DEADLOCK FALSE
