\* thorough model check: <= 6 calls, <= 3 saves, integer atom included
CONSTANTS
  BaseRaw = {1}
  BaseCmp = {2}
  BaseStm = {3}
  MaxNew = 2
  WVals <- MC_WVals
  MaxCalls = 6
  MaxSaves = 3
  Headers = {0}
  CacheModes = {TRUE}
  Dev = {}
INIT Init
NEXT Next
VIEW View
INVARIANTS TypeOK ReadYourWrites SameRef ReloadExact Retry
PROPERTY Prefix
CHECK_DEADLOCK FALSE
