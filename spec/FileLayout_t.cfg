\* thorough: every header position 0..1019 x 4 file kinds
CONSTANTS
  Headers <- MC_AllHeaders
  Tails = {"plain", "%", "%P", "%PD", "%PDF"}
  Kinds = {"classic", "xrefstm", "prev2", "objstm"}
  Consumers = {"startxref", "prev", "entry", "streamdata", "scan"}
  Dev = {}
INIT Init
NEXT Next
INVARIANTS SameAsUnprefixed HeaderFindable Emit
CHECK_DEADLOCK FALSE
