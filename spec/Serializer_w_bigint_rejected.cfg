\* witness
CONSTANTS
  StrClasses = {"print", "lparen", "rparen", "bslash", "cr", "lf", "nul", "high"}
  NameClasses = {"reg", "space", "hash", "delim", "high"}
  NumClasses = {"int", "intmin", "intlike-real", "bigreal", "frac", "tiny", "negzero"}
  Placements = {"objbody", "dictvalue", "arrayelem", "operand"}
  Dev = {"bigint_rejected"}
INIT Init
NEXT Next
INVARIANTS NumbersRoundTrip
CHECK_DEADLOCK FALSE
