\* thorough: 13 kinds x containers of <= 3 members
CONSTANTS
  Kinds <- MC_Kinds
  BigN = 60
  MaxN = 3
  Filters = {"none", "flate", "hexflate"}
  HdrSeps = {"sp", "nl", "crlf2", "tight"}
  LenStores = {"direct", "raw", "cmp"}
  Dev = {}
INIT Init
NEXT Next
INVARIANTS TwinEqual SliceExact Emit
CHECK_DEADLOCK FALSE
