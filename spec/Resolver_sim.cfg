\* as built: random complete walks, 2 threads x 3 loads
CONSTANTS
  Threads <- T2
  Keys <- K3
  DirectKeys = {}
  MaxRepeats = 2
  DepsOpts <- AllGraphs
  LoadsOpts <- W_sim
  SharedOpts = {TRUE, FALSE}
  CacheOpts = {TRUE, FALSE}
  Dev <- AsBuilt
INIT Init
NEXT Next
INVARIANT Emit
CHECK_DEADLOCK FALSE
