\* deepest supported chains: 16 nested Pages nodes + 2 leaves hung anywhere
CONSTANTS
  MaxN = 18
  Shape = "deep"
  MaxM = 1
  MaxC = 0
  Budget = 16
  Dev = {}
INIT Init
NEXT Next
INVARIANTS LookupsCorrect Complete PosBounded Emit
CHECK_DEADLOCK FALSE
