\* witness: leaf_no_advance must be refuted
CONSTANTS
  MaxN = 4
  Shape = "all"
  MaxM = 2
  MaxC = 1
  Budget = 16
  Dev = {"leaf_no_advance"}
INIT Init
NEXT Next
INVARIANTS LookupsCorrect Complete
CHECK_DEADLOCK FALSE
