\* quick: all maps over codes 0..4 x 2 targets (writer round trip) and all well-formed texts of <= 2 entries
CONSTANTS
  MaxCode = 4
  Targets <- MC_Targets2
  MaxEntries = 2
  Modes = {"rt", "text"}
  Dev = {}
INIT Init
NEXT Next
INVARIANTS ReadsBack WriterDenotes Emit
CHECK_DEADLOCK FALSE
