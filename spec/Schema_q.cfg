SPECIFICATION Spec
CONSTANTS
  Fragments <- MCFragments
  Values <- MCValues
  Dev = {}
  MaxWork = 600
  NumK = 1
  Cross = FALSE
  Only = {}
INVARIANTS TypeOK StackBounded OutcomeOk WorkBounded Emit
PROPERTY Terminates
CHECK_DEADLOCK FALSE
