SPECIFICATION Spec
CONSTANTS
  Fragments <- MCFragments
  Values <- MCValues
  Dev = {}
  MaxWork = 600
  NumK = 1
  Cross = FALSE
  Uniform = {"i32max", "zero"}
  Only = {}
INVARIANTS TypeOK StackBounded OutcomeOk WorkBounded Emit
PROPERTY Terminates
CHECK_DEADLOCK FALSE
