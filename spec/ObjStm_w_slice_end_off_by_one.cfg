\* witness
CONSTANTS
  Kinds <- MC_KindsQ
  BigN = 60
  MaxN = 2
  Filters = {"none", "flate"}
  HdrSeps = {"sp", "nl", "tight"}
  LenStores = {"direct", "raw", "cmp"}
  Dev = {"slice_end_off_by_one"}
INIT Init
NEXT Next
INVARIANTS TwinEqual SliceExact
CHECK_DEADLOCK FALSE
