--------------------------- MODULE MC_Serializer ---------------------------
EXTENDS Serializer, Json
CaseJson == [kind |-> kind, str |-> str, name |-> name, num |-> num, place |-> place]
Emit == PrintT(<<"CASE", ToJson(CaseJson)>>)
=============================================================================
