SPECIFICATION Spec
CONSTANTS
  Fragments <- MCFragments
  Values <- MCValues
  Dev = {}
  MaxWork = 600
  NumK = 2
  Cross = TRUE
  Only = {}
INVARIANTS TypeOK StackBounded OutcomeOk WorkBounded Emit
PROPERTY Terminates
CHECK_DEADLOCK FALSE
