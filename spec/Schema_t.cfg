SPECIFICATION Spec
CONSTANTS
  Fragments <- MCFragments
  Values <- MCValues
  Dev = {}
  MaxWork = 600
  NumK = 2
  Cross = TRUE
  Uniform = {"neg", "zero", "one", "i32max", "u32max", "u64max"}
  Only = {}
INVARIANTS TypeOK StackBounded OutcomeOk WorkBounded Emit
PROPERTY Terminates
CHECK_DEADLOCK FALSE
