------------------------------- MODULE Crypt -------------------------------
(***************************************************************************)
(* The standard security handler as a protocol over uninterpreted crypto:  *)
(* pdf/src/crypt.rs (variant table, password check order, file key,        *)
(* per-object key, ciphers), pdf/src/file.rs (decoder installed from the   *)
(* trailer, exemptions for the /Encrypt dictionary and - with              *)
(* EncryptMetadata false - the metadata stream, decryption of stream data  *)
(* before the filters), pdf/src/parser (string decryption while parsing an *)
(* indirect object; members of object streams and the trailer are parsed   *)
(* without a decryption context).                                          *)
(*                                                                         *)
(* Ciphertexts are records [m, k, pt]: method, key, plaintext - Dec with   *)
(* the same method and key returns pt, anything else is garbage.           *)
(***************************************************************************)
EXTENDS Naturals, Sequences, FiniteSets, TLC

CONSTANTS Variants,     \* "R2-RC4-40" "R3-RC4-56" "R3-RC4-128" "R4-RC4-128" "R4-AESV2" "R5-AESV3" "R6-AESV3"
          PwRelations,  \* which password is presented: "user" "owner" "wrong" "empty-user" (user password is empty and presented)
          Places,       \* where the string / stream lives
          LenClasses,   \* "empty" "short" "block" "long"
          IdClasses,    \* "low" "gen" "high"   -> (id, gen)
          DictForms,    \* spelling of the key length in the Encrypt dictionary of a crypt-filter (V 4) document:
                        \* "plain" (CF /Length in bytes + /Length in bits), "cf-length-bits" (CF /Length in bits, as many writers do),
                        \* "cf-no-length" (only the dictionary's /Length), "no-length" (neither: AESV2 is 128 bit by definition),
                        \* "uo-padded" (revision 5 / 6: /U and /O padded with zero bytes to 127 bytes, as Acrobat writes them: the
                        \* first 48 bytes count), "strf-identity" (V 4: /StrF /Identity - strings are stored as they are)
          Roots,        \* where the catalog and the page tree live: "object" | "objstm" (inside an encrypted object stream)
          Dev

VARIABLES variant, pwrel, encMeta, place, len, idc, kind, root, dform,
          phase, opened, answer

vars == <<variant, pwrel, encMeta, place, len, idc, kind, root, dform, phase, opened, answer>>

Method(v) == CASE v \in {"R2-RC4-40", "R3-RC4-56", "R3-RC4-128", "R4-RC4-128"} -> "RC4"
               [] v = "R4-AESV2" -> "AESV2" [] OTHER -> "AESV3"
IdOf(c)  == CASE c = "low" -> <<3, 0>> [] c = "gen" -> <<4, 5>> [] OTHER -> <<70000, 0>>

\* Algorithm 1 / 1.A: the key a string or stream of object (id, gen) is encrypted with
ObjKey(v, idgen) == IF Method(v) = "AESV3" THEN <<"filekey", v>> ELSE <<"filekey", v, idgen[1] % 16777216, idgen[2] % 65536>>
Enc(m, k, pt) == [m |-> m, k |-> k, pt |-> pt]
Dec(m, k, ct) == IF ct.m = m /\ ct.k = k THEN ct.pt ELSE "garbage"

\* EncryptMetadata is meaningful from V 4 on; below, the metadata stream is encrypted like every other stream
HonoursFlag(v) == v \notin {"R2-RC4-40", "R3-RC4-56", "R3-RC4-128"}
\* what the document contains at `place` (writer side, Prop)
Exempt(pl, em, v) == pl \in {"encrypt-dict-indirect", "encrypt-dict-direct"} \/ (pl = "metadata-stream" /\ ~em /\ HonoursFlag(v))
\* strings anywhere inside an indirect object - its value itself, a dictionary value, an array element, inside nested containers -
\* are encrypted with the object's own key
StringPlaces == {"string-in-object", "string-bare", "string-in-array", "string-nested"}
Individually(pl) == pl \in StringPlaces \cup {"stream", "metadata-stream"}       \* encrypted with the object's own key
\* strings inside an object stream are protected by the encryption of the container; the xref stream is never encrypted
PlainStored == [m |-> "none", k |-> <<>>, pt |-> "plain"]
Stored(pl, v, idgen, em) == IF Exempt(pl, em, v) \/ ~Individually(pl) \/ (dform = "strf-identity" /\ pl \in StringPlaces) THEN PlainStored ELSE Enc(Method(v), ObjKey(v, idgen), "plain")

\* ---------------------------------------------------------------- Mech
\* Decoder::from_password: user check first, then owner unwrap + user check
\* After the password check the loader looks into the catalog (for the document-level /Metadata reference, which is exempt
\* when EncryptMetadata is false).  A catalog stored in an object stream can only be read through the decoder: the decoder
\* has to be installed before that lookup.
Open ==
  /\ phase = "open"
  /\ opened' = IF pwrel \in {"user", "owner", "empty-user"}
                THEN (IF root = "objstm" /\ "catalog_read_before_decoder" \in Dev THEN "err-open"
                      \* the owner path derives the wrapping key from the key size: a size taken as 8 times too large is refused
                      ELSE IF dform = "cf-length-bits" /\ pwrel = "owner" /\ "cf_bits_refused_for_owner" \in Dev THEN "err-open"
                      \* AESV2 without any /Length: a 40 bit default key does not verify
                      ELSE IF dform = "no-length" /\ "aesv2_defaults_to_40_bits" \in Dev THEN "err-password"
                      ELSE IF dform = "uo-padded" /\ "uo_length_exact" \in Dev THEN "err-open"
                      ELSE "ok")
                ELSE "err-password"
  /\ phase' = "read"
  /\ UNCHANGED <<variant, pwrel, encMeta, place, len, idc, kind, root, dform, answer>>

\* key the library decrypts with
LibKey(v, idgen) == IF Method(v) = "AESV3" /\ "aesv3_key_truncated" \in Dev THEN <<"truncated">> ELSE ObjKey(v, idgen)

\* does the library apply decryption at this place?
LibDecrypts(pl, em, v) ==
  CASE dform = "strf-identity" /\ pl \in StringPlaces -> "strf_ignored" \in Dev      \* the string filter is the stream filter (as built)
    [] pl \in {"string-in-object", "string-bare", "stream"} -> TRUE
    [] pl \in {"string-in-array", "string-nested"} -> "array_elements_not_decrypted" \notin Dev      \* the decryption context is handed down into containers
    [] pl = "metadata-stream" -> em \/ "metadata_exemption_ignored" \in Dev \/ (~HonoursFlag(v) /\ "metadata_flag_honoured_below_v4" \notin Dev)
    [] pl = "encrypt-dict-indirect" -> "encrypt_dict_decrypted" \in Dev
    [] pl = "encrypt-dict-direct" -> FALSE                       \* the trailer is parsed without a decryption context
    [] pl = "string-in-objstm" -> "objstm_strings_decrypted_twice" \in Dev
    [] pl = "xref-stream" -> FALSE

Read ==
  /\ phase = "read"
  /\ IF opened # "ok" THEN answer' = opened
     ELSE LET st == Stored(place, variant, IdOf(idc), encMeta) IN
          answer' = IF len = "empty" /\ kind = "string" THEN "plain"                  \* empty strings stay empty
                    ELSE IF LibDecrypts(place, encMeta, variant)
                         THEN (IF st.m = "none" THEN "garbage" ELSE Dec(Method(variant), LibKey(variant, IdOf(idc)), st))
                         ELSE (IF st.m = "none" THEN "plain" ELSE "garbage")
  /\ phase' = "done"
  /\ UNCHANGED <<variant, pwrel, encMeta, place, len, idc, kind, root, dform, opened>>

KindOf(pl) == IF pl \in {"stream", "metadata-stream", "xref-stream"} THEN "stream" ELSE "string"

Init ==
  /\ variant \in Variants /\ pwrel \in PwRelations /\ encMeta \in BOOLEAN
  /\ place \in Places /\ len \in LenClasses /\ idc \in IdClasses
  /\ kind = KindOf(place)
  /\ root \in Roots /\ (root = "objstm" => variant # "R2-RC4-40" /\ place \notin {"encrypt-dict-direct"})
  /\ (place \in {"metadata-stream", "encrypt-dict-indirect", "encrypt-dict-direct", "xref-stream", "string-in-objstm"} => idc = "low")
  /\ dform \in DictForms
  /\ (dform # "plain" => place \in {"string-in-object", "stream"} /\ len = "short" /\ idc = "low" /\ root = "object")
  /\ (dform \notin {"plain", "uo-padded"} => variant \in {"R4-RC4-128", "R4-AESV2"})
  /\ (dform = "uo-padded" => variant \in {"R5-AESV3", "R6-AESV3"})
  /\ (dform = "no-length" => variant = "R4-AESV2")
  /\ (place \in {"string-in-objstm", "xref-stream"} => variant \notin {"R2-RC4-40"}) \* object streams need PDF 1.5
  /\ phase = "open" /\ opened = "none" /\ answer = "none"

Next == Open \/ Read
Spec == Init /\ [][Next]_vars

\* C06
Ideal == IF pwrel = "wrong" THEN "err-password" ELSE "plain"
PlaintextOrRejected == phase = "done" => answer = Ideal
=============================================================================
