\* generation with the as-built deviations, values {dictionary, new stream}: transition cover, <= 4 calls
CONSTANTS
  BaseRaw = {1}
  BaseCmp = {2}
  BaseStm = {3}
  MaxNew = 2
  WVals <- MC_WValsStream
  MaxCalls = 4
  MaxSaves = 2
  Headers = {0, 7}
  CacheModes = {TRUE, FALSE}
  Dev <- AsBuilt
INIT Init
NEXT Next
VIEW View
INVARIANT Emit
CHECK_DEADLOCK FALSE
