CONSTANTS
  Roles = {"user-validation", "user-key", "owner-validation", "owner-key"}
  MaxExtra = 3
  Dev = {"kdf_boundary_excluded"}
INIT Init
NEXT Next
INVARIANTS SameRounds
CHECK_DEADLOCK FALSE
