\* witness
CONSTANTS
  Objs = {1, 2, 3, 8, 9, 10}
  Types = {"P", "D", "VM", "VR"}
  TypesOf <- MC_TypesOf
  Loads <- MC_Loads
  Partner <- MC_Partner
  TolerantOpts = {FALSE}
  Streams = {4}
  MaxCalls = 3
  ObjCacheOpts = {TRUE, FALSE}
  StmCacheOpts = {TRUE, FALSE}
  Dev = {"raw_read_through_stream_cache"}
INIT Init
NEXT Next
INVARIANTS Invisible
CHECK_DEADLOCK FALSE
