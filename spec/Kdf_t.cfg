CONSTANTS
  Roles = {"user-validation", "user-key", "owner-validation", "owner-key"}
  MaxExtra = 5
  Dev = {}
INIT Init
NEXT Next
INVARIANTS SameRounds Emit
CHECK_DEADLOCK FALSE
