------------------------------- MODULE Widths -------------------------------
(***************************************************************************)
(* Composite-font width tables: pdf/src/font.rs `Widths` (offset vector    *)
(* with default) and the /W array interpreter in Font::widths.             *)
(*                                                                         *)
(* Init chooses a well-formed /W array: a sequence of groups               *)
(*   [k |-> "list",  c |-> first, ws |-> <<w1, ...>>]   `c [w1 ...]`        *)
(*   [k |-> "range", c |-> first, d |-> last, w |-> w]  `c d w`             *)
(* covering disjoint code ranges in any order.  Next performs one `set`    *)
(* per step, exactly as the interpreter does; `Represents` is checked      *)
(* after every step.                                                       *)
(***************************************************************************)
EXTENDS Naturals, Sequences, FiniteSets, TLC

CONSTANTS MaxCode,     \* codes 0..MaxCode
          MaxGroups,   \* groups per array
          MaxLen,      \* codes per group
          Default,     \* /DW
          Dev

Codes == 0..MaxCode

VARIABLES arr,        \* the /W array (sequence of groups)
          gi, ei,     \* interpreter position: group index, element index inside the group
          values, first,   \* Mech: the offset vector (values[1] is the width of code `first`)
          assigned,   \* ghost: Codes -> width assigned so far (0 = none)
          phase       \* "build" | "run"

vars == <<arr, gi, ei, values, first, assigned, phase>>

GroupCodes(g) == IF g.k = "list" THEN g.c..(g.c + Len(g.ws) - 1) ELSE g.c..g.d
GroupLen(g)   == IF g.k = "list" THEN Len(g.ws) ELSE g.d - g.c + 1
\* widths are distinct per (group, position) so that a misplaced entry is visible
W(i, j) == 10 * i + j

Groups(i) ==
  {[k |-> "list", c |-> c, ws |-> [j \in 1..n |-> W(i, j)]] : c \in Codes, n \in 1..MaxLen}
  \cup {[k |-> "range", c |-> c, d |-> d, w |-> W(i, 0)] : c \in Codes, d \in Codes}

WellFormed(a) ==
  /\ \A i \in 1..Len(a) : GroupCodes(a[i]) # {} /\ GroupCodes(a[i]) \subseteq Codes /\ GroupLen(a[i]) <= MaxLen
  /\ \A i, j \in 1..Len(a) : i # j => GroupCodes(a[i]) \cap GroupCodes(a[j]) = {}

-----------------------------------------------------------------------------
\* Mech: Widths::get
Get(c) == IF c < first THEN Default
          ELSE IF c - first + 1 <= Len(values) THEN values[c - first + 1] ELSE Default

Rep(x, n) == [j \in 1..n |-> x]

\* Mech: Widths::_set, the five growth cases
SetCase(c) ==
  IF values = <<>> THEN "empty"
  ELSE IF c = first + Len(values) THEN "append"
  ELSE IF c < first THEN "prepend"
  ELSE IF c > first + Len(values) THEN "gap"
  ELSE "overwrite"

DoSet(c, w) ==
  LET case == SetCase(c) IN
  CASE case = "empty"   -> /\ first' = c /\ values' = <<w>>
    [] case = "append"  -> /\ values' = Append(values, w) /\ UNCHANGED first
    [] case = "prepend" -> /\ values' = (IF "prepend_short" \in Dev
                                          THEN <<w>> \o Rep(Default, first - c - 1) \o Tail(values)
                                          ELSE <<w>> \o Rep(Default, first - c - 1) \o values)
                           /\ first' = c
    [] case = "gap"     -> /\ values' = (IF "gap_off_by_one" \in Dev
                                          THEN values \o Rep(Default, c - first - Len(values) + 1) \o <<w>>
                                          ELSE values \o Rep(Default, c - first - Len(values)) \o <<w>>)
                           /\ UNCHANGED first
    [] case = "overwrite" -> /\ values' = [values EXCEPT ![c - first + 1] = w] /\ UNCHANGED first

\* building the /W array group by group: every well-formed array (disjoint groups, any order) is reachable
AddGroup ==
  /\ phase = "build" /\ Len(arr) < MaxGroups
  /\ \E g \in Groups(Len(arr) + 1) :
       /\ GroupCodes(g) # {} /\ GroupCodes(g) \subseteq Codes /\ GroupLen(g) <= MaxLen
       /\ \A i \in 1..Len(arr) : GroupCodes(g) \cap GroupCodes(arr[i]) = {}
       /\ arr' = Append(arr, g)
  /\ UNCHANGED <<gi, ei, values, first, assigned, phase>>

Start ==
  /\ phase = "build" /\ Len(arr) >= 1
  /\ phase' = "run"
  /\ UNCHANGED <<arr, gi, ei, values, first, assigned>>

\* one `widths.set(code, w)` of the interpreter loop
Step ==
  /\ phase = "run"
  /\ gi <= Len(arr)
  /\ LET g == arr[gi]
         c == g.c + ei
         w == IF g.k = "list" THEN g.ws[ei + 1] ELSE g.w
     IN /\ DoSet(c, w)
        /\ assigned' = [assigned EXCEPT ![c] = w]
        /\ IF ei + 1 < GroupLen(g) THEN ei' = ei + 1 /\ gi' = gi ELSE ei' = 0 /\ gi' = gi + 1
  /\ UNCHANGED <<arr, phase>>

Init ==
  /\ arr = <<>> /\ phase = "build"
  /\ gi = 1 /\ ei = 0
  /\ values = <<>> /\ first = 0
  /\ assigned = [c \in Codes |-> 0]

Next == AddGroup \/ Start \/ Step
Spec == Init /\ [][Next]_vars

-----------------------------------------------------------------------------
\* C19: the table represents exactly what has been assigned, default elsewhere - after every set
Represents == \A c \in 0..(MaxCode + 2) :
                Get(c) = IF c \in Codes /\ assigned[c] # 0 THEN assigned[c] ELSE Default

Done == phase = "run" /\ gi > Len(arr)
\* which growth case the next set will take (coverage of all five cases is required)
NextCase == IF Done THEN "none" ELSE SetCase(arr[gi].c + ei)
=============================================================================
