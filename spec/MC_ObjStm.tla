----------------------------- MODULE MC_ObjStm -----------------------------
EXTENDS ObjStm, Json
MC_Kinds == {"int", "negint", "real", "name", "emptyname", "null", "true", "lit", "hex", "arr", "dict", "ref", "nested"}
MC_KindsQ == {"int", "negint", "real", "name", "null", "lit", "arr", "dict", "ref"}
CaseJson == [n |-> n, kinds |-> kinds, sep |-> sep, idx |-> idx, filter |-> filter, hdrsep |-> hdrsep, lenstore |-> lenstore,
             ideal |-> "same", mech |-> result]
Emit == phase = "done" => PrintT(<<"CASE", ToJson(CaseJson)>>)
=============================================================================
