---------------------------- MODULE MC_Dangling ----------------------------
EXTENDS Dangling, Json
CaseJson == [kind |-> kind, carrier |-> carrier, mode |-> mode, optional |-> optional, nested |-> nested, ideal |-> Expected, mech |-> outcome]
Emit == pc = "done" => PrintT(<<"CASE", ToJson(CaseJson)>>)
=============================================================================
