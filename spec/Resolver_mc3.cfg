\* intended design, 3 threads x 1 load
CONSTANTS
  Threads <- T3
  Keys <- K3
  DirectKeys = {}
  MaxRepeats = 2
  DepsOpts <- G_mc
  LoadsOpts <- W3_1
  SharedOpts = {TRUE, FALSE}
  CacheOpts = {TRUE, FALSE}
  Dev = {}
INIT Init
NEXT Next
VIEW View
INVARIANTS TypeOK SequentialAnswers NoPanic ChainMatchesStack InProcHasOwner
CHECK_DEADLOCK TRUE
