CONSTANTS
  Roles = {"user-validation", "user-key", "owner-validation", "owner-key"}
  MaxExtra = 3
  Dev = {}
INIT Init
NEXT Next
INVARIANTS SameRounds Emit
CHECK_DEADLOCK FALSE
