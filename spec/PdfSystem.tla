----------------------------- MODULE PdfSystem -----------------------------
(***************************************************************************)
(* Composition of the file, cross-reference and store layers over several  *)
(* sessions: a document is opened (pdf/src/backend.rs + xref.rs: the       *)
(* sections of the file are merged newest first), read and modified        *)
(* (pdf/src/file.rs Storage: pending changes, typed object cache), saved   *)
(* (an incremental section is appended; the in-memory table is brought up  *)
(* to date), closed, and the saved bytes are opened again - possibly by a  *)
(* session with another cache mode - modified and saved again.             *)
(*                                                                         *)
(* XRef.tla decides one merge, Store.tla one session, CacheView.tla one    *)
(* cache; here the three meet: what session k saves is what session k+1    *)
(* merges, on top of sections written by earlier sessions.                 *)
(*                                                                         *)
(* Prop: while a session is open every read gives the last value written   *)
(* through it (or, failing that, what the file held when it was opened);   *)
(* at all times a fresh reader of the file sees exactly the values that    *)
(* were saved last (Durable), unsaved edits of a closed session are gone,  *)
(* and the file only ever grows.                                           *)
(***************************************************************************)
EXTENDS Naturals, Sequences, FiniteSets, TLC

CONSTANTS NBase,       \* base objects 1..NBase (1 raw, 2 compressed, 3 stream in the replay)
          MaxNew,      \* ids that may be created over all sessions
          Vals,        \* values a caller may write
          MaxCalls, MaxSessions, MaxSaves,
          CacheModes,
          Dev

Ids == 1..(NBase + MaxNew)
None == "none"
BaseVal(i) == IF i = 3 THEN "S" ELSE "Z"

VARIABLES file,       \* Seq of sections, a section = [Ids -> value | None]; section 1 is the original body
          open, cached, nsess,
          table,      \* session: merged view of the file at open time, kept up to date by save
          changes,    \* session: pending values
          ocache,     \* session: typed object cache
          want,       \* ghost: what the current session must read
          durable,    \* ghost: what any fresh reader of the file must read
          ncalls, nsaves,
          last,       \* last call [op, r, v, ret]
          path        \* history with the expected observation after every call (hidden by VIEW)

mvars == <<file, open, cached, nsess, table, changes, ocache, want, durable, ncalls, nsaves>>
vars  == <<mvars, last, path>>

NoMap == [i \in Ids |-> None]

\* backend.rs / xref.rs: sections are visited newest first, an entry already in the table is kept
RECURSIVE MergeFrom(_, _)
MergeFrom(k, acc) ==
  IF k = 0 THEN acc
  ELSE LET s == file[k]
           acc2 == [i \in Ids |-> IF acc[i] # None THEN (IF "merge_oldest_wins" \in Dev /\ s[i] # None THEN s[i] ELSE acc[i])
                                  ELSE s[i]]
       IN MergeFrom(k - 1, acc2)
Merged == MergeFrom(Len(file), NoMap)

Resolve(i) == IF changes[i] # None THEN changes[i] ELSE table[i]
TypedGet(i) == IF cached /\ ocache[i] # None THEN ocache[i] ELSE Resolve(i)
Known == {i \in Ids : table[i] # None \/ changes[i] # None}
NextId == IF Known = {} THEN 1 ELSE 1 + (CHOOSE m \in Known : \A j \in Known : j <= m)

Obs == [i \in Ids |-> IF open THEN want[i] ELSE None]
Rec(op, r, v, ret) ==
  /\ last' = [op |-> op, r |-> r, v |-> v, ret |-> ret]
  /\ path' = Append(path, [op |-> op, r |-> r, v |-> v, ret |-> ret, cached |-> cached', ideal |-> [i \in Ids |-> IF open' THEN want'[i] ELSE None],
                           mech |-> [i \in Ids |-> IF open' THEN (IF changes'[i] # None THEN changes'[i] ELSE table'[i]) ELSE None]])
  /\ ncalls' = ncalls + 1

Open(c) ==
  /\ ~open /\ nsess < MaxSessions /\ ncalls < MaxCalls
  /\ open' = TRUE /\ cached' = c /\ nsess' = nsess + 1
  /\ table' = Merged
  /\ changes' = NoMap /\ ocache' = NoMap
  /\ want' = durable
  /\ UNCHANGED <<file, durable, nsaves>>
  /\ Rec("open", 0, None, 0)

Create(v) ==
  /\ open /\ ncalls < MaxCalls /\ NextId \in Ids
  /\ changes' = [changes EXCEPT ![NextId] = v]
  /\ want' = [want EXCEPT ![NextId] = v]
  /\ UNCHANGED <<file, open, cached, nsess, table, ocache, durable, nsaves>>
  /\ Rec("create", 0, v, NextId)

Update(r, v) ==
  /\ open /\ ncalls < MaxCalls /\ r \in Known
  /\ changes' = [changes EXCEPT ![r] = v]
  /\ ocache' = IF "update_keeps_cache" \in Dev THEN ocache ELSE NoMap
  /\ want' = [want EXCEPT ![r] = v]
  /\ UNCHANGED <<file, open, cached, nsess, table, durable, nsaves>>
  /\ Rec("update", r, v, r)

Get(r) ==
  /\ open /\ ncalls < MaxCalls /\ r \in Known
  /\ ocache' = IF cached /\ ocache[r] = None THEN [ocache EXCEPT ![r] = Resolve(r)] ELSE ocache
  /\ UNCHANGED <<file, open, cached, nsess, table, changes, want, durable, nsaves>>
  /\ Rec("get", r, TypedGet(r), r)

Save ==
  /\ open /\ ncalls < MaxCalls /\ nsaves < MaxSaves
  /\ \E i \in Ids : changes[i] # None
  /\ file' = Append(file, changes)
  /\ table' = IF "save_forgets_table" \in Dev THEN table ELSE [i \in Ids |-> IF changes[i] # None THEN changes[i] ELSE table[i]]
  /\ changes' = NoMap
  /\ ocache' = NoMap
  /\ durable' = want
  /\ nsaves' = nsaves + 1
  /\ UNCHANGED <<open, cached, nsess, want>>
  /\ Rec("save", 0, None, 0)

\* the session ends; what it did not save is gone
Close ==
  /\ open /\ ncalls < MaxCalls
  /\ open' = FALSE
  /\ changes' = NoMap /\ ocache' = NoMap /\ table' = NoMap
  /\ want' = durable
  /\ UNCHANGED <<file, cached, nsess, durable, nsaves>>
  /\ Rec("close", 0, None, 0)

Init ==
  /\ file = <<[i \in Ids |-> IF i <= NBase THEN BaseVal(i) ELSE None]>>
  /\ open = FALSE /\ cached = FALSE /\ nsess = 0
  /\ table = NoMap /\ changes = NoMap /\ ocache = NoMap
  /\ want = [i \in Ids |-> IF i <= NBase THEN BaseVal(i) ELSE None]
  /\ durable = [i \in Ids |-> IF i <= NBase THEN BaseVal(i) ELSE None]
  /\ ncalls = 0 /\ nsaves = 0
  /\ last = [op |-> "init", r |-> 0, v |-> None, ret |-> 0]
  /\ path = <<>>

Next ==
  \/ \E c \in CacheModes : Open(c)
  \/ \E v \in Vals : Create(v)
  \/ \E r \in Ids, v \in Vals : Update(r, v)
  \/ \E r \in Ids : Get(r)
  \/ Save
  \/ Close

Spec == Init /\ [][Next]_vars

-----------------------------------------------------------------------------
\* every read through the open session gives the session's last write, else what the file held
SessionView == open => \A i \in Ids : Resolve(i) = want[i] /\ TypedGet(i) = want[i]
\* a typed load answers what the session must read
GetAnswers == last.op = "get" => last.v = want[last.r]
\* a fresh reader of the file sees exactly what was saved last
Durable == Merged = durable
\* the file only grows, earlier sections are never touched
AppendOnly == [][Len(file') >= Len(file) /\ SubSeq(file', 1, Len(file)) = file]_vars
View == <<mvars, last>>
=============================================================================
