INIT Init
NEXT Next
INVARIANTS WellFormedRow Emit
CHECK_DEADLOCK FALSE
