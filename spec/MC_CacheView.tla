--------------------------- MODULE MC_CacheView ---------------------------
EXTENDS CacheView, Json
\* object 1: a /Pages dictionary (loads as PagesNode "P" and as Dictionary "D");
\* object 2: a plain dictionary (D ok, P err); object 3: an integer (both err); stream 4: an image [ASCIIHex, Flate]
\* object 8: a /Page whose required /Parent refers to a free object (P fails because of a dangling reference it follows, D ok)
\* object 9: an array [2 0 R 7 0 R] whose second element is a free object: as Vec<MaybeRef<Dictionary>> ("VM") the load follows the
\* dangling element and fails with the bare missing-object error, as Vec<Ref<Dictionary>> ("VR") nothing is followed and it loads
MC_Loads == (1 :> ("P" :> "ok" @@ "D" :> "ok")) @@ (2 :> ("P" :> "err" @@ "D" :> "ok")) @@ (3 :> ("P" :> "err" @@ "D" :> "err"))
            @@ (8 :> ("P" :> "err" @@ "D" :> "ok")) @@ (9 :> ("VM" :> "err" @@ "VR" :> "ok"))
            @@ (10 :> ("P" :> "ok" @@ "D" :> "ok"))
\* object 10: a page at the bottom of the deepest chain of /Parent links the page tree supports (16 ancestors, loaded eagerly one inside the other)
MC_TypesOf == (1 :> {"P", "D"}) @@ (2 :> {"P", "D"}) @@ (3 :> {"P", "D"}) @@ (8 :> {"P", "D"}) @@ (9 :> {"VM", "VR"}) @@ (10 :> {"P"})
\* objects 30 and 31: /Pages nodes that name each other as /Parent
MC_Partner == [o \in {1, 2, 3, 8, 9, 10, 30, 31} |-> IF o = 30 THEN 31 ELSE IF o = 31 THEN 30 ELSE 0]
MC_LoadsC == MC_Loads @@ (30 :> ("P" :> "ok" @@ "D" :> "ok")) @@ (31 :> ("P" :> "ok" @@ "D" :> "ok"))
MC_TypesOfC == MC_TypesOf @@ (30 :> {"P", "D"}) @@ (31 :> {"P"})
AsBuilt == {"stream_cache_key_ignores_filters"}
AsBuiltC == {"stream_cache_key_ignores_filters", "nested_value_cached"}
Ideal(k) == Uncached(path[k].call, path[k].arg, path[k].typ)
CaseJson == [ocOn |-> ocOn, scOn |-> scOn, tol |-> tol, dev |-> Dev,
             path |-> [k \in 1..Len(path) |-> [call |-> path[k].call, arg |-> path[k].arg, typ |-> path[k].typ,
                                               ideal |-> Ideal(k), mech |-> path[k].ans]]]
Emit == ncalls = MaxCalls => PrintT(<<"CASE", ToJson(CaseJson)>>)
=============================================================================
