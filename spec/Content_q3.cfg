\* quick: all sequences <= 4 over the 10 operations that read or move the current point
CONSTANTS
  Alphabet <- PathAlphabet
  MaxLen = 4
  Dev = {}
INIT Init
NEXT Next
INVARIANTS RoundTrip PrefixParsed Emit
CHECK_DEADLOCK FALSE
