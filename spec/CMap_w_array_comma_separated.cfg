\* witness
CONSTANTS
  MaxCode = 4
  Targets <- MC_Targets2
  MaxEntries = 2
  Modes = {"rt"}
  Dev = {"array_comma_separated"}
INIT Init
NEXT Next
INVARIANTS ReadsBack
CHECK_DEADLOCK FALSE
