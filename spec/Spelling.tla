------------------------------ MODULE Spelling ------------------------------
(***************************************************************************)
(* The conformant printer of C03 at item level (layer 2 of Syntax.tla).    *)
(* A spelling is a sequence of items; an item is an atom in one of its     *)
(* spelling variants, a bracket, or a dictionary key.  Between two items   *)
(* the printer puts a separator, or nothing where the grammar needs none.  *)
(* Prop: NeedsSep.  Mech: the library's idea of where a token ends         *)
(* (its delimiter table).  The harness owns the atom catalogue (bytes and  *)
(* denoted value of every variant) and concretises each spelling.          *)
(***************************************************************************)
EXTENDS Naturals, Sequences, FiniteSets, TLC

CONSTANTS Kinds,        \* atom kinds
          NVar,         \* Kinds -> number of spelling variants (shape "atom" uses all, containers the first two)
          Seps,         \* separators: "sp" "tab" "lf" "cr" "crlf" "ff" "nul" "comment-lf" "comment-cr" "two"
          Contexts,     \* what follows the object: "eof" "int" "name" "endobj" "operator"
          Dev

None == "none"

\* first / last byte class of an item: "reg" (regular character) or "delim"
FirstClass(k) == IF k \in {"int", "real", "bool", "null", "ref"} THEN "reg" ELSE "delim"     \* name, lit, hex, brackets start with a delimiter
LastClass(k)  == IF k \in {"int", "real", "bool", "null", "ref", "name", "key"} THEN "reg" ELSE "delim"   \* a name ends in regular characters
\* Prop: two adjacent items need a separator iff a regular character would touch a regular character
NeedsSep(a, b) == LastClass(a) = "reg" /\ FirstClass(b) = "reg"
\* Mech: the library ends a regular token at white-space or at one of its delimiters
LibDelimStart(k) == IF "slash_not_delimiter" \in Dev /\ k \in {"name", "key"} THEN FALSE ELSE FirstClass(k) = "delim"
LibNeedsSep(a, b) == LastClass(a) = "reg" /\ ~LibDelimStart(b)

Atoms(all) == {[kind |-> k, var |-> v] : k \in Kinds, v \in 1..(IF all THEN 12 ELSE 2)} 
ValidAtom(a, all) == a.var <= (IF all THEN NVar[a.kind] ELSE (IF NVar[a.kind] < 2 THEN NVar[a.kind] ELSE 2))
Item(k, v) == [kind |-> k, var |-> v]

VARIABLES shape, items, seps, ctx
vars == <<shape, items, seps, ctx>>

\* separators legal between items a and b
SepChoices(a, b, full) == (IF NeedsSep(a, b) THEN {} ELSE {None}) \cup (IF full THEN Seps ELSE {"sp"})
CtxKind(c) == CASE c = "int" -> "int" [] c = "name" -> "name" [] c = "endobj" -> "bool" [] c = "operator" -> "bool" [] OTHER -> "eofmark"

Init ==
  /\ ctx \in Contexts
  /\ \/ \* one atom in every variant, any separator before what follows
        /\ shape = "atom"
        /\ \E a \in Atoms(TRUE) : ValidAtom(a, TRUE) /\ items = <<Item(a.kind, a.var)>>
        /\ \E s \in (IF ctx = "eof" THEN {None} \cup Seps ELSE SepChoices(items[1].kind, CtxKind(ctx), TRUE)) : seps = <<s>>
     \/ \* [ a b ]
        /\ ctx \in {"eof", "endobj"}
        /\ shape = "array"
        /\ \E a, b \in Atoms(FALSE) : ValidAtom(a, FALSE) /\ ValidAtom(b, FALSE) /\
             items = <<Item("aopen", 1), Item(a.kind, a.var), Item(b.kind, b.var), Item("aclose", 1)>>
        /\ \E s1 \in SepChoices("aopen", items[2].kind, FALSE), s2 \in SepChoices(items[2].kind, items[3].kind, TRUE),
              s3 \in SepChoices(items[3].kind, "aclose", FALSE) : seps = <<s1, s2, s3, None>>
     \/ \* << /K a /K b >>
        /\ ctx \in {"eof", "endobj"}
        /\ shape = "dict"
        /\ \E a, b \in Atoms(FALSE) : ValidAtom(a, FALSE) /\ ValidAtom(b, FALSE) /\
             items = <<Item("dopen", 1), Item("key", 1), Item(a.kind, a.var), Item("key", 2), Item(b.kind, b.var), Item("dclose", 1)>>
        /\ \E s1 \in SepChoices("dopen", "key", FALSE), s2 \in SepChoices("key", items[3].kind, TRUE),
              s3 \in SepChoices(items[3].kind, "key", TRUE), s4 \in SepChoices("key", items[5].kind, FALSE),
              s5 \in SepChoices(items[5].kind, "dclose", FALSE) : seps = <<s1, s2, s3, s4, s5, None>>
     \/ \* << /Length n >> stream EOL data EOL endstream   (the keyword is followed by LF or CR LF)
        /\ ctx = "endobj"
        /\ shape = "stream"
        /\ \E a \in Atoms(FALSE) : ValidAtom(a, FALSE) /\ items = <<Item("dopen", 1), Item("key", 1), Item(a.kind, a.var), Item("dclose", 1)>>
        \* between the dictionary and the keyword: nothing, white-space of any kind, or comments (each ends with an end-of-line)
        /\ \E eol \in {"lf", "crlf"}, s \in {None, "sp", "lf", "crlf", "tab", "comment-lf", "comment-cr", "comments2"} : seps = <<None, "sp", s, eol>>
     \/ \* [ [ a ] << /K b >> ]
        /\ ctx \in {"eof", "endobj"}
        /\ shape = "nested"
        /\ \E a, b \in Atoms(FALSE) : ValidAtom(a, FALSE) /\ ValidAtom(b, FALSE) /\
             items = <<Item("aopen", 1), Item("aopen", 1), Item(a.kind, a.var), Item("aclose", 1), Item("dopen", 1), Item("key", 1),
                       Item(b.kind, b.var), Item("dclose", 1), Item("aclose", 1)>>
        /\ \E s \in {None, "sp", "lf"} : \E t \in SepChoices("key", items[7].kind, FALSE) :
             seps = <<s, s, s, s, s, t, s, s, None>>

Next == UNCHANGED vars
Spec == Init /\ [][Next]_vars

\* the library's lexer separates two items wherever the grammar allows them to touch
LibSplitsWhereLegal == \A i \in 1..(Len(items) - 1) : seps[i] = None => ~LibNeedsSep(items[i].kind, items[i + 1].kind)
\* the printer never lets two regular characters touch
PrinterLegal == \A i \in 1..(Len(items) - 1) : seps[i] = None => ~NeedsSep(items[i].kind, items[i + 1].kind)
=============================================================================
