------------------------------- MODULE Syntax -------------------------------
(***************************************************************************)
(* Object syntax (ISO 32000-1 §7.2–7.3), two layers:                       *)
(*                                                                         *)
(* (1) Tokens, at byte level: the reference tokenizer (white-space set,    *)
(*     delimiters, comments ended by CR or LF, `<<` `>>`, names) and the   *)
(*     library's Lexer::next_word transcribed (pdf/src/parser/lexer/       *)
(*     mod.rs:42-45,148-202): both run over every byte string up to a      *)
(*     bound; Prop: same token boundaries; cursor safety and progress.     *)
(*                                                                         *)
(* (2) Spellings, at item level: a conformant printer chooses a value      *)
(*     (tree of atoms/arrays/dictionaries), for every atom one of its      *)
(*     spelling variants, and between adjacent items either a separator    *)
(*     (white-space kinds, comment) or nothing where the grammar needs     *)
(*     none.  Prop: NeedsSep (which adjacent items need a separator);      *)
(*     Mech: LibSplits (where the library's lexer separates two adjacent   *)
(*     items without white-space).  The item sequences are concretised by  *)
(*     the harness (atom catalogue) and parsed by the library and by an    *)
(*     independent reference parser.                                       *)
(***************************************************************************)
EXTENDS Naturals, Sequences, FiniteSets, TLC

CONSTANTS Bytes,      \* byte alphabet for the tokenizer layer
          MaxLen,
          Dev

\* ------------------------------------------------------------------ byte classes
WSref  == {0, 9, 10, 12, 13, 32}
WSlib  == IF "ff_not_ws" \in Dev THEN {0, 9, 10, 13, 32} ELSE WSref
EOLref == {10, 13}
EOLlib == IF "comment_only_lf" \in Dev THEN {10} ELSE EOLref
Delims == {40, 41, 60, 62, 91, 93, 123, 125, 47, 37}      \* ( ) < > [ ] { } / %
IsReg(b, ws) == b \notin ws /\ b \notin Delims

\* ------------------------------------------------------------------ generic tokenizer, parameterised by the tables
\* position after white-space and comments starting at p (Len+1 = end of input)
RECURSIVE SkipBlank(_, _, _, _)
RECURSIVE SkipComment(_, _, _, _)
SkipBlank(s, p, ws, eol) ==
  IF p > Len(s) THEN p
  ELSE IF s[p] \in ws THEN SkipBlank(s, p + 1, ws, eol)
  ELSE IF s[p] = 37 THEN SkipComment(s, p + 1, ws, eol)
  ELSE p
\* inside a comment: up to (not including) the end-of-line byte
SkipComment(s, p, ws, eol) ==
  IF p > Len(s) THEN p
  ELSE IF s[p] \in eol THEN SkipBlank(s, p, ws, eol)
  ELSE SkipComment(s, p + 1, ws, eol)

RECURSIVE RegEnd(_, _, _)
RegEnd(s, p, ws) == IF p <= Len(s) /\ IsReg(s[p], ws) THEN RegEnd(s, p + 1, ws) ELSE p

\* end (exclusive) of the token that starts at p
TokEnd(s, p, ws) ==
  IF s[p] = 47 THEN RegEnd(s, p + 1, ws)                                        \* name
  ELSE IF s[p] \in {60, 62} /\ p < Len(s) /\ s[p + 1] = s[p] THEN p + 2        \* << >>
  ELSE IF s[p] \in Delims THEN p + 1
  ELSE RegEnd(s, p, ws)

RECURSIVE Tokens(_, _, _, _)
Tokens(s, p, ws, eol) ==
  LET q == SkipBlank(s, p, ws, eol) IN
  IF q > Len(s) THEN <<>>
  ELSE LET e == TokEnd(s, q, ws) IN <<<<q, e>>>> \o Tokens(s, e, ws, eol)

RefTokens(s) == Tokens(s, 1, WSref, EOLref)
LibTokens(s) == Tokens(s, 1, WSlib, EOLlib)

\* ------------------------------------------------------------------ the enumeration of byte strings
VARIABLES str
Init == str = <<>>
Next == Len(str) < MaxLen /\ \E b \in Bytes : str' = Append(str, b)
Spec == Init /\ [][Next]_str

\* C03 (token layer): the library separates every byte string exactly like the reference tokenizer
SameTokens == LibTokens(str) = RefTokens(str)
\* C01 (token layer): every token is non-empty and inside the buffer, tokens advance strictly (progress), the cursor never leaves the buffer
CursorSafe == LET t == LibTokens(str) IN
              \A i \in 1..Len(t) : /\ t[i][1] >= 1 /\ t[i][1] < t[i][2] /\ t[i][2] <= Len(str) + 1
                                   /\ (i > 1 => t[i - 1][2] <= t[i][1])
=============================================================================
