\* witness: a category the pruning does not know is missing in the copy
CONSTANTS
  N = 2
  Categories = {"gs", "colorspace"}
  Dev = {"unpruned:colorspace"}
INIT Init
NEXT Next
INVARIANTS UsedResourcesCopied
CHECK_DEADLOCK FALSE
