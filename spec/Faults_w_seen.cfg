SPECIFICATION Spec
CONSTANTS
  Layouts <- LayoutsAllCuts
  Stages <- MCStages
  MaxFaults = 1
  Dev = {"no_seen_list"}
INVARIANTS TypeOK OutcomeOk Bounded
PROPERTY Terminates
CHECK_DEADLOCK FALSE
