\* transition cover for the replay
CONSTANTS
  NBase = 3
  MaxNew = 2
  Vals = {"I1"}
  MaxCalls = 7
  MaxSessions = 3
  MaxSaves = 3
  CacheModes = {FALSE}
  Dev = {}
INIT Init
NEXT Next
VIEW View
INVARIANTS SessionView GetAnswers Durable Emit

CHECK_DEADLOCK FALSE
