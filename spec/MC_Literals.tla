---------------------------- MODULE MC_Literals ----------------------------
EXTENDS Literals, Json
CaseJson == [literal |-> part, bytes |-> str, ideal |-> Ideal]
\* hex strings / names that only extend a complete literal are not emitted again
Complete == Ideal.k = "ok" /\ part = "hex" /\ Ideal.end <= Len(str)
Emit == (~Complete) => PrintT(<<"CASE", ToJson(CaseJson)>>)
=============================================================================
