\* intended design: all call sequences <= 5 (VIEW hides the history), all four cache configurations
CONSTANTS
  Objs = {1, 2, 3, 8, 9, 10}
  Types = {"P", "D", "VM", "VR"}
  TypesOf <- MC_TypesOf
  Loads <- MC_Loads
  Partner <- MC_Partner
  TolerantOpts = {FALSE}
  Streams = {4}
  MaxCalls = 5
  ObjCacheOpts = {TRUE, FALSE}
  StmCacheOpts = {TRUE, FALSE}
  Dev = {}
INIT Init
NEXT Next
VIEW View
INVARIANTS Invisible CacheTruthful
CHECK_DEADLOCK FALSE
