\* intended design, 2 threads x 1 load and 2 threads x 2 loads, all graphs incl. fan-out, all modes
CONSTANTS
  Threads <- T2
  Keys <- K3
  DirectKeys = {}
  MaxRepeats = 2
  DepsOpts <- G_mc
  LoadsOpts <- W_mc2
  SharedOpts = {TRUE, FALSE}
  CacheOpts = {TRUE, FALSE}
  Dev = {}
INIT Init
NEXT Next
VIEW View
INVARIANTS TypeOK SequentialAnswers NoPanic ChainMatchesStack InProcHasOwner
CHECK_DEADLOCK TRUE
