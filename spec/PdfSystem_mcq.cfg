\* intended design: up to 3 sessions, 7 calls (quick), 3 saves over 3 base objects + 2 created
CONSTANTS
  NBase = 3
  MaxNew = 2
  Vals = {"I1", "I2"}
  MaxCalls = 7
  MaxSessions = 3
  MaxSaves = 3
  CacheModes = {TRUE, FALSE}
  Dev = {}
INIT Init
NEXT Next
VIEW View
INVARIANTS SessionView GetAnswers Durable
PROPERTY AppendOnly
CHECK_DEADLOCK FALSE
