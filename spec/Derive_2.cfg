\* all presence patterns, TagRequired=TRUE HasOther=FALSE
CONSTANTS
  TagRequired = TRUE
  HasOther = FALSE
  Dev = {}
INIT Init
NEXT Next
INVARIANTS Idempotent Rereadable Preserves Emit
CHECK_DEADLOCK FALSE
