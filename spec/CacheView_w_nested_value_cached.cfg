\* witness
CONSTANTS
  Objs = {1, 30, 31}
  Types = {"P", "D", "VM", "VR"}
  TypesOf <- MC_TypesOfC
  Loads <- MC_LoadsC
  Partner <- MC_Partner
  TolerantOpts = {TRUE, FALSE}
  Streams = {}
  MaxCalls = 3
  ObjCacheOpts = {TRUE, FALSE}
  StmCacheOpts = {FALSE}
  Dev = {"nested_value_cached"}
INIT Init
NEXT Next
INVARIANTS Invisible
CHECK_DEADLOCK FALSE
