-------------------------------- MODULE CMap --------------------------------
(***************************************************************************)
(* ToUnicode character maps: pdf/src/font.rs write_cmap (sort, run         *)
(* detection, grouping into bfchar / bfrange sections) and parse_cmap      *)
(* (bfchar; bfrange with a string destination whose last byte is           *)
(* incremented; bfrange with an array of destinations).                    *)
(*                                                                         *)
(* A text is a sequence of entries [k, sec, lo, hi, us]; targets are       *)
(* sequences of UTF-16 code units.  mode "rt": Init chooses a map, the     *)
(* writer Mech produces the text; mode "text": Init chooses a well-formed  *)
(* text directly.  The reader Mech consumes one entry per step.            *)
(***************************************************************************)
EXTENDS Naturals, Sequences, FiniteSets, TLC

CONSTANTS MaxCode, Targets, MaxEntries, Modes, Dev

Codes == 0..MaxCode
NoT == <<>>

VARIABLES mode, src,    \* mode; the source map (mode "rt") or the expected map (mode "text")
          text,         \* sequence of entries
          pos, rmap,    \* reader: next entry, map read so far
          skipsec       \* reader: section being skipped after a failed parse (0 = none)

vars == <<mode, src, text, pos, rmap, skipsec>>

-----------------------------------------------------------------------------
(* writer Mech                                                               *)
RECURSIVE AscSeq(_)
AscSeq(S) == IF S = {} THEN <<>> ELSE LET m == CHOOSE x \in S : \A y \in S : x <= y IN <<m>> \o AscSeq(S \ {m})

\* length of the run of consecutive codes starting at position i of the sorted list s
RECURSIVE RunLen(_, _)
RunLen(s, i) == IF i < Len(s) /\ s[i + 1] = s[i] + 1 THEN 1 + RunLen(s, i + 1) ELSE 1

RECURSIVE Blocks(_, _)
Blocks(s, i) == IF i > Len(s) THEN <<>>
                ELSE LET n == RunLen(s, i) IN <<[lo |-> s[i], hi |-> s[i] + n - 1]>> \o Blocks(s, i + n)

\* section numbers: consecutive blocks of the same singleness share a section (group_by)
RECURSIVE SecOf(_, _)
SecOf(bs, j) == IF j = 1 THEN 1
                ELSE IF (bs[j].lo = bs[j].hi) = (bs[j-1].lo = bs[j-1].hi) THEN SecOf(bs, j - 1) ELSE SecOf(bs, j - 1) + 1

Write(m) ==
  LET s  == AscSeq({c \in Codes : m[c] # NoT})
      bs == Blocks(s, 1)
  IN [j \in 1..Len(bs) |->
        IF bs[j].lo = bs[j].hi
        THEN [k |-> "char", sec |-> SecOf(bs, j), lo |-> bs[j].lo, hi |-> bs[j].hi, us |-> <<m[bs[j].lo]>>]
        ELSE [k |-> "rangeA", sec |-> SecOf(bs, j), lo |-> bs[j].lo, hi |-> bs[j].hi,
              us |-> [i \in 1..(bs[j].hi - bs[j].lo + 1) |-> m[bs[j].lo + i - 1]]]]

-----------------------------------------------------------------------------
(* Prop: what a text denotes                                                 *)
Bump(u, d) == [u EXCEPT ![Len(u)] = @ + d]      \* string destination: last code unit + d (no byte carry in this domain)

EntryMap(e) ==
  [c \in Codes |->
     IF c < e.lo \/ c > e.hi THEN NoT
     ELSE CASE e.k = "char"   -> e.us[1]
            [] e.k = "rangeA" -> e.us[c - e.lo + 1]
            [] e.k = "rangeS" -> Bump(e.us[1], c - e.lo)]

RECURSIVE Denotes(_, _)
Denotes(t, n) == IF n = 0 THEN [c \in Codes |-> NoT]
                 ELSE LET prev == Denotes(t, n - 1)  em == EntryMap(t[n])
                      IN [c \in Codes |-> IF em[c] # NoT THEN em[c] ELSE prev[c]]

-----------------------------------------------------------------------------
(* reader Mech: one entry per step                                           *)
ReadEntry ==
  /\ pos >= 1 /\ pos <= Len(text)
  /\ LET e == text[pos] IN
     IF skipsec = e.sec
     THEN UNCHANGED <<rmap, skipsec>>                      \* tokens of a section whose loop was left are ignored
     ELSE IF e.k = "rangeA" /\ "array_comma_separated" \in Dev
     THEN /\ skipsec' = e.sec /\ UNCHANGED rmap             \* as built before the repair: the array does not parse
     ELSE /\ rmap' = [c \in Codes |-> IF EntryMap(e)[c] # NoT THEN EntryMap(e)[c] ELSE rmap[c]]
          /\ UNCHANGED skipsec
  /\ pos' = pos + 1
  /\ UNCHANGED <<mode, src, text>>

-----------------------------------------------------------------------------
EntriesFor(sec) ==
  {[k |-> "char", sec |-> sec, lo |-> c, hi |-> c, us |-> <<u>>] : c \in Codes, u \in Targets}
  \cup {[k |-> "rangeS", sec |-> sec, lo |-> c, hi |-> d, us |-> <<u>>] : c \in Codes, d \in Codes, u \in Targets}
  \cup {[k |-> "rangeA", sec |-> sec, lo |-> c, hi |-> c + 1, us |-> <<u, v>>] : c \in 0..(MaxCode - 1), u \in Targets, v \in Targets}

Span(e) == e.lo..e.hi

AddEntry ==
  /\ mode = "text" /\ pos = 0 /\ Len(text) < MaxEntries
  /\ \E e \in EntriesFor(Len(text) + 1) :
       /\ e.lo <= e.hi /\ e.hi - e.lo <= 2
       /\ \A i \in 1..Len(text) : Span(e) \cap Span(text[i]) = {}
       /\ text' = Append(text, e)
  /\ UNCHANGED <<mode, src, pos, rmap, skipsec>>

StartRead ==
  /\ pos = 0
  /\ pos' = 1
  /\ src' = IF mode = "text" THEN Denotes(text, Len(text)) ELSE src
  /\ UNCHANGED <<mode, text, rmap, skipsec>>

Init ==
  /\ mode \in Modes
  /\ IF mode = "rt"
     THEN /\ src \in [Codes -> Targets \cup {NoT}]
          /\ text = Write(src)
     ELSE /\ src = [c \in Codes |-> NoT] /\ text = <<>>
  /\ pos = 0 /\ skipsec = 0
  /\ rmap = [c \in Codes |-> NoT]

Next == AddEntry \/ StartRead \/ ReadEntry
Spec == Init /\ [][Next]_vars

-----------------------------------------------------------------------------
Done == pos >= 1 /\ pos > Len(text)
\* C19: writer o reader = identity; every well-formed text assigns each code the text the specification defines
ReadsBack == Done => rmap = src
\* the writer's text denotes the map it was given (writer correctness independent of the reader)
WriterDenotes == mode = "rt" => Denotes(text, Len(text)) = src
=============================================================================
