\* witness
CONSTANTS
  TagRequired = FALSE
  HasOther = TRUE
  Dev = {"writer_drops_other"}
INIT Init
NEXT Next
INVARIANTS Preserves
CHECK_DEADLOCK FALSE
