\* all combinations
CONSTANTS
  Kinds = {"free", "beyond", "gap"}
  Carriers = {"prim", "struct", "mayberef", "rcref", "vec", "lazy", "ref"}
  Modes = {"strict", "tolerant"}
  Dev = {}
INIT Init
NEXT Next
INVARIANTS DanglingIsNull Emit
CHECK_DEADLOCK FALSE
