\* quick, shapes only: all ordered trees <= 6 nodes (incl. empty intermediate nodes), no attributes, all indices
CONSTANTS
  MaxN = 6
  Shape = "all"
  MaxM = 0
  MaxC = 0
  Budget = 16
  Dev = {}
INIT Init
NEXT Next
INVARIANTS LookupsCorrect Complete PosBounded Emit
CHECK_DEADLOCK FALSE
