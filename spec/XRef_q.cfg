\* quick: all histories <= 2 sections over objects 1..3, restating allowed
CONSTANTS
  NObj = 3
  MaxSections = 2
  AllowRestate = TRUE
  Dev = {}
INIT Init
NEXT Next
INVARIANTS TypeOK NewestWins TrailerNewest AllVisited GhostOK GensMonotone Emit
CHECK_DEADLOCK FALSE
