\* all presence patterns, TagRequired=FALSE HasOther=TRUE
CONSTANTS
  TagRequired = FALSE
  HasOther = TRUE
  Dev = {}
INIT Init
NEXT Next
INVARIANTS Idempotent Rereadable Preserves Emit
CHECK_DEADLOCK FALSE
