\* quick model check of the intended design: <= 4 calls, <= 2 saves
CONSTANTS
  BaseRaw = {1}
  BaseCmp = {2}
  BaseStm = {3}
  MaxNew = 2
  WVals <- MC_WValsSmall
  MaxCalls = 4
  MaxSaves = 2
  Headers = {0, 7}
  CacheModes = {TRUE, FALSE}
  Dev = {}
INIT Init
NEXT Next
VIEW View
INVARIANTS TypeOK ReadYourWrites SameRef ReloadExact Retry
PROPERTY Prefix
CHECK_DEADLOCK FALSE
