\* thorough: all histories <= 3 sections over objects 1..3 (no restating)
CONSTANTS
  NObj = 3
  MaxSections = 3
  AllowRestate = FALSE
  Dev = {}
INIT Init
NEXT Next
INVARIANTS TypeOK NewestWins TrailerNewest AllVisited GhostOK GensMonotone Emit
CHECK_DEADLOCK FALSE
