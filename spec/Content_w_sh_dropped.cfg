\* witness
CONSTANTS
  Alphabet <- MergeAlphabet
  MaxLen = 2
  Dev = {"sh_dropped"}
INIT Init
NEXT Next
INVARIANTS RoundTrip
CHECK_DEADLOCK FALSE
