\* thorough: all ordered trees <= 7 nodes, attributes at <= 1 node
CONSTANTS
  MaxN = 7
  Shape = "all"
  MaxM = 1
  MaxC = 0
  Budget = 16
  Dev = {}
INIT Init
NEXT Next
INVARIANTS LookupsCorrect Complete PosBounded Emit
CHECK_DEADLOCK FALSE
