SPECIFICATION Spec
CONSTANTS
  Fragments <- MCFragments
  Values <- MCValues
  Dev = {"unchecked:index"}
  MaxWork = 600
  NumK = 1
  Cross = FALSE
  Uniform = {}
  Only = {"sampled"}
INVARIANTS TypeOK StackBounded OutcomeOk WorkBounded

CHECK_DEADLOCK FALSE
