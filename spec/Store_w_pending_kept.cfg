\* witness: pending_kept_after_save (visible together with the merge) must be refuted by ReloadExact
CONSTANTS
  BaseRaw = {1}
  BaseCmp = {2}
  BaseStm = {3}
  MaxNew = 2
  WVals <- MC_WValsSmall
  MaxCalls = 4
  MaxSaves = 2
  Headers = {0, 7}
  CacheModes = {TRUE, FALSE}
  Dev = {"pending_kept_after_save", "repeated_update_merges"}
INIT Init
NEXT Next
VIEW View
INVARIANTS ReloadExact
CHECK_DEADLOCK FALSE
