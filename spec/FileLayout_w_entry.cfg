\* adequacy witness: consumer entry forgetting the header offset must be refuted
CONSTANTS
  Headers = {0, 1, 7, 512, 1019}
  Tails = {"plain", "%", "%P", "%PD", "%PDF"}
  Kinds = {"classic", "xrefstm", "prev2", "objstm"}
  Consumers = {"startxref", "prev", "entry", "streamdata", "scan"}
  Dev <- D_entry
INIT Init
NEXT Next
INVARIANTS SameAsUnprefixed
CHECK_DEADLOCK FALSE
