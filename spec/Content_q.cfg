\* quick: all sequences <= 3 over the merge-relevant alphabet (25 operations)
CONSTANTS
  Alphabet <- MergeAlphabet
  MaxLen = 3
  Dev = {}
INIT Init
NEXT Next
INVARIANTS RoundTrip PrefixParsed Emit
CHECK_DEADLOCK FALSE
