\* as built: transition cover of 2 threads x 2 loads
CONSTANTS
  Threads <- T2
  Keys <- K3
  DirectKeys = {}
  MaxRepeats = 2
  DepsOpts <- AllGraphs
  LoadsOpts <- W2_2
  SharedOpts = {TRUE, FALSE}
  CacheOpts = {TRUE, FALSE}
  Dev <- AsBuilt
INIT Init
NEXT Next
VIEW View
INVARIANT EmitAll
CHECK_DEADLOCK FALSE
