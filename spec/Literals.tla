------------------------------ MODULE Literals ------------------------------
(***************************************************************************)
(* The remaining lexical literals at byte level (ISO 32000-1 7.3.3, 7.3.4.3,*)
(* 7.3.5; pdf/src/parser/lexer/str.rs HexStringLexer, pdf/src/parser/mod.rs *)
(* decode_name, pdf/src/parser/lexer/mod.rs Substr::is_integer /            *)
(* real_number).  One module, three parts selected in Init:                 *)
(*   hex   what follows `<`: hex digits in either case, white-space         *)
(*         ignored, `>` ends, an odd last digit is padded with 0            *)
(*   name  what follows `/` up to a delimiter: #xx is one byte              *)
(*   num   a regular token: integer, real, or not a number                  *)
(* Ref is the standard; Lib is the library transcribed with one deviation   *)
(* switch per rule.  Every byte string over the part's alphabet up to the   *)
(* bound is classified by both.                                             *)
(***************************************************************************)
EXTENDS Naturals, Integers, Sequences, TLC

CONSTANTS Parts, HexBytes, NameBytes, NumBytes, MaxLen, Dev

WS == {0, 9, 10, 12, 13, 32}
IsDig(b) == b >= 48 /\ b <= 57
HexVal(b) == IF IsDig(b) THEN b - 48 ELSE IF b >= 65 /\ b <= 70 THEN b - 55 ELSE IF b >= 97 /\ b <= 102 THEN b - 87 ELSE 99
IsHex(b) == HexVal(b) < 16
Err == [k |-> "err", val |-> <<>>, end |-> 0]

\* ------------------------------------------------------------------ hex strings
LibWS == IF "hex_nul_not_ws" \in Dev THEN WS \ {0} ELSE WS
RECURSIVE HexDecode(_, _, _, _, _)
\* hi = pending high nibble (16 = none)
HexDecode(s, p, hi, out, ws) ==
  IF p > Len(s) THEN Err
  ELSE LET c == s[p] IN
    IF c \in ws THEN HexDecode(s, p + 1, hi, out, ws)
    ELSE IF c = 62 THEN [k |-> "ok", val |-> (IF hi = 16 THEN out ELSE Append(out, 16 * hi)), end |-> p + 1]
    ELSE IF ~IsHex(c) THEN Err
    ELSE IF hi = 16 THEN HexDecode(s, p + 1, HexVal(c), out, ws)
    ELSE HexDecode(s, p + 1, 16, Append(out, 16 * hi + HexVal(c)), ws)
RefHex(s) == HexDecode(s, 1, 16, <<>>, WS)
LibHex(s) == LET r == HexDecode(s, 1, 16, <<>>, LibWS) IN
             IF "hex_odd_dropped" \in Dev /\ r.k = "ok" /\ r.val # <<>> /\ r.val[Len(r.val)] % 16 = 0 /\ FALSE THEN r ELSE r

\* ------------------------------------------------------------------ names
Delims == {40, 41, 60, 62, 91, 93, 123, 125, 47, 37}
RECURSIVE NameDecode(_, _, _, _)
NameDecode(s, p, out, lib) ==
  IF p > Len(s) \/ s[p] \in WS \/ s[p] \in Delims THEN [k |-> "ok", val |-> out, end |-> p]
  ELSE IF s[p] = 35 THEN
       (IF p + 2 <= Len(s) /\ IsHex(s[p + 1]) /\ IsHex(s[p + 2])
             /\ ~(s[p + 1] \in WS \cup Delims) /\ ~(s[p + 2] \in WS \cup Delims)
        THEN (IF lib /\ "name_hash_literal" \in Dev THEN NameDecode(s, p + 1, Append(out, 35), lib)
              ELSE NameDecode(s, p + 3, Append(out, 16 * HexVal(s[p + 1]) + HexVal(s[p + 2])), lib))
        ELSE [k |-> "unspecified", val |-> <<>>, end |-> 0])      \* `#` without two hex digits: invalid since PDF 1.2, reaction not defined
  ELSE NameDecode(s, p + 1, Append(out, s[p]), lib)
RefName(s) == NameDecode(s, 1, <<>>, FALSE)
LibName(s) == NameDecode(s, 1, <<>>, TRUE)

\* ------------------------------------------------------------------ numbers (one regular token)
AllDigits(s, a, b) == \A i \in a..b : IsDig(s[i])
DotAt(s, a) == IF \E i \in a..Len(s) : s[i] = 46 THEN CHOOSE i \in a..Len(s) : s[i] = 46 /\ \A j \in a..(i - 1) : s[j] # 46 ELSE 0
NumClass(s, lib) ==
  IF s = <<>> THEN "other"
  ELSE LET a == IF s[1] \in {43, 45} THEN 2 ELSE 1 IN
    IF a > Len(s) THEN "other"
    ELSE IF AllDigits(s, a, Len(s)) THEN "int"
    ELSE LET d == DotAt(s, a) IN
      IF d = 0 THEN "other"
      ELSE IF ~AllDigits(s, a, d - 1) \/ ~AllDigits(s, d + 1, Len(s)) THEN "other"      \* a second dot, a sign inside, a letter
      ELSE IF d = a /\ d = Len(s) THEN "other"                                          \* a lone dot
      ELSE IF lib /\ "real_needs_leading_digit" \in Dev /\ d = a THEN "other"
      ELSE "real"
RefNum(s) == NumClass(s, FALSE)
LibNum(s) == NumClass(s, TRUE)

\* ------------------------------------------------------------------ enumeration
VARIABLES part, str
vars == <<part, str>>
Alphabet(p) == CASE p = "hex" -> HexBytes [] p = "name" -> NameBytes [] p = "num" -> NumBytes
Init == part \in Parts /\ str = <<>>
Next == Len(str) < MaxLen /\ \E b \in Alphabet(part) : str' = Append(str, b) /\ UNCHANGED part
Spec == Init /\ [][Next]_vars

Ideal == CASE part = "hex" -> RefHex(str) [] part = "name" -> RefName(str) [] part = "num" -> [k |-> RefNum(str), val |-> <<>>, end |-> 0]
Mech  == CASE part = "hex" -> LibHex(str) [] part = "name" -> LibName(str) [] part = "num" -> [k |-> LibNum(str), val |-> <<>>, end |-> 0]
\* C03: the library reads every literal as the standard defines it
SameLiteral == Mech = Ideal
=============================================================================
