\* intended design, one thread repeating a top-level load four times while the other loads: the bound on repeated loads (2 here)
CONSTANTS
  Threads <- T2
  Keys <- K3
  DirectKeys = {}
  MaxRepeats = 2
  DepsOpts <- G_rep
  LoadsOpts <- W_rep
  SharedOpts = {TRUE, FALSE}
  CacheOpts = {TRUE, FALSE}
  Dev = {}
INIT Init
NEXT Next
VIEW View
INVARIANTS TypeOK SequentialAnswers NoPanic ChainMatchesStack InProcHasOwner
CHECK_DEADLOCK TRUE
