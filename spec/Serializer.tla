----------------------------- MODULE Serializer -----------------------------
(***************************************************************************)
(* The library's serializer as a deterministic printer                     *)
(* (pdf/src/primitive.rs Primitive::serialize, serialize_name,             *)
(* serialize_list, Dictionary::serialize, PdfString::serialize) in the     *)
(* four placements the writers use, and the reader rules that must invert  *)
(* it (layer 2 of Syntax.tla / the reference parser).  Values are trees    *)
(* over *classes*: string bytes, name characters, lexical classes of       *)
(* numbers.  Prop: Read(Write(v) in placement) = v.                        *)
(***************************************************************************)
EXTENDS Naturals, Sequences, FiniteSets, TLC

CONSTANTS StrClasses,    \* "print" "lparen" "rparen" "bslash" "cr" "lf" "nul" "high"
          NameClasses,   \* "reg" "space" "hash" "delim" "high"
          NumClasses,    \* "int" "intmin" "intlike-real" "bigreal" "frac" "tiny" "negzero"
          Placements,    \* "objbody" "dictvalue" "arrayelem" "operand"
          Dev

\* ---------------------------------------------------------------- strings
\* how one byte of a literal string is written
WriteLitByte(c) == IF c \in {"lparen", "rparen", "bslash"} THEN <<"esc", c>>
                   ELSE IF c = "cr" /\ "cr_written_raw" \notin Dev THEN <<"esc", c>>
                   ELSE <<"raw", c>>
\* how the reader (ISO 32000-1 7.3.4.2) reads it back
ReadLitByte(w) == IF w[1] = "esc" THEN w[2]
                  ELSE IF w[2] = "cr" THEN "lf"                    \* an unescaped end-of-line marker is read as LF
                  ELSE w[2]
\* a string with a byte >= 0x80 is written as a hex string: every byte survives
WriteString(s) == IF \E i \in 1..Len(s) : s[i] = "high" THEN [form |-> "hex", bytes |-> s]
                  ELSE [form |-> "lit", bytes |-> [i \in 1..Len(s) |-> WriteLitByte(s[i])]]
ReadString(w) == IF w.form = "hex" THEN w.bytes ELSE [i \in 1..Len(w.bytes) |-> ReadLitByte(w.bytes[i])]
\* unescaped parentheses must be balanced for the reader to find the end: the writer escapes all of them
LitTerminates(w) == w.form = "hex" \/ \A i \in 1..Len(w.bytes) : w.bytes[i][2] \in {"lparen", "rparen"} => w.bytes[i][1] = "esc"

\* ---------------------------------------------------------------- names
WriteNameChar(c) == IF c = "reg" \/ "name_raw" \in Dev THEN <<"raw", c>> ELSE <<"hex", c>>
\* a raw character that is not regular ends (or corrupts) the token; '#' starts an escape
NameCharSurvives(w) == w[1] = "hex" \/ w[2] = "reg"

\* ---------------------------------------------------------------- numbers
\* lexical form the writer produces (Rust's Display never uses an exponent)
NumToken(c) == CASE c \in {"int", "intmin"} -> "integer-token"
                 [] c \in {"intlike-real", "negzero"} -> "integer-token"
                 [] c = "bigreal" -> "big-integer-token"
                 [] c \in {"frac", "tiny"} -> "real-token"
\* what the reader makes of it
NumReadOk(c) == CASE NumToken(c) = "integer-token" -> TRUE                       \* integer of equal numeric value
                  [] NumToken(c) = "real-token" -> TRUE
                  [] NumToken(c) = "big-integer-token" -> "bigint_rejected" \notin Dev

\* ---------------------------------------------------------------- placements
\* last item class of a serialized value of kind k ("reg" = ends in a regular character)
EndsReg(k) == k \in {"num", "name", "bool", "null", "ref"}
\* what the writer puts between the value and what follows in each placement
SepAfter(p) == CASE p = "objbody"   -> IF "no_separator_before_endobj" \in Dev THEN "none" ELSE "lf"
                 [] p = "dictvalue" -> "lf"
                 [] p = "arrayelem" -> "sp-or-bracket"
                 [] p = "operand"   -> "sp"
\* the follower starts with a regular character in these placements (endobj, an operator keyword, the next number)
FollowerReg(p) == p \in {"objbody", "operand", "arrayelem"}
PlacementOk(k, p) == ~(EndsReg(k) /\ FollowerReg(p) /\ SepAfter(p) = "none")

\* ---------------------------------------------------------------- enumeration
VARIABLES kind, str, name, num, place
vars == <<kind, str, name, num, place>>
Seqs(S, n) == UNION {[1..m -> S] : m \in 0..n}

Init ==
  /\ place \in Placements
  /\ kind \in {"str", "name", "num", "bool", "null", "ref", "array", "dict"}
  /\ str \in (IF kind = "str" THEN Seqs(StrClasses, 2) ELSE {<<>>})
  /\ name \in (IF kind = "name" THEN Seqs(NameClasses, 2) ELSE {<<>>})
  /\ num \in (IF kind = "num" THEN NumClasses ELSE {"int"})
Next == UNCHANGED vars
Spec == Init /\ [][Next]_vars

\* C04
StringsRoundTrip == kind = "str" => LitTerminates(WriteString(str)) /\ ReadString(WriteString(str)) = str
NamesRoundTrip == kind = "name" => \A i \in 1..Len(name) : NameCharSurvives(WriteNameChar(name[i]))
NumbersRoundTrip == kind = "num" => NumReadOk(num)
PlacementsOk == PlacementOk(IF kind \in {"str", "array", "dict"} THEN "delimited" ELSE kind, place)
=============================================================================
