\* as built: ALL interleavings of 2 threads x 1 load (schedule history is part of the state)
CONSTANTS
  Threads <- T2
  Keys <- K3
  DirectKeys = {}
  MaxRepeats = 2
  DepsOpts <- AllGraphs
  LoadsOpts <- W2_1
  SharedOpts = {TRUE, FALSE}
  CacheOpts = {TRUE, FALSE}
  Dev <- AsBuilt
INIT Init
NEXT Next
INVARIANT Emit
CHECK_DEADLOCK FALSE
