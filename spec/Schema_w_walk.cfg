SPECIFICATION Spec
CONSTANTS
  Fragments <- MCFragments
  Values <- MCValues
  Dev = {"walk_unguarded"}
  MaxWork = 600
  NumK = 1
  Cross = FALSE
  Uniform = {}
  Only = {"nametree"}
INVARIANTS TypeOK StackBounded OutcomeOk WorkBounded

CHECK_DEADLOCK FALSE
