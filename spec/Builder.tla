------------------------------ MODULE Builder ------------------------------
(***************************************************************************)
(* Building a document from scratch: pdf/src/build.rs CatalogBuilder::build*)
(* (one promised reference per page, the page tree, per page the resource  *)
(* dictionary and - inside the page's writer - the content stream, the     *)
(* fulfilled page), PdfBuilder::build (catalog, trailer with indirect      *)
(* /Info), pdf/src/file.rs save (xref stream, /Size).                      *)
(* The store is the empty store of Store.tla: ids are handed out in order. *)
(*                                                                         *)
(* Prop: WellFormedFile (every reference points at a written object, /Size *)
(* above every object number, nothing left promised) and the page list     *)
(* read back = the input.                                                  *)
(***************************************************************************)
EXTENDS Naturals, Sequences, FiniteSets, TLC

CONSTANTS PageKinds,   \* set of page descriptions [boxes, rot, other, res, ops]
          MaxPages,
          Infos,       \* set of info descriptions: "none" | "title" | "title+dates"
          Dev

VARIABLES pages, info,       \* the input
          pc, k,             \* builder program counter, page index
          next,              \* next id the store hands out (refs.len())
          objs,              \* id -> [kind, refs, page]   (kind "promised" until fulfilled)
          tree, kidsOf, catalog, size, xrefId

vars == <<pages, info, pc, k, next, objs, tree, kidsOf, catalog, size, xrefId>>

NoObj == [kind |-> "none", refs |-> {}, page |-> 0]
Ids == 1..(4 * MaxPages + 8)
Put(id, kind, refs, pg) == [objs EXCEPT ![id] = [kind |-> kind, refs |-> refs, page |-> pg]]

ChooseInput ==
  /\ pc = "input"
  /\ \E n \in 0..MaxPages : \E ps \in [1..n -> PageKinds] : pages' = ps
  /\ info' \in Infos
  /\ pc' = "promise"
  /\ UNCHANGED <<k, next, objs, tree, kidsOf, catalog, size, xrefId>>

\* update.promise() per page, then PagesRc::create(tree)
PromiseAndTree ==
  /\ pc = "promise"
  /\ LET n == Len(pages)
         withProm == [i \in Ids |-> IF i \in next..(next + n - 1) THEN [kind |-> "promised", refs |-> {}, page |-> i - next + 1] ELSE objs[i]]
         t == next + n
     IN /\ kidsOf' = [j \in 1..n |-> next + j - 1]
        /\ tree' = t
        /\ objs' = [withProm EXCEPT ![t] = [kind |-> "pages", refs |-> {next + j - 1 : j \in 1..n}, page |-> 0]]
        /\ next' = t + 1
  /\ k' = 1 /\ pc' = "page"
  /\ UNCHANGED <<pages, info, catalog, size, xrefId>>

\* per page: create(resources); fulfill(promise, page) whose writer creates the content stream
BuildPage ==
  /\ pc = "page"
  /\ IF k > Len(pages)
     THEN /\ pc' = "catalog" /\ UNCHANGED <<k, next, objs>>
     ELSE LET res == next
              con == next + 1
              pid == kidsOf[k]
              o1 == Put(res, "resources", {}, k)
              o2 == [o1 EXCEPT ![con] = [kind |-> "content", refs |-> {}, page |-> k]]
              o3 == [o2 EXCEPT ![pid] = [kind |-> "page", page |-> k,
                                         refs |-> {tree, con} \cup (IF "page_without_resources_ref" \in Dev THEN {} ELSE {res})]]
          IN /\ objs' = o3 /\ next' = next + 2 /\ k' = k + 1 /\ UNCHANGED pc
  /\ UNCHANGED <<pages, info, tree, kidsOf, catalog, size, xrefId>>

CreateCatalog ==
  /\ pc = "catalog"
  /\ catalog' = next
  /\ objs' = Put(next, "catalog", {tree}, 0)
  /\ next' = next + 1
  /\ pc' = "save"
  /\ UNCHANGED <<pages, info, k, tree, kidsOf, size, xrefId>>

\* save: size = refs.len() + 2; trailer.to_dict creates the indirect /Info; promise of the xref stream; write
Save ==
  /\ pc = "save"
  /\ size' = IF "size_too_small" \in Dev THEN next ELSE next + 2
  /\ LET withInfo == IF info = "none" THEN objs ELSE Put(next, "info", {}, 0)
         x == IF info = "none" THEN next ELSE next + 1
     IN /\ objs' = [withInfo EXCEPT ![x] = [kind |-> "xref", refs |-> {catalog} \cup (IF info = "none" THEN {} ELSE {next}), page |-> 0]]
        /\ xrefId' = x
        /\ next' = x + 1
  /\ pc' = "done"
  /\ UNCHANGED <<pages, info, k, tree, kidsOf, catalog>>

Init ==
  /\ pages = <<>> /\ info = "none" /\ pc = "input" /\ k = 1 /\ next = 1
  /\ objs = [i \in Ids |-> NoObj]
  /\ tree = 0 /\ kidsOf = <<>> /\ catalog = 0 /\ size = 0 /\ xrefId = 0

Next == ChooseInput \/ PromiseAndTree \/ BuildPage \/ CreateCatalog \/ Save
Spec == Init /\ [][Next]_vars

-----------------------------------------------------------------------------
Written == {i \in Ids : objs[i].kind \notin {"none", "promised"}}
\* C10 structural part
NoDanglingRefs == pc = "done" => \A i \in Written : objs[i].refs \subseteq Written
NothingPromised == pc = "done" => \A i \in Ids : objs[i].kind # "promised"
SizeAboveAll == pc = "done" => \A i \in Written : i < size
\* C10 reload part: walking catalog -> tree -> kids yields the input pages in order, each with its content and resources
PagesReadBack ==
  pc = "done" =>
    /\ objs[catalog].refs = {tree}
    /\ \A j \in 1..Len(pages) :
         LET p == objs[kidsOf[j]] IN
         /\ p.kind = "page" /\ p.page = j
         /\ \E c \in p.refs : objs[c].kind = "content" /\ objs[c].page = j
         /\ \E r \in p.refs : objs[r].kind = "resources" /\ objs[r].page = j
=============================================================================
