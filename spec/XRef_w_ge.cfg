\* witness: the deviation "merge_ge" must be refuted (NewestWins / AllVisited violated)
CONSTANTS
  NObj = 2
  MaxSections = 2
  AllowRestate = FALSE
  Dev = {"merge_ge"}
INIT Init
NEXT Next
INVARIANTS NewestWins AllVisited
CHECK_DEADLOCK FALSE
