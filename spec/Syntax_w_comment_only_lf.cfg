\* witness: all byte strings of length <= 5 over 12 representative bytes (SP FF NUL CR LF % / < > [ 1 a)
CONSTANTS
  Bytes = {32, 12, 0, 13, 10, 37, 47, 60, 62, 91, 49, 97}
  MaxLen = 3
  Dev = {"comment_only_lf"}
INIT Init
NEXT Next
INVARIANTS SameTokens CursorSafe
CHECK_DEADLOCK FALSE
