\* witness
CONSTANTS
  TagRequired = FALSE
  HasOther = TRUE
  Dev = {"empty_written_as_null"}
INIT Init
NEXT Next
INVARIANTS Preserves
CHECK_DEADLOCK FALSE
