------------------------------- MODULE Import -------------------------------
(***************************************************************************)
(* Importing a page into another document: pdf/src/build.rs Importer       *)
(* (clone_plainref / clone_ref / clone_rcref with the memo table `map`),   *)
(* PageBuilder::clone_page, pdf/src/content.rs deep_clone_op (resources    *)
(* are copied only for the names the operations use).                      *)
(*                                                                         *)
(* The source is a graph: objects 1..N with plain-reference edges; the     *)
(* page's extra entries refer to `roots`; the page's resources map names   *)
(* (one per category) to objects; `used` are the names its operations use. *)
(* Mech: the deep clone as an explicit call stack, one step per visit.     *)
(* Prop: termination (bounded stack), single copy, closure, and every used *)
(* resource present in the copy.                                           *)
(***************************************************************************)
EXTENDS Naturals, Sequences, FiniteSets, TLC

CONSTANTS N,            \* source objects 1..N
          Categories,   \* resource categories, e.g. {"gs", "font", "xobject", "colorspace"}
          Dev

Src == 1..N

VARIABLES edges,      \* Src -> SUBSET Src
          roots,      \* SUBSET Src: referenced from the page's extra entries
          resobj,     \* Categories -> 0..N: the page has a resource of that category (0 = none). For the category
                      \* "font" the value is the source object behind the resource (fonts are copied as plain
                      \* objects with everything they refer to); the other categories are typed leaf values.
          used,       \* SUBSET Categories: resources named by the page's operations
          phase,      \* "choose" | "clone" | "done"
          todo,       \* top-level objects still to clone (from roots and used resources)
          stack,      \* frames [obj, rest] (rest = children not yet visited)
          memo,       \* Src -> BOOLEAN: an id of the new document is known for this source object
          copies,     \* Src -> how many objects of the new document were created for it
          copied,     \* Categories copied into the new page's resources
          inspected   \* the used resources of the source page were read (stream data decoded) through the source document,
                      \* which is opened with caches, before the import

vars == <<edges, roots, resobj, used, phase, todo, stack, memo, copies, copied, inspected>>

RECURSIVE SetSeq(_)
SetSeq(S) == IF S = {} THEN <<>> ELSE LET m == CHOOSE x \in S : \A y \in S : x <= y IN <<m>> \o SetSeq(S \ {m})

Choose ==
  /\ phase = "choose"
  /\ edges' \in [Src -> SUBSET Src]
  /\ roots' \in SUBSET Src
  /\ resobj' \in [Categories -> 0..N]
  /\ used' \in SUBSET {c \in Categories : resobj'[c] # 0}
  /\ LET pruned == {c \in used' : ~("unpruned:" \o c \in Dev)}      \* categories deep_clone_op knows about
     IN /\ copied' = pruned
        /\ todo' = SetSeq(roots' \cup {resobj'[c] : c \in pruned \cap {"font"}})
  /\ inspected' \in (IF "xobject" \in used' THEN BOOLEAN ELSE {FALSE})      \* (only stream resources have a cache entry to go stale)
  /\ phase' = "clone"
  /\ UNCHANGED <<stack, memo, copies>>

\* enter the clone of object o: look-up, (reserve), recurse over its references, create, (memo insert)
Enter(o) ==
  IF memo[o] THEN UNCHANGED <<stack, memo, copies>>                   \* already known: reuse
  ELSE /\ stack' = Append(stack, [obj |-> o, rest |-> SetSeq(edges[o])])
       /\ memo' = IF "memo_after_recursion" \in Dev THEN memo ELSE [memo EXCEPT ![o] = TRUE]   \* id reserved before recursing
       /\ UNCHANGED copies

Step ==
  /\ phase = "clone"
  /\ IF stack = <<>>
     THEN IF todo = <<>> THEN phase' = "done" /\ UNCHANGED <<todo, stack, memo, copies>>
          ELSE /\ Enter(Head(todo)) /\ todo' = Tail(todo) /\ UNCHANGED phase
     ELSE LET f == stack[Len(stack)] IN
          IF f.rest = <<>>
          THEN \* all references cloned: create the object, remember it
               /\ stack' = SubSeq(stack, 1, Len(stack) - 1)
               /\ copies' = [copies EXCEPT ![f.obj] = @ + 1]
               /\ memo' = [memo EXCEPT ![f.obj] = TRUE]
               /\ UNCHANGED <<todo, phase>>
          ELSE \* visit the next reference
               LET child == Head(f.rest)
                   popped == [stack EXCEPT ![Len(stack)] = [f EXCEPT !.rest = Tail(f.rest)]]
               IN IF memo[child]
                  THEN stack' = popped /\ UNCHANGED <<memo, copies, todo, phase>>
                  ELSE /\ stack' = Append(popped, [obj |-> child, rest |-> SetSeq(edges[child])])
                       /\ memo' = IF "memo_after_recursion" \in Dev THEN memo ELSE [memo EXCEPT ![child] = TRUE]
                       /\ UNCHANGED <<copies, todo, phase>>
  /\ UNCHANGED <<edges, roots, resobj, used, copied, inspected>>

Init ==
  /\ edges = [o \in Src |-> {}] /\ roots = {} /\ resobj = [c \in Categories |-> 0] /\ used = {}
  /\ phase = "choose" /\ todo = <<>> /\ stack = <<>>
  /\ memo = [o \in Src |-> FALSE] /\ copies = [o \in Src |-> 0] /\ copied = {} /\ inspected = FALSE

Next == Choose \/ Step
Spec == Init /\ [][Next]_vars

-----------------------------------------------------------------------------
RECURSIVE Reach(_, _)
Reach(S, fuel) == IF fuel = 0 THEN S ELSE Reach(S \cup UNION {edges[o] : o \in S}, fuel - 1)
Needed == Reach(roots \cup {resobj[c] : c \in used \cap {"font"}}, N)

\* C20: importing terminates (the clone never nests deeper than the number of source objects)
Terminates == Len(stack) <= N
\* shared source objects are copied once
SingleCopy == \A o \in Src : copies[o] <= 1
\* every reference in the new document points at an object of the new document
Closure == phase = "done" => \A o \in Src : copies[o] > 0 => \A c \in edges[o] : copies[c] > 0
\* for every resource name the operations use there is a resource in the copy (with all it refers to)
UsedResourcesCopied == phase = "done" => (used \subseteq copied /\ \A o \in Needed : copies[o] = 1)

\* the bytes of a copied stream are the source's stored bytes (they go with the source's /Filter entry): build.rs / stream.rs
\* deep clone reads them from the backend, not from the stream cache, which may hold the decoded form after an inspection
StreamBytes == IF "clone_reads_stream_cache" \in Dev /\ inspected /\ "xobject" \in used THEN "decoded" ELSE "stored"
ContentEqual == phase = "done" => StreamBytes = "stored"
Bounded == Len(stack) <= N + 1       \* state constraint for the witness runs
=============================================================================
