------------------------------ MODULE Dangling ------------------------------
(***************************************************************************)
(* References to missing or free objects: where the error originates       *)
(* (pdf/src/file.rs resolve_ref, pdf/src/xref.rs XRefTable::get), how it   *)
(* gets wrapped on its way up (Try by the t! macro, Shared by the typed    *)
(* load through the cache, FromPrimitive by derived readers), and the      *)
(* Option reader (pdf/src/object/mod.rs) that must turn it into "absent".  *)
(* An error value is a sequence of wrappers around a root cause.           *)
(***************************************************************************)
EXTENDS Naturals, Sequences, FiniteSets, TLC

CONSTANTS Kinds,      \* {"free", "beyond", "gap"}
          Carriers,   \* {"prim", "struct", "mayberef", "rcref", "vec", "lazy", "ref"}
          Modes,      \* {"strict", "tolerant"}
          Dev

VARIABLES kind, carrier, mode, optional,
          nested,   \* TRUE: the object with the dangling entry is itself the value of an OPTIONAL entry of an outer typed object
          pc,       \* "resolve" | "carry" | "option" | "field" | "outer" | "done"
          err,      \* current error value: [root, wraps] or NoErr
          outcome   \* "absent" | "err_named" | "err_unnamed" | "value"

vars == <<kind, carrier, mode, optional, nested, pc, err, outcome>>
NoErr == [root |-> "none", wraps |-> <<>>]

\* file.rs resolve_ref / xref.rs get: the root cause and the wrappers it is born with
Resolve ==
  /\ pc = "resolve"
  /\ err' = CASE kind = "free"   -> [root |-> "FreeObject", wraps |-> <<>>]
              [] kind = "gap"    -> [root |-> "NullRef", wraps |-> <<>>]
              [] kind = "beyond" -> [root |-> "UnspecifiedXRefEntry", wraps |-> <<"Try">>]
  /\ pc' = "carry"
  /\ UNCHANGED <<kind, carrier, mode, optional, nested, outcome>>

\* the field's type decides how the reference is followed
Carry ==
  /\ pc = "carry"
  /\ IF carrier \in {"lazy", "ref"}
     THEN \* not followed while the containing object is read
          /\ err' = NoErr /\ pc' = "field"
     ELSE /\ err' = IF carrier \in {"mayberef", "rcref"} THEN [err EXCEPT !.wraps = Append(@, "Shared")] ELSE err
          /\ pc' = IF optional THEN "option" ELSE "field"
  /\ UNCHANGED <<kind, carrier, mode, optional, nested, outcome>>

\* the wrappers a "this object is missing" error may carry.  FromPrimitive is NOT one of them: it says that an entry
\* INSIDE the object could not be read, i.e. the object itself exists
Transparent == IF "field_error_counts_as_missing" \in Dev THEN {"Try", "Shared", "FromPrimitive"} ELSE {"Try", "Shared"}
IsMissing(e) ==
  IF "option_matches_only_unwrapped" \in Dev
  THEN e.wraps = <<>> /\ e.root \in {"NullRef", "FreeObject"}
  ELSE e.root \in {"NullRef", "FreeObject", "UnspecifiedXRefEntry"} /\ \A i \in 1..Len(e.wraps) : e.wraps[i] \in Transparent

\* object/mod.rs Option reader
OptionRead ==
  /\ pc = "option"
  /\ IF IsMissing(err) \/ mode = "tolerant" THEN err' = NoErr ELSE UNCHANGED err
  /\ pc' = "field"
  /\ UNCHANGED <<kind, carrier, mode, optional, nested, outcome>>

\* derived reader: an error of a field is wrapped with the field's name
Field ==
  /\ pc = "field"
  /\ IF nested /\ err # NoErr
     THEN \* the error leaves the inner object's reader wrapped with the entry's name and reaches the outer Option reader
          /\ err' = [err EXCEPT !.wraps = Append(@, "FromPrimitive")]
          /\ pc' = "outer" /\ UNCHANGED outcome
     ELSE /\ outcome' = IF err = NoErr THEN (IF carrier \in {"lazy", "ref"} THEN "value" ELSE "absent") ELSE "err_named"
          /\ pc' = "done" /\ UNCHANGED err
  /\ UNCHANGED <<kind, carrier, mode, optional, nested>>

\* the outer object's Option reader sees an error of an entry of the inner object: the inner object is not missing
OuterOption ==
  /\ pc = "outer"
  /\ outcome' = IF IsMissing(err) \/ mode = "tolerant" THEN "absent" ELSE "err_named"
  /\ pc' = "done"
  /\ UNCHANGED <<kind, carrier, mode, optional, nested, err>>

Init ==
  /\ kind \in Kinds /\ carrier \in Carriers /\ mode \in Modes /\ optional \in BOOLEAN
  /\ nested \in BOOLEAN /\ (nested => ~optional /\ carrier \notin {"lazy", "ref"})     \* nesting matters for a REQUIRED followed entry of the inner object
  /\ pc = "resolve" /\ err = NoErr /\ outcome = "none"

Next == Resolve \/ Carry \/ OptionRead \/ Field \/ OuterOption
Spec == Init /\ [][Next]_vars

-----------------------------------------------------------------------------
\* C18: optional entry => absent (or an unfollowed reference); required entry => an error naming the entry
\* (a tolerant outer reader drops an optional entry whose value cannot be read at all: that is what tolerant means)
Expected == IF carrier \in {"lazy", "ref"} THEN "value" ELSE IF optional THEN "absent"
            ELSE IF nested /\ mode = "tolerant" THEN "absent" ELSE "err_named"
DanglingIsNull == pc = "done" => outcome = Expected
=============================================================================
