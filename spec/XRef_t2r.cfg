\* thorough: all histories <= 4 sections over objects 1..2 with restating
CONSTANTS
  NObj = 2
  MaxSections = 4
  AllowRestate = TRUE
  Dev = {}
INIT Init
NEXT Next
INVARIANTS TypeOK NewestWins TrailerNewest AllVisited GhostOK GensMonotone Emit
CHECK_DEADLOCK FALSE
