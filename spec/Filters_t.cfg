\* thorough: hex <= 6, ascii85 <= 8, predictor samples {0,1,2,127,128,254,255}
CONSTANTS
  Parts = {"hex", "a85", "rl", "pred", "chain"}
  MaxHex = 6
  MaxA85 = 8
  MaxRuns = 3
  Samples = {0, 1, 2, 127, 128, 254, 255}
  RowLen = 3
  Dev = {}
INIT Init
NEXT Next
INVARIANTS HexOk A85Ok RLOk PredOk ChainOk
CHECK_DEADLOCK FALSE
