\* thorough (10 separators): all atoms in all variants x contexts x separators; arrays, dictionaries and nested containers of 2 atoms (2 variants each)
CONSTANTS
  Kinds <- MC_Kinds
  NVar <- MC_NVar
  Seps <- MC_Seps
  Contexts = {"eof", "int", "name", "endobj", "operator"}
  Dev = {}
INIT Init
NEXT Next
INVARIANTS LibSplitsWhereLegal PrinterLegal Emit
CHECK_DEADLOCK FALSE
