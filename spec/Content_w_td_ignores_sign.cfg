\* witness
CONSTANTS
  Alphabet <- MergeAlphabet
  MaxLen = 2
  Dev = {"td_ignores_sign"}
INIT Init
NEXT Next
INVARIANTS RoundTrip
CHECK_DEADLOCK FALSE
