\* intended design, liveness under weak fairness
CONSTANTS
  Threads <- T2
  Keys <- K3
  DirectKeys = {}
  MaxRepeats = 2
  DepsOpts <- AllGraphs
  LoadsOpts <- W2_2
  SharedOpts = {TRUE, FALSE}
  CacheOpts = {TRUE, FALSE}
  Dev = {}
SPECIFICATION FairSpec
PROPERTY Termination
CHECK_DEADLOCK TRUE
