--------------------------- MODULE MC_FileLayout ---------------------------
EXTENDS FileLayout, Json
CaseJson == [h |-> h, kind |-> kind, tail |-> tail]
Emit == pc = "done" => PrintT(<<"CASE", ToJson(CaseJson)>>)
D_startxref  == {<<"ignores_header", "startxref">>}
D_prev       == {<<"ignores_header", "prev">>}
D_entry      == {<<"ignores_header", "entry">>}
D_streamdata == {<<"ignores_header", "streamdata">>}
D_scan       == {<<"ignores_header", "scan">>}
MC_AllHeaders == 0..1019
D_naive      == {<<"naive_header_search", "header">>}
=============================================================================
