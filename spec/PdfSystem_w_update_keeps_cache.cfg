\* intended design: up to 3 sessions, 8 calls, 3 saves over 3 base objects + 2 created
CONSTANTS
  NBase = 3
  MaxNew = 2
  Vals = {"I1", "I2"}
  MaxCalls = 8
  MaxSessions = 3
  MaxSaves = 3
  CacheModes = {TRUE, FALSE}
  Dev = {"update_keeps_cache"}
INIT Init
NEXT Next
VIEW View
INVARIANTS SessionView GetAnswers Durable

CHECK_DEADLOCK FALSE
