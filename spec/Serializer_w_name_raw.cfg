\* witness
CONSTANTS
  StrClasses = {"print", "lparen", "rparen", "bslash", "cr", "lf", "nul", "high"}
  NameClasses = {"reg", "space", "hash", "delim", "high"}
  NumClasses = {"int", "intmin", "intlike-real", "bigreal", "frac", "tiny", "negzero"}
  Placements = {"objbody", "dictvalue", "arrayelem", "operand"}
  Dev = {"name_raw"}
INIT Init
NEXT Next
INVARIANTS NamesRoundTrip
CHECK_DEADLOCK FALSE
