------------------------------- MODULE Schema -------------------------------
(***************************************************************************)
(* C14 - hostile but well-formed object graphs.                            *)
(*                                                                         *)
(* A schema fragment is data: a handful of objects, the reference slots    *)
(* through which typed loading / walking follows references, and the       *)
(* numeric slots whose values drive loops, allocations, indices or         *)
(* arithmetic.  The specification assigns EVERY reference slot to EVERY    *)
(* object of the fragment and every numeric slot every boundary value,     *)
(* and then runs the traversal the library performs:                       *)
(*                                                                         *)
(*   follow modes (how pdf-rs follows a reference slot)                    *)
(*     "guarded"  through Resolve::get -> StorageResolver::get, whose      *)
(*                per-thread stack of keys turns re-entry into an error    *)
(*                (file.rs:313-345)                                        *)
(*     "budget"   an explicit depth counter carried by the recursion       *)
(*                (page tree 16, colour space 5, Primitive::resolve depth, *)
(*                parser nesting 20, /Prev chain `seen` list)              *)
(*     "walk"     NameTree::walk / NumberTree::walk: the typed load of     *)
(*                the kid has returned before the walk descends, so the    *)
(*                resolver's guard stack is empty again; the walk keeps    *)
(*                its own set of visited nodes and refuses a node it has   *)
(*                seen (a depth budget alone would still allow 2^depth     *)
(*                work on  Kids [A A]);  deviation walk_unguarded: no set  *)
(*     "lazy"     Ref<T> / Lazy<T>: not followed by the load; followed     *)
(*                one step at a time by explicit calls                     *)
(*     "leaf"     resolved one step and parsed as a value without          *)
(*                reference fields (widths array, lookup table, dest)      *)
(*                                                                         *)
(*   numeric uses                                                          *)
(*     "loop"     iterations or allocation proportional to the value       *)
(*     "index"    used as an index / slice bound                           *)
(*     "arith"    added to / subtracted from / multiplied with another     *)
(*     "plain"    only stored or compared                                  *)
(*                                                                         *)
(* Prop: every traversal ends with "ok" or "err", with the stack bounded   *)
(* by (number of objects + the largest budget), and work bounded.          *)
(* Mech: the guards above.  Dev switches remove one guard each.            *)
(***************************************************************************)
EXTENDS Naturals, Integers, Sequences, FiniteSets, TLC

CONSTANTS
  Fragments,      \* set of fragment records, see MC_Schema
  Values,         \* names of the boundary values
  Dev,            \* deviation switches
  MaxWork,        \* work bound
  NumK,           \* at most NumK numeric slots deviate from their sane value at once
  Cross,          \* TRUE: additionally every reference assignment x every single numeric deviation
  Uniform         \* value names v: additionally every reference assignment x (all numeric slots = v) - sums of extremes

VARIABLES
  frag,      \* the fragment under analysis
  refs,      \* reference slot name -> target object
  nums,      \* numeric slot name -> boundary value name
  phase,     \* "assign" | "run" | "lazy" | "done"
  stack,     \* sequence of frames [obj, next, budget]: object, index of the next slot to follow, remaining budget
  guard,     \* objects on the resolver's per-thread guard stack (= objects of frames entered through "guarded")
  result,    \* "none" | "ok" | "err" | "overflow" | "panic" | "hang"
  work,      \* number of follow steps so far
  lazyTodo,  \* lazily referenced objects not yet stepped to
  walked,    \* nodes a tree walk has descended into
  lazyDone,  \* objects already stepped to through lazy links
  shift,     \* TRUE: junk bytes precede the header (fragments about the file layout only); offsets are header-relative,
             \* so nothing of the traversal may depend on it
  base,      \* number of budgeted descents below the current bottom frame (real recursion depth = base + Len(stack))
  deepest    \* deepest stack seen (history)

vars == <<frag, refs, nums, shift, phase, stack, guard, result, work, lazyTodo, lazyDone, walked, base, deepest>>

SlotNames(f) == {s.name : s \in f.slots}
NumNames(f)  == {s.name : s \in f.nums}
SlotsOf(f, o) == {s \in f.slots : s.from = o}
\* slots of an object in a fixed order (by ord)
RECURSIVE Ordered(_)
Ordered(S) == IF S = {} THEN <<>> ELSE LET m == CHOOSE s \in S : \A t \in S : s.ord <= t.ord IN <<m>> \o Ordered(S \ {m})
OutSlots(f, o) == Ordered(SlotsOf(f, o))

BudgetOf(s) == s.budget
MaxBudget(f) == LET B == {BudgetOf(s) : s \in f.slots} \cup {0} IN CHOOSE b \in B : \A c \in B : c <= b
StackBoundOf(f) == Cardinality(f.objs) + MaxBudget(f) + 1

\* --------------------------------------------------------------------- numeric slots
\* outcome of one numeric use for a boundary value: "ok" | "err" | "panic" | "hang"
IsHuge(v) == v \in {"i32max", "u32max", "u64max"}
NumOutcome(s, v) ==
  LET unchecked == ("unchecked:" \o s.use) \in Dev
  IN CASE s.use = "plain" \/ v = "sane" -> "ok"
       [] s.use = "loop"  -> IF v = "neg" THEN (IF unchecked THEN "panic" ELSE "err")
                             ELSE IF IsHuge(v) THEN (IF unchecked THEN "hang" ELSE "err") ELSE "ok"
       [] s.use = "index" -> IF v = "neg" \/ IsHuge(v) THEN (IF unchecked THEN "panic" ELSE "err") ELSE "ok"
       [] s.use = "arith" -> IF v = "neg" \/ IsHuge(v) THEN (IF unchecked THEN "panic" ELSE "err") ELSE "ok"
Worst(S) == IF "hang" \in S THEN "hang" ELSE IF "panic" \in S THEN "panic" ELSE IF "err" \in S THEN "err" ELSE "ok"
NumResult(f, n) == Worst({NumOutcome(s, n[s.name]) : s \in f.nums})

\* --------------------------------------------------------------------- choose
DefaultRefs(f) == [n \in SlotNames(f) |-> (CHOOSE s \in f.slots : s.name = n).dflt]
SaneNums(f) == [n \in NumNames(f) |-> "sane"]
AtMost(f, k) == {n \in [NumNames(f) -> Values] : Cardinality({s \in NumNames(f) : n[s] # "sane"}) <= k}
Frame(o, b, v) == [obj |-> o, next |-> 1, budget |-> b, via |-> v]
Init ==
  /\ frag \in Fragments
  /\ \/ refs \in [SlotNames(frag) -> frag.tgts] /\ nums = SaneNums(frag)
     \/ refs = DefaultRefs(frag) /\ nums \in AtMost(frag, NumK)
     \/ Cross /\ refs \in [SlotNames(frag) -> frag.tgts] /\ nums \in AtMost(frag, 1)
     \/ \E v \in Uniform : refs \in [SlotNames(frag) -> frag.tgts] /\ nums = [n \in NumNames(frag) |-> v]
  /\ shift \in (IF frag.layoutlevel THEN BOOLEAN ELSE {FALSE})
  /\ phase = "run"
  /\ stack = <<Frame(frag.entry, -1, "entry")>>
  /\ guard = {frag.entry}
  /\ result = "none"
  /\ work = 0
  /\ lazyTodo = {}
  /\ lazyDone = {frag.entry}
  /\ walked = {frag.entry}
  /\ base = 0
  /\ deepest = 1

Top == stack[Len(stack)]
Pop == SubSeq(stack, 1, Len(stack) - 1)
Advance == [Pop EXCEPT ![Len(Pop)].next = @ + 1]
Depth == base + Len(stack)

Finish(r) ==
  /\ result' = r
  /\ phase' = "done"
  /\ stack' = <<>>
  /\ guard' = {}
  /\ UNCHANGED <<frag, refs, nums, shift, work, lazyTodo, lazyDone, walked, base, deepest>>

\* the numeric parameters of the fragment are consumed when the entry object is loaded
NumStep ==
  /\ phase = "run" /\ work = 0 /\ NumResult(frag, nums) # "ok"
  /\ Finish(NumResult(frag, nums))

\* follow the next slot of the top frame.  Typed loads recurse through "guarded" slots and tree walks through
\* "walk" slots; "budget" slots are not followed by a load (they are lazy there) but by the explicit descent below.
Follow ==
  /\ phase = "run" /\ stack # <<>>
  /\ (work > 0 \/ NumResult(frag, nums) = "ok")
  /\ LET t == Top
         out == OutSlots(frag, t.obj)
     IN /\ t.next <= Len(out)
        /\ LET s == out[t.next]
               tgt == refs[s.name]
               push(g, v) == /\ stack' = Append(stack, Frame(tgt, t.budget, v))
                             /\ guard' = (IF g THEN guard \cup {tgt} ELSE guard)
                             /\ work' = work + 1
                             /\ deepest' = IF Depth + 1 > deepest THEN Depth + 1 ELSE deepest
                             /\ UNCHANGED <<frag, refs, nums, shift, phase, result, lazyTodo, lazyDone, base>>
               skip == /\ stack' = [stack EXCEPT ![Len(stack)].next = @ + 1]
                       /\ work' = work + 1
                       /\ UNCHANGED <<frag, refs, nums, shift, phase, result, guard, lazyDone, walked, base, deepest>>
           IN CASE s.mode = "lazy" -> skip /\ lazyTodo' = lazyTodo \cup ({tgt} \ lazyDone)
                [] s.mode \in {"leaf", "budget"} -> skip /\ lazyTodo' = lazyTodo
                [] s.mode = "guarded" ->
                     IF tgt \in guard /\ "no_guard" \notin Dev THEN Finish("err")
                     ELSE push(TRUE, "guarded") /\ walked' = walked
                [] s.mode = "walk" ->
                     \* the kid's typed load is guarded, but has returned (guard popped) before the descent
                     IF tgt \in walked /\ "walk_unguarded" \notin Dev THEN Finish("err")
                     ELSE push(FALSE, "walk") /\ walked' = walked \cup {tgt}

\* all slots of the top frame are done
Return ==
  /\ phase = "run" /\ Len(stack) > 1
  /\ Top.next > Len(OutSlots(frag, Top.obj))
  /\ stack' = Advance
  /\ guard' = IF Top.via = "guarded" THEN guard \ {Top.obj} ELSE guard
  /\ UNCHANGED <<frag, refs, nums, shift, phase, result, work, lazyTodo, lazyDone, walked, base, deepest>>

BottomDone == /\ phase = "run" /\ Len(stack) = 1
              /\ (work > 0 \/ NumResult(frag, nums) = "ok")
              /\ Top.next > Len(OutSlots(frag, Top.obj))

\* the explicit descent (get_page through /Kids, colour space bases, reference chains, /Prev chains): one budget slot of
\* the current object is chosen (by page number, by kind ...), the recursion goes one level deeper and the budget shrinks
Descend ==
  /\ BottomDone
  /\ \E s \in SlotsOf(frag, Top.obj) :
       /\ s.mode = "budget"
       /\ LET b == (IF Top.budget < 0 THEN s.budget ELSE Top.budget) - 1
              tgt == refs[s.name]
          IN IF b < 0 /\ "no_budget" \notin Dev THEN Finish("err")
             ELSE /\ stack' = <<Frame(tgt, (IF b < 0 THEN 0 ELSE b), "budget")>>
                  /\ guard' = {tgt}
                  /\ base' = base + 1
                  /\ work' = work + 1
                  /\ deepest' = IF Depth + 1 > deepest THEN Depth + 1 ELSE deepest
                  /\ UNCHANGED <<frag, refs, nums, shift, phase, result, lazyTodo, lazyDone, walked>>

\* ... or the descent ends here (the page was found, the base is a device space, the chain ends in a value)
Stop ==
  /\ BottomDone
  /\ stack' = <<>> /\ guard' = {}
  /\ phase' = IF lazyTodo = {} THEN "done" ELSE "lazy"
  /\ result' = IF lazyTodo = {} THEN "ok" ELSE result
  /\ UNCHANGED <<frag, refs, nums, shift, work, lazyTodo, lazyDone, walked, base, deepest>>

\* an explicit call steps to one lazily referenced object; callers step to each object at most once (visited set / step limit)
LazyStep ==
  /\ phase = "lazy"
  /\ \E o \in lazyTodo :
       /\ lazyTodo' = lazyTodo \ {o}
       /\ lazyDone' = lazyDone \cup {o}
       /\ stack' = <<Frame(o, -1, "entry")>>
       /\ guard' = {o}
       /\ phase' = "run"
       /\ work' = work + 1
       /\ walked' = {o}
       /\ base' = 0
       /\ UNCHANGED <<frag, refs, nums, shift, result, deepest>>

Done == phase = "done" /\ UNCHANGED vars

Next == NumStep \/ Follow \/ Return \/ Descend \/ Stop \/ LazyStep \/ Done
Spec == Init /\ [][Next]_vars /\ WF_vars(NumStep \/ Follow \/ Return \/ Stop \/ LazyStep)

\* --------------------------------------------------------------------- properties
TypeOK == /\ phase \in {"run", "lazy", "done"}
          /\ result \in {"none", "ok", "err", "panic", "hang"}
\* C14: the stack stays bounded by the objects of the fragment plus the largest budget
StackBounded == base + Len(stack) <= StackBoundOf(frag)
\* C14: every traversal ends in a value or an error
OutcomeOk == phase = "done" => result \in {"ok", "err"}
\* C14: work proportional to the fragment (each follow step is bounded by objects x slots x budget)
WorkBounded == work <= MaxWork
Terminates == <>(phase = "done")

WorkConstraint == work <= MaxWork + 1 /\ base + Len(stack) <= StackBoundOf(frag) + 1
=============================================================================
