\* random walks <= 12 calls
CONSTANTS
  BaseRaw = {1}
  BaseCmp = {2}
  BaseStm = {3}
  MaxNew = 3
  WVals <- MC_WVals
  MaxCalls = 12
  MaxSaves = 4
  Headers = {0, 7}
  CacheModes = {TRUE, FALSE}
  Dev <- AsBuilt
INIT Init
NEXT Next
VIEW View
INVARIANT Emit
CHECK_DEADLOCK FALSE
