\* quick: all /W arrays of <= 3 groups (length <= 2) over codes 0..5, any order
CONSTANTS
  MaxCode = 5
  MaxGroups = 3
  MaxLen = 2
  Default = 99
  Dev = {}
INIT Init
NEXT Next
INVARIANTS Represents Emit
CHECK_DEADLOCK FALSE
