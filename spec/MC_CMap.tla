------------------------------ MODULE MC_CMap ------------------------------
EXTENDS CMap, Json
\* targets: "A", "B", "AB", U+1F600 (surrogate pair)
MC_Targets == {<<65>>, <<66>>, <<65, 66>>, <<55357, 56832>>}
MC_Targets2 == {<<65>>, <<55357, 56832>>}
EntryJson(e) == [k |-> e.k, sec |-> e.sec, lo |-> e.lo, hi |-> e.hi, us |-> e.us]
CaseJson == [mode |-> mode,
             text |-> [i \in 1..Len(text) |-> EntryJson(text[i])],
             ideal |-> [c \in 1..(MaxCode + 1) |-> src[c - 1]],
             mech  |-> [c \in 1..(MaxCode + 1) |-> rmap[c - 1]]]
Emit == (Done /\ (mode = "rt" \/ Len(text) >= 1)) => PrintT(<<"CASE", ToJson(CaseJson)>>)
=============================================================================
