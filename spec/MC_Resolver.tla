--------------------------- MODULE MC_Resolver ---------------------------
(* TLC-only: configurations and schedule emission for Engine C. *)
EXTENDS Resolver, Json

K3 == {1, 2, 3}
\* dependency graphs realisable with /Parent links of page-tree nodes (at most one eager dependency per key)
G_indep == (1 :> <<>>)  @@ (2 :> <<>>)  @@ (3 :> <<>>)
G_chain == (1 :> <<2>>) @@ (2 :> <<3>>) @@ (3 :> <<>>)
G_join  == (1 :> <<3>>) @@ (2 :> <<3>>) @@ (3 :> <<>>)
G_cycle == (1 :> <<2>>) @@ (2 :> <<1>>) @@ (3 :> <<1>>)
G_self  == (1 :> <<1>>) @@ (2 :> <<1>>) @@ (3 :> <<>>)
\* fan-out (two eager dependencies): model-checked, not replayed
G_fan   == (1 :> <<2, 3>>) @@ (2 :> <<3>>) @@ (3 :> <<>>)
G_cyc3  == (1 :> <<2, 3>>) @@ (2 :> <<3>>) @@ (3 :> <<1>>)

\* graphs with key 4, a leaf reached as a direct typed entry given by reference (an ExtGState in a node's resources):
\* after the parent (typed get) in the order in which the node's entries are decoded
K4 == {1, 2, 3, 4}
D4 == {4}
G_dir     == (1 :> <<4>>)    @@ (2 :> <<4>>) @@ (3 :> <<4>>) @@ (4 :> <<>>)
G_dirpar  == (1 :> <<2, 4>>) @@ (2 :> <<4>>) @@ (3 :> <<>>)  @@ (4 :> <<>>)
G_dircyc  == (1 :> <<2, 4>>) @@ (2 :> <<1>>) @@ (3 :> <<4>>) @@ (4 :> <<>>)
DirectGraphs == {G_dir, G_dirpar, G_dircyc}
W_dir == {(1 :> <<1, 2>>) @@ (2 :> <<3>>), (1 :> <<1, 1>>) @@ (2 :> <<3, 2>>), (1 :> <<3, 1>>) @@ (2 :> <<1>>)}
W_dir3 == {(1 :> <<1, 2>>) @@ (2 :> <<3>>) @@ (3 :> <<2, 3>>)}

AcyclicGraphs == {G_indep, G_chain, G_join}
CyclicGraphs  == {G_cycle, G_self}
AllGraphs     == AcyclicGraphs \cup CyclicGraphs
FanGraphs     == {G_fan, G_cyc3}

\* workloads
T2 == {1, 2}
T3 == {1, 2, 3}
W2_1 == {(1 :> <<a>>) @@ (2 :> <<b>>) : a \in K3, b \in K3}                  \* 2 threads x 1 load
W2_2 == {(1 :> <<1, 2>>) @@ (2 :> <<2, 1>>), (1 :> <<1, 3>>) @@ (2 :> <<3, 2>>), (1 :> <<2, 2>>) @@ (2 :> <<1, 3>>)}
W3_1 == {(1 :> <<1>>) @@ (2 :> <<2>>) @@ (3 :> <<3>>), (1 :> <<1>>) @@ (2 :> <<1>>) @@ (3 :> <<2>>), (1 :> <<2>>) @@ (2 :> <<2>>) @@ (3 :> <<2>>)}
W2_3 == {(1 :> <<1, 2, 3>>) @@ (2 :> <<3, 2, 1>>)}

\* one thread repeats a top-level load while the other has a load in progress
W_rep == {(1 :> <<1>>) @@ (2 :> <<2, 2, 2, 2>>), (1 :> <<1, 1>>) @@ (2 :> <<1, 1, 1, 1>>)}
G_rep == {G_chain, G_indep}
W_mc2 == W2_1 \cup W2_2
W_sim == W2_3 \cup W2_2
G_mc  == AllGraphs \cup FanGraphs
\* quick subset for the all-interleavings run
W2_1q == {(1 :> <<1>>) @@ (2 :> <<2>>)}
G_q   == {G_chain, G_cycle}

AsBuilt == {"cache_wait_unbounded"}

End == IF panicked THEN "panic" ELSE IF AllDone THEN "done" ELSE IF Stuck THEN "deadlock" ELSE "running"

\* configurations in which the as-built compute-once cache can deadlock (refuted design: Resolver_w_cache_wait.cfg)
DeadlockProne == CacheOn /\ "cache_wait_unbounded" \in Dev /\ \E k \in Keys : ReachesCycle(k, {})

CaseJson == [threads |-> Cardinality(Threads),
             deps    |-> [k \in 1..Cardinality(Keys) |-> Deps[k]],
             direct  |-> [k \in 1..Cardinality(Keys) |-> k \in DirectKeys],
             loads   |-> [t \in 1..Cardinality(Threads) |-> Loads[t]],
             shared  |-> SharedResolver, cacheOn |-> CacheOn,
             sched   |-> sched,
             ideal   |-> [t \in 1..Cardinality(Threads) |-> [j \in 1..Len(Loads[t]) |-> SeqAnswer(Loads[t][j])]],
             mech    |-> [t \in 1..Cardinality(Threads) |-> results[t]],
             endst   |-> End, dlprone |-> DeadlockProne,
             dev     |-> Dev]

\* one line per terminal state (all behaviours mode: sched is part of the state; cover mode: one path per state)
Emit == (AllDone \/ panicked \/ Stuck) => PrintT(<<"CASE", ToJson(CaseJson)>>)
\* cover mode additionally prints the path to every distinct state so that every transition is replayed
EmitAll == PrintT(<<"CASE", ToJson(CaseJson)>>)
=============================================================================
