SPECIFICATION Spec
CONSTANTS
  Layouts <- LayoutsAllCuts
  Stages <- MCStages
  MaxFaults = 1
  Dev = {"unchecked:stream"}
INVARIANTS TypeOK OutcomeOk Bounded

CHECK_DEADLOCK FALSE
