\* witness
CONSTANTS
  Kinds = {"free", "beyond", "gap"}
  Carriers = {"prim", "struct", "mayberef", "rcref", "vec", "lazy", "ref"}
  Modes = {"strict", "tolerant"}
  Dev = {"option_matches_only_unwrapped"}
INIT Init
NEXT Next
INVARIANTS DanglingIsNull
CHECK_DEADLOCK FALSE
