------------------------------- MODULE MC_Kdf -------------------------------
EXTENDS Kdf, Json
CaseJson == [kdf |-> TRUE, role |-> role, pattern |-> pattern, stop |-> refStop]
Emit == (refStop # 0 /\ RefStops(pattern[Len(pattern)])) => PrintT(<<"CASE", ToJson(CaseJson)>>)
=============================================================================
