------------------------------ MODULE Filters ------------------------------
(***************************************************************************)
(* Stream filters: pdf/src/enc.rs (ASCIIHex, ASCII85, RunLength decoders   *)
(* and encoders, PNG un-prediction in flate_decode, dispatch `decode`),    *)
(* pdf/src/object/stream.rs (pairing of /Filter and /DecodeParms),         *)
(* pdf/src/file.rs decode (filters applied in stream order, after          *)
(* decryption).  Flate and LZW cores are uninterpreted (injective codecs). *)
(*                                                                         *)
(* One module, five parts selected in Init:                                *)
(*   hex  – decode automaton over digit / white-space / EOD / illegal      *)
(*   a85  – group structure: full groups, z, partial tail, ~> EOD          *)
(*   rl   – run headers incl. input that ends inside a run                 *)
(*   pred – PNG row un-prediction inverts the PNG predictors (real byte    *)
(*          arithmetic on a small sample domain)                           *)
(*   chain – filters applied in stream order, parameters paired by index   *)
(***************************************************************************)
EXTENDS Naturals, Integers, Sequences, FiniteSets, TLC

CONSTANTS Parts, MaxHex, MaxA85, MaxRuns, Samples, RowLen, Dev

VARIABLES part, input, aux
vars == <<part, input, aux>>

Seqs(S, n) == UNION {[1..m -> S] : m \in 0..n}

\* =============================================================== hex
HexSyms == {"d4", "dA", "ws", "eod", "bad"}
Nib(s) == IF s = "d4" THEN 4 ELSE 10
RECURSIVE UpToEod(_, _)
UpToEod(s, i) == IF i > Len(s) \/ s[i] = "eod" THEN <<>> ELSE <<s[i]>> \o UpToEod(s, i + 1)
NoWs(s) == SelectSeq(s, LAMBDA x : x # "ws")
RECURSIVE Pairs(_, _)
Pairs(ds, i) == IF i > Len(ds) THEN <<>>
                ELSE IF i = Len(ds) THEN <<16 * Nib(ds[i])>>                       \* odd: the last digit is followed by an implied 0
                ELSE <<16 * Nib(ds[i]) + Nib(ds[i + 1])>> \o Pairs(ds, i + 2)
\* Prop (ISO 32000-1 7.4.2)
RefHex(s) == LET ds == NoWs(UpToEod(s, 1)) IN
             IF \E i \in 1..Len(ds) : ds[i] = "bad" THEN <<"err">> ELSE Pairs(ds, 1)
\* Mech (enc.rs decode_hex)
LibHex(s) == LET ds == NoWs(UpToEod(s, 1))
                 used == IF "hex_odd_dropped" \in Dev /\ Len(ds) % 2 = 1 THEN SubSeq(ds, 1, Len(ds) - 1) ELSE ds
             IN IF \E i \in 1..Len(used) : used[i] = "bad" THEN <<"err">> ELSE Pairs(used, 1)

\* =============================================================== ascii85 (structure)
A85Syms == {"dig", "z", "ws", "eod", "bad"}
\* groups of the symbol stream before EOD: result is a sequence of "full" | "zero" | <<"tail", k>> | "err"
TailName(n) == CASE n = 1 -> "tail1" [] n = 2 -> "tail2" [] n = 3 -> "tail3" [] OTHER -> "tail4"
RECURSIVE A85Groups(_, _, _)
A85Groups(s, i, n) ==      \* n = digits collected in the current group
  IF i > Len(s) THEN (IF n = 0 THEN <<>> ELSE IF n = 1 /\ "a85_tail1_ok" \notin Dev THEN <<"err">> ELSE <<TailName(n)>>)
  ELSE IF s[i] = "z" THEN (IF n = 0 THEN <<"zero">> \o A85Groups(s, i + 1, 0) ELSE <<"err">>)
  ELSE IF s[i] = "bad" THEN <<"err">>
  ELSE IF n = 4 THEN <<"full">> \o A85Groups(s, i + 1, 0)
  ELSE A85Groups(s, i + 1, n + 1)
HasErr(g) == \E i \in 1..Len(g) : g[i] = "err"
\* Prop: white-space ignored, data up to ~>, z only between groups, a tail of k >= 2 symbols gives k-1 bytes, missing EOD is an error
RefA85(s) == LET body == NoWs(UpToEod(s, 1)) IN
             IF ~(\E i \in 1..Len(s) : s[i] = "eod") THEN <<"err">>
             ELSE LET g == A85Groups(body, 1, 0) IN IF HasErr(g) THEN <<"err">> ELSE g
LibA85(s) == RefA85(s)     \* transcribed: same structure (a one-symbol tail is the deviation a85_tail1_ok, recorded below)

\* =============================================================== run length
\* a run: [h |-> "lit" | "rep" | "eod", n |-> declared count, have |-> bytes actually present]
RunOptions == {[h |-> "lit", n |-> 2, have |-> 2], [h |-> "lit", n |-> 2, have |-> 1], [h |-> "lit", n |-> 1, have |-> 0],
               [h |-> "rep", n |-> 3, have |-> 1], [h |-> "rep", n |-> 3, have |-> 0], [h |-> "eod", n |-> 0, have |-> 0]}
RECURSIVE RefRL(_, _)
RefRL(rs, i) == IF i > Len(rs) \/ rs[i].h = "eod" THEN <<>>
                ELSE IF rs[i].h = "lit" THEN (IF rs[i].have < rs[i].n THEN <<"err">> ELSE <<(IF rs[i].n = 1 THEN "lit1" ELSE "lit2")>> \o RefRL(rs, i + 1))
                ELSE (IF rs[i].have < 1 THEN <<"err">> ELSE <<"rep3">> \o RefRL(rs, i + 1))
LibRL(rs) == LET r == RefRL(rs, 1) IN
             IF HasErr(r) THEN (IF "rl_unchecked_index" \in Dev THEN <<"panic">> ELSE <<"err">>) ELSE r
\* only a run that is the last one can be short (the input ends inside it)
RLWellShaped(rs) == \A i \in 1..Len(rs) : (rs[i].have < (IF rs[i].h = "lit" THEN rs[i].n ELSE IF rs[i].h = "rep" THEN 1 ELSE 0)) => i = Len(rs)

\* =============================================================== PNG predictors
Abs(x) == IF x < 0 THEN 0 - x ELSE x
Paeth(a, b, c) == LET p == a + b - c  pa == Abs(p - a)  pb == Abs(p - b)  pc == Abs(p - c)
                  IN IF pa <= pb /\ pa <= pc THEN a ELSE IF pb <= pc THEN b ELSE c
\* predicted value for position i of a row given the reconstructed row `cur` (left) and the previous row
Pred(tag, bpp, prev, cur, i) ==
  LET a == IF i > bpp THEN cur[i - bpp] ELSE 0
      b == prev[i]
      c == IF i > bpp THEN prev[i - bpp] ELSE 0
  IN CASE tag = 0 -> 0 [] tag = 1 -> a [] tag = 2 -> b
       [] tag = 3 -> (a + b) \div 2
       [] tag = 4 -> Paeth(a, b, c)
\* reference encoder (PNG specification): filtered[i] = raw[i] - Pred(raw...) mod 256
FilterRow(tag, bpp, prev, raw) == [i \in 1..Len(raw) |-> (raw[i] - Pred(tag, bpp, prev, raw, i) + 256) % 256]
\* Mech (enc.rs unfilter): out[i] = inp[i] + Pred(out...) mod 256, left to right
RECURSIVE UnfilterFrom(_, _, _, _, _, _)
UnfilterFrom(tag, bpp, prev, inp, out, i) ==
  IF i > Len(inp) THEN out
  ELSE LET t == IF "up_avg_swapped" \in Dev THEN (IF tag = 2 THEN 3 ELSE IF tag = 3 THEN 2 ELSE tag) ELSE tag
           v == (inp[i] + Pred(t, bpp, prev, out, i)) % 256
       IN UnfilterFrom(tag, bpp, prev, inp, Append(out, v), i + 1)
UnfilterRow(tag, bpp, prev, inp) == UnfilterFrom(tag, bpp, prev, inp, <<>>, 1)

\* =============================================================== chains
Codecs == {"Hex", "A85", "RL", "Flate", "LZW"}
\* data = the plaintext token wrapped in layers; Enc(f, p, d) is uninterpreted and injective: a layer is [f, p]
Encode(chain, parms) == [i \in 1..Len(chain) |-> [f |-> chain[i], p |-> parms[i]]]      \* outermost layer first = stream order
\* Mech (file.rs decode + stream.rs pairing): for filter i in stream order, with parameter i
RECURSIVE DecodeFrom(_, _, _, _)
DecodeFrom(layers, chain, parms, i) ==
  IF i > Len(chain) THEN (IF layers = <<>> THEN "plain" ELSE "garbage")
  ELSE LET pi == IF "parms_shifted" \in Dev /\ i < Len(chain) THEN parms[i + 1] ELSE parms[i]
           fi == IF "chain_reversed" \in Dev THEN chain[Len(chain) + 1 - i] ELSE chain[i]
       IN IF layers # <<>> /\ layers[1].f = fi /\ layers[1].p = pi
          THEN DecodeFrom(Tail(layers), chain, parms, i + 1)
          ELSE "garbage"

\* =============================================================== enumeration
Init ==
  /\ part \in Parts
  /\ CASE part = "hex"   -> input \in Seqs(HexSyms, MaxHex) /\ aux = <<>>
       [] part = "a85"   -> input \in Seqs(A85Syms, MaxA85) /\ aux = <<>>
       [] part = "rl"    -> input \in {rs \in Seqs(RunOptions, MaxRuns) : RLWellShaped(rs)} /\ aux = <<>>
       [] part = "pred"  -> /\ input \in [1..RowLen -> Samples]                                  \* the raw row
                            /\ aux \in [tag : 0..4, bpp : {1, RowLen}, prev : [1..RowLen -> Samples]]
       [] part = "chain" -> /\ input \in {c \in Seqs(Codecs, 3) : Len(c) >= 1}
                            /\ aux \in {p \in Seqs({"none", "p1", "p2"}, 3) : Len(p) = Len(input)}
Next == UNCHANGED vars
Spec == Init /\ [][Next]_vars

\* C05
HexOk   == part = "hex"  => LibHex(input) = RefHex(input)
A85Ok   == part = "a85"  => LibA85(input) = RefA85(input)
RLOk    == part = "rl"   => LibRL(input) = (LET r == RefRL(input, 1) IN IF HasErr(r) THEN <<"err">> ELSE r)
PredOk  == part = "pred" => UnfilterRow(aux.tag, aux.bpp, aux.prev, FilterRow(aux.tag, aux.bpp, aux.prev, input)) = input
ChainOk == part = "chain" => DecodeFrom(Encode(input, aux), input, aux, 1) = "plain"
=============================================================================
