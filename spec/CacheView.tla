----------------------------- MODULE CacheView -----------------------------
(***************************************************************************)
(* The object cache and the stream cache as seen through the read calls:   *)
(* pdf/src/file.rs StorageResolver::get (cache look-up keyed by reference, *)
(* type-checked downcast with uncached fallback, shared error entries) and *)
(* get_data_or_decode (stream cache keyed by reference; the caller passes  *)
(* the filter subset), pdf/src/object/stream.rs Stream::data,              *)
(* pdf/src/object/types.rs ImageXObject::raw_image_data / image_data.      *)
(*                                                                         *)
(* Prop: the answer to a call never depends on which calls came before:    *)
(* Answer = Uncached(call) in every reachable state, for every cache       *)
(* configuration.                                                          *)
(***************************************************************************)
EXTENDS Naturals, Sequences, FiniteSets, TLC

CONSTANTS Objs,        \* object references
          Types,       \* load types
          TypesOf,     \* Objs -> subset of Types: the types the calls load this object as
          Loads,       \* Objs -> [TypesOf -> "ok" | "err"]: uncached outcome of loading the object as a type
          Streams,     \* stream references (filter chain = normal prefix + image suffix)
          MaxCalls,
          ObjCacheOpts, StmCacheOpts,   \* subsets of BOOLEAN
          Dev

None == "none"
NoEntry == [st |-> "none", t |-> "-"]

VARIABLES ocOn, scOn,   \* configuration
          ocache,       \* Objs -> [st: "none" | "ok" | "err", t: type the entry was computed for]
          scache,       \* Streams -> None | "full" | "partial"
          ncalls,
          last,         \* [call, arg, typ, ans]
          path          \* history (all-behaviours mode: part of the state)

vars == <<ocOn, scOn, ocache, scache, ncalls, last, path>>

Rec(call, arg, typ, ans) ==
  /\ last' = [call |-> call, arg |-> arg, typ |-> typ, ans |-> ans]
  /\ path' = Append(path, [call |-> call, arg |-> arg, typ |-> typ, ans |-> ans])
  /\ ncalls' = ncalls + 1

-----------------------------------------------------------------------------
(* Prop: the uncached answers                                               *)
Uncached(call, arg, typ) ==
  CASE call = "get"      -> Loads[arg][typ]
    [] call = "resolve"  -> "ok"
    [] call = "data"     -> "full"
    [] call = "rawimage" -> "partial"
    [] call = "image"    -> "full"

-----------------------------------------------------------------------------
(* Mech                                                                     *)

\* Resolve::get::<T>(r)
GetAs(o, t) ==
  /\ ncalls < MaxCalls
  /\ LET e == ocache[o] IN
     IF ~ocOn \/ e.st = "none"
     THEN \* compute (and store, when the cache is on)
          /\ ocache' = IF ocOn THEN [ocache EXCEPT ![o] = [st |-> Loads[o][t], t |-> t]] ELSE ocache
          /\ Rec("get", o, t, Loads[o][t])
     ELSE IF e.st = "ok"
          THEN \* cached value: downcast; on a type mismatch the object is loaded uncached
               /\ UNCHANGED ocache
               /\ Rec("get", o, t, IF e.t = t THEN "ok" ELSE Loads[o][t])
          ELSE \* cached error
               /\ UNCHANGED ocache
               /\ Rec("get", o, t, IF "error_cached_across_types" \in Dev \/ e.t = t THEN "err" ELSE Loads[o][t])
  /\ UNCHANGED <<ocOn, scOn, scache>>

\* Resolve::resolve(r): never cached
Resolve(o) ==
  /\ ncalls < MaxCalls
  /\ Rec("resolve", o, "-", "ok")
  /\ UNCHANGED <<ocOn, scOn, ocache, scache>>

\* get_data_or_decode(id, range, filters) with `want` = what the caller's filter subset produces
Decode(s, want) ==
  IF ~scOn THEN want
  ELSE IF scache[s] = None THEN want
  ELSE IF "stream_cache_key_ignores_filters" \in Dev THEN scache[s] ELSE want

Fill(s, want) ==
  scache' = IF scOn /\ scache[s] = None THEN [scache EXCEPT ![s] = want] ELSE scache

\* Stream::data: all filters
Data(s) ==
  /\ ncalls < MaxCalls
  /\ Fill(s, "full")
  /\ Rec("data", s, "-", Decode(s, "full"))
  /\ UNCHANGED <<ocOn, scOn, ocache>>

\* ImageXObject::raw_image_data: only the filters before the image codec
RawImage(s) ==
  /\ ncalls < MaxCalls
  /\ Fill(s, "partial")
  /\ Rec("rawimage", s, "-", Decode(s, "partial"))
  /\ UNCHANGED <<ocOn, scOn, ocache>>

\* ImageXObject::image_data: raw_image_data, then the image codec on top
Image(s) ==
  /\ ncalls < MaxCalls
  /\ Fill(s, "partial")
  /\ Rec("image", s, "-", IF Decode(s, "partial") = "partial" THEN "full" ELSE "bad")
  /\ UNCHANGED <<ocOn, scOn, ocache>>

Init ==
  /\ ocOn \in ObjCacheOpts /\ scOn \in StmCacheOpts
  /\ ocache = [o \in Objs |-> NoEntry]
  /\ scache = [s \in Streams |-> None]
  /\ ncalls = 0
  /\ last = [call |-> "init", arg |-> 0, typ |-> "-", ans |-> "-"]
  /\ path = <<>>

Next ==
  \/ \E o \in Objs : \E t \in TypesOf[o] : GetAs(o, t)
  \/ \E o \in Objs : Resolve(o)
  \/ \E s \in Streams : Data(s) \/ RawImage(s) \/ Image(s)

Spec == Init /\ [][Next]_vars

-----------------------------------------------------------------------------
\* C12: caches are invisible
Invisible == last.call # "init" => last.ans = Uncached(last.call, last.arg, last.typ)

\* cached entries are truthful about the type they were computed for
CacheTruthful == \A o \in Objs : ocache[o].st # "none" => ocache[o].st = Loads[o][ocache[o].t]

View == <<ocOn, scOn, ocache, scache, ncalls, last>>
=============================================================================
