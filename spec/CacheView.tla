----------------------------- MODULE CacheView -----------------------------
(***************************************************************************)
(* The object cache and the stream cache as seen through the read calls:   *)
(* pdf/src/file.rs StorageResolver::get (cache look-up keyed by reference, *)
(* type-checked downcast with uncached fallback, shared error entries) and *)
(* get_data_or_decode (stream cache keyed by reference; the caller passes  *)
(* the filter subset), pdf/src/object/stream.rs Stream::data,              *)
(* pdf/src/object/types.rs ImageXObject::raw_image_data / image_data.      *)
(*                                                                         *)
(* Prop: the answer to a call never depends on which calls came before:    *)
(* Answer = Uncached(call) in every reachable state, for every cache       *)
(* configuration.                                                          *)
(***************************************************************************)
EXTENDS Naturals, Sequences, FiniteSets, TLC

CONSTANTS Objs,        \* object references
          Types,       \* load types
          TypesOf,     \* Objs -> subset of Types: the types the calls load this object as
          Loads,       \* Objs -> [TypesOf -> "ok" | "err"]: uncached outcome of loading the object as a type
          Partner,     \* Objs -> Objs \cup {0}: o and Partner[o] are /Pages nodes that name each other as /Parent (a cycle of two eager
                       \* typed loads); 0 = none.  Loading one of them as "P" loads the other inside it, which meets the first again:
                       \* "Recursive reference" - fatal in strict mode, swallowed by the optional /Parent entry in tolerant mode
          TolerantOpts,\* subset of BOOLEAN: ParseOptions::tolerant() / strict()
          Streams,     \* stream references (filter chain = normal prefix + image suffix)
          MaxCalls,
          ObjCacheOpts, StmCacheOpts,   \* subsets of BOOLEAN
          Dev

None == "none"
NoEntry == [st |-> "none", t |-> "-"]

VARIABLES ocOn, scOn, tol,   \* configuration
          ocache,       \* Objs -> [st: "none" | "ok" | "err", t: type the entry was computed for]
          scache,       \* Streams -> None | "full" | "partial"
          ncalls,
          last,         \* [call, arg, typ, ans]
          path          \* history (all-behaviours mode: part of the state)

vars == <<ocOn, scOn, tol, ocache, scache, ncalls, last, path>>

Rec(call, arg, typ, ans) ==
  /\ last' = [call |-> call, arg |-> arg, typ |-> typ, ans |-> ans]
  /\ path' = Append(path, [call |-> call, arg |-> arg, typ |-> typ, ans |-> ans])
  /\ ncalls' = ncalls + 1

-----------------------------------------------------------------------------
(* Prop: the uncached answers                                               *)
\* a member of a /Parent cycle loaded on its own: "ok+" = the node with its parent (whose own parent entry was dropped)
InCycle(o, t) == t = "P" /\ Partner[o] # 0
LoadAlone(o, t) == IF InCycle(o, t) THEN (IF tol THEN "ok+" ELSE "err") ELSE Loads[o][t]
\* the same node as it comes out of the nested load inside its partner: its parent entry is the one that was dropped
LoadNested(o) == IF tol THEN "ok-" ELSE "err"
IsOk(st) == st \in {"ok", "ok+", "ok-"}
Uncached(call, arg, typ) ==
  CASE call = "get"      -> LoadAlone(arg, typ)
    [] call = "resolve"  -> "ok"
    [] call = "data"     -> "full"
    [] call = "rawimage" -> "partial"
    [] call = "image"    -> "full"
    [] call = "rawdata"  -> "raw"

-----------------------------------------------------------------------------
(* Mech                                                                     *)

\* The partner of a cycle member is loaded inside that member's load; the value it has there depends on the loads in progress
\* and is not the value it has on its own: it must not be cached (deviation "nested_value_cached": get_or_compute stores
\* whatever the nested call computed)
WithNested(o, t, oc) ==
  LET p == Partner[o] IN
  IF InCycle(o, t) /\ "nested_value_cached" \in Dev /\ oc[p].st = "none" THEN [oc EXCEPT ![p] = [st |-> LoadNested(p), t |-> t]] ELSE oc

\* Resolve::get::<T>(r)
GetAs(o, t) ==
  /\ ncalls < MaxCalls
  /\ LET e == ocache[o] IN
     IF ~ocOn \/ e.st = "none"
     THEN \* compute (and store, when the cache is on).  The partner of a cycle member is loaded inside this load; the value
          \* it has there depends on the loads in progress and is not the value it has on its own: it must not be cached
          \* (deviation "nested_value_cached": get_or_compute stores whatever the nested call computed)
          /\ ocache' = IF ocOn THEN WithNested(o, t, [ocache EXCEPT ![o] = [st |-> LoadAlone(o, t), t |-> t]]) ELSE ocache
          /\ Rec("get", o, t, LoadAlone(o, t))
     ELSE IF IsOk(e.st)
          THEN \* cached value: downcast; on a type mismatch the object is loaded uncached (its nested loads still go through the cache)
               /\ ocache' = IF e.t = t THEN ocache ELSE WithNested(o, t, ocache)
               /\ Rec("get", o, t, IF e.t = t THEN e.st ELSE LoadAlone(o, t))
          ELSE \* cached error
               /\ ocache' = IF "error_cached_across_types" \in Dev \/ e.t = t THEN ocache ELSE WithNested(o, t, ocache)
               /\ Rec("get", o, t, IF "error_cached_across_types" \in Dev \/ e.t = t THEN "err" ELSE LoadAlone(o, t))
  /\ UNCHANGED <<ocOn, scOn, tol, scache>>

\* Resolve::resolve(r): never cached
Resolve(o) ==
  /\ ncalls < MaxCalls
  /\ Rec("resolve", o, "-", "ok")
  /\ UNCHANGED <<ocOn, scOn, tol, ocache, scache>>

\* get_data_or_decode(id, range, filters) with `want` = what the caller's filter subset produces
Decode(s, want) ==
  IF ~scOn THEN want
  ELSE IF scache[s] = None THEN want
  ELSE IF "stream_cache_key_ignores_filters" \in Dev THEN scache[s] ELSE want

Fill(s, want) ==
  scache' = IF scOn /\ scache[s] = None THEN [scache EXCEPT ![s] = want] ELSE scache

\* Stream::data: all filters
Data(s) ==
  /\ ncalls < MaxCalls
  /\ Fill(s, "full")
  /\ Rec("data", s, "-", Decode(s, "full"))
  /\ UNCHANGED <<ocOn, scOn, tol, ocache>>

\* ImageXObject::raw_image_data: only the filters before the image codec
RawImage(s) ==
  /\ ncalls < MaxCalls
  /\ Fill(s, "partial")
  /\ Rec("rawimage", s, "-", Decode(s, "partial"))
  /\ UNCHANGED <<ocOn, scOn, tol, ocache>>

\* ImageXObject::image_data: raw_image_data, then the image codec on top
Image(s) ==
  /\ ncalls < MaxCalls
  /\ Fill(s, "partial")
  /\ Rec("image", s, "-", IF Decode(s, "partial") = "partial" THEN "full" ELSE "bad")
  /\ UNCHANGED <<ocOn, scOn, tol, ocache>>

\* PdfStream::raw_data (Resolve::stream_data): the undecoded bytes, read past the stream cache
\* (deviation "raw_read_through_stream_cache": answered from and stored in the cache that goes by the object number)
RawData(s) ==
  /\ ncalls < MaxCalls
  /\ IF "raw_read_through_stream_cache" \in Dev THEN Fill(s, "raw") ELSE UNCHANGED scache
  /\ Rec("rawdata", s, "-", IF "raw_read_through_stream_cache" \in Dev /\ scOn /\ scache[s] # None THEN scache[s] ELSE "raw")
  /\ UNCHANGED <<ocOn, scOn, tol, ocache>>

Init ==
  /\ ocOn \in ObjCacheOpts /\ scOn \in StmCacheOpts /\ tol \in TolerantOpts
  /\ ocache = [o \in Objs |-> NoEntry]
  /\ scache = [s \in Streams |-> None]
  /\ ncalls = 0
  /\ last = [call |-> "init", arg |-> 0, typ |-> "-", ans |-> "-"]
  /\ path = <<>>

Next ==
  \/ \E o \in Objs : \E t \in TypesOf[o] : GetAs(o, t)
  \/ \E o \in Objs : Resolve(o)
  \/ \E s \in Streams : Data(s) \/ RawImage(s) \/ Image(s) \/ RawData(s)

Spec == Init /\ [][Next]_vars

-----------------------------------------------------------------------------
\* C12: caches are invisible
Invisible == last.call # "init" => last.ans = Uncached(last.call, last.arg, last.typ)

\* cached entries are truthful about the type they were computed for
CacheTruthful == \A o \in Objs : ocache[o].st # "none" => ocache[o].st = LoadAlone(o, ocache[o].t)

View == <<ocOn, scOn, tol, ocache, scache, ncalls, last>>
=============================================================================
