\* witness
CONSTANTS
  Parts = {"pred"}
  MaxHex = 5
  MaxA85 = 6
  MaxRuns = 3
  Samples = {0, 1, 128, 255}
  RowLen = 3
  Dev = {"up_avg_swapped"}
INIT Init
NEXT Next
INVARIANTS PredOk
CHECK_DEADLOCK FALSE
