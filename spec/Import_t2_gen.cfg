\* as built: all graphs over 3 objects (emission)
CONSTANTS
  N = 2
  Categories = {"gs", "font", "xobject", "colorspace"}
  Dev <- AsBuilt
INIT Init
NEXT Next
INVARIANTS ContentEqual Terminates SingleCopy Closure Emit
CHECK_DEADLOCK FALSE
