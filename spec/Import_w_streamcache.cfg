\* witness: the deep clone of a stream reads through the stream cache
CONSTANTS
  N = 1
  Categories = {"xobject"}
  Dev = {"clone_reads_stream_cache"}
INIT Init
NEXT Next
INVARIANTS ContentEqual
CHECK_DEADLOCK FALSE
