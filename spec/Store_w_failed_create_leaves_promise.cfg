\* witness: deviation failed_create_leaves_promise must be refuted
CONSTANTS
  BaseRaw = {1}
  BaseCmp = {2}
  BaseStm = {3}
  MaxNew = 2
  WVals <- MC_WVals
  MaxCalls = 4
  MaxSaves = 2
  Headers = {0, 7}
  CacheModes = {TRUE, FALSE}
  Dev = {"failed_create_leaves_promise"}
INIT Init
NEXT Next
VIEW View
INVARIANTS TypeOK ReadYourWrites SameRef ReloadExact Retry
PROPERTY Prefix
CHECK_DEADLOCK FALSE
