\* intended design with direct typed entries (with_loading): 2 threads, graphs with the direct leaf 4, all modes
CONSTANTS
  Threads <- T2
  Keys <- K4
  DirectKeys <- D4
  MaxRepeats = 2
  DepsOpts <- DirectGraphs
  LoadsOpts <- W_dir
  SharedOpts = {TRUE, FALSE}
  CacheOpts = {TRUE, FALSE}
  Dev = {}
INIT Init
NEXT Next
VIEW View
INVARIANTS TypeOK SequentialAnswers NoPanic ChainMatchesStack InProcHasOwner
CHECK_DEADLOCK TRUE
