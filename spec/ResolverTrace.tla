--------------------------- MODULE ResolverTrace ---------------------------
(***************************************************************************)
(* C13, Engine B: traces recorded from free-running threads are validated  *)
(* against Resolver.tla.  The harness (rx_restrace.rs) records one event   *)
(* per critical section, inside the lock that orders it:                   *)
(*   pushed / recursive / popped     StorageResolver::get (chain mutex;    *)
(*                                   cfg-guarded log points in file.rs)    *)
(*   lpushed / lrecursive / lpopped  StorageResolver::with_loading (same   *)
(*                                   mutex; the key is the direct leaf)    *)
(*   c_skip c_mark c_hit_* c_block c_wake_* c_publish_*                    *)
(*                                   the compute-once cache (its mutex)    *)
(* Runs are concatenated: a `config` event (dependencies, loads, shared    *)
(* resolver, cache on) starts a run, an `end` event carries the answers.   *)
(* Every event must be the corresponding action of Resolver.tla, enabled   *)
(* in the current state for the recorded thread and key; the properties of *)
(* Resolver.tla are checked as invariants along the way.                   *)
(***************************************************************************)
EXTENDS Resolver, Json, IOUtils

Rec == ndJsonDeserialize(IOEnv.TRACE)

VARIABLE l      \* next line of the trace
tvars == <<vars, l>>

ConfOf(r) == [deps |-> r.deps, loads |-> r.loads, shared |-> r.shared, cacheOn |-> r.cacheOn]

StartRun(c) ==
  /\ conf' = c
  /\ stack' = StartStack(c)
  /\ nxt' = StartNxt(c)
  /\ chain' = [x \in ChainIds |-> <<>>]
  /\ cache' = [k \in Keys |-> "absent"]
  /\ results' = [t \in Threads |-> <<>>]
  /\ panicked' = FALSE
  /\ gorder' = <<>>
  /\ seenk' = [t \in Threads |-> {}] /\ reps' = [t \in Threads |-> 0]
  /\ sched' = <<>>

TraceInit ==
  /\ Rec[1].ev = "config"
  /\ conf = ConfOf(Rec[1])
  /\ stack = StartStack(conf)
  /\ nxt = StartNxt(conf)
  /\ chain = [x \in ChainIds |-> <<>>]
  /\ cache = [k \in Keys |-> "absent"]
  /\ results = [t \in Threads |-> <<>>]
  /\ panicked = FALSE
  /\ gorder = <<>>
  /\ seenk = [t \in Threads |-> {}] /\ reps = [t \in Threads |-> 0]
  /\ sched = <<>>
  /\ l = 2

Ev(e) == l <= Len(Rec) /\ Rec[l].ev = e /\ l' = l + 1
T == Rec[l].t
K == Rec[l].k
AtKey == stack[T] # <<>> /\ Top(T).key = K

\* guard
TrPushed    == Ev("pushed")    /\ AtKey /\ ~InSeq(K, chain[ChainOf(T)]) /\ DoGuardEnter(T)
TrRecursive == Ev("recursive") /\ AtKey /\ InSeq(K, chain[ChainOf(T)])  /\ DoGuardEnter(T)
TrPopped    == Ev("popped")    /\ AtKey /\ DoGuardExit(T)
\* with_loading (a direct typed entry given by reference: the key is in DirectKeys)
TrLPushed    == Ev("lpushed")    /\ AtKey /\ ~InSeq(K, chain[ChainOf(T)]) /\ DoLoadEnter(T)
TrLRecursive == Ev("lrecursive") /\ AtKey /\ InSeq(K, chain[ChainOf(T)])  /\ DoLoadEnter(T)
TrLPopped    == Ev("lpopped")    /\ AtKey /\ DoLoadExit(T)
\* cache
TrSkip      == Ev("c_skip")    /\ AtKey /\ ~CacheOn /\ DoCacheEnter(T)
TrMark      == Ev("c_mark")    /\ AtKey /\ CacheOn /\ cache[K] = "absent" /\ DoCacheEnter(T)
TrHitOk     == Ev("c_hit_ok")  /\ AtKey /\ CacheOn /\ cache[K] = "ok"     /\ DoCacheEnter(T)
TrHitErr    == Ev("c_hit_err") /\ AtKey /\ CacheOn /\ cache[K] = "err"    /\ DoCacheEnter(T)
\* (t is bound before priming: T reads the current line, and l is primed too)
TrBlock     == Ev("c_block")   /\ AtKey /\ CacheOn /\ cache[K] = "inproc" /\ DoCacheEnter(T)
               /\ LET t == T IN stack'[t][Len(stack'[t])].pc = "blocked"
TrWakeOk    == Ev("c_wake_ok") /\ AtKey /\ cache[K] = "ok"  /\ DoWake(T)
TrWakeErr   == Ev("c_wake_err") /\ AtKey /\ cache[K] = "err" /\ DoWake(T)
TrPubOk     == Ev("c_publish_ok")  /\ AtKey /\ Top(T).res = "ok"  /\ DoCachePublish(T)
TrPubErr    == Ev("c_publish_err") /\ AtKey /\ Top(T).res = "err" /\ DoCachePublish(T)
\* end of a run: every thread is done and returned exactly the recorded answers
TrEnd       == Ev("end") /\ AllDone /\ \A t \in Threads : results[t] = Rec[l].results[t] /\ UNCHANGED vars
\* next run
TrConfig    == Ev("config") /\ AllDone /\ StartRun(ConfOf(Rec[l]))

TraceNext == TrPushed \/ TrRecursive \/ TrPopped \/ TrSkip \/ TrMark \/ TrHitOk \/ TrHitErr \/ TrBlock
             \/ TrWakeOk \/ TrWakeErr \/ TrPubOk \/ TrPubErr \/ TrEnd \/ TrConfig
             \/ TrLPushed \/ TrLRecursive \/ TrLPopped

TraceSpec == TraceInit /\ [][TraceNext]_tvars

\* TraceInit consumed line 1, every step one more line: the longest behaviour has Len(Rec) states
TraceAccepted ==
  LET d == TLCGet("stats").diameter IN
  IF d = Len(Rec) THEN TRUE
  ELSE Print(<<"TRACE-REJECTED at line", d + 1, Rec[d + 1]>>, FALSE)

TraceView == <<mvars, l>>
=============================================================================
