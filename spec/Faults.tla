------------------------------- MODULE Faults -------------------------------
(***************************************************************************)
(* C01 (structural part) - opening and walking a damaged file.             *)
(*                                                                         *)
(* A base layout (classic table, cross-reference stream + object stream,   *)
(* two revisions chained by /Prev, encrypted) is damaged at fault points:  *)
(* each fault point is a quantity some stage of the reader consumes (an    *)
(* offset, a count, a length, a field width, a keyword that delimits an    *)
(* object) and a set of damaged values for it.  The reader is a pipeline   *)
(* of stages (pdf/src/backend.rs locate_xref_offset / read_xref_table_and_ *)
(* trailer, pdf/src/parser/parse_xref.rs, pdf/src/file.rs load_storage_and *)
(* _trailer_password / resolve_ref, pdf/src/parser/parse_object.rs,        *)
(* pdf/src/parser/parse_stream, pdf/src/object/stream.rs ObjectStream,     *)
(* File::scan); every stage validates what it consumes before using it:    *)
(*                                                                         *)
(*   stage       guard                                                     *)
(*   header      search window of 1024 bytes, "%PDF-" must be found        *)
(*   startxref   backwards search, number parsed, offset < file length     *)
(*   section     `xref` keyword or object header, subsection counts vs     *)
(*               entries present, entry number < MAX_ID, /W widths <= 8,   *)
(*               /Index pairs, entry type known                            *)
(*   trailer     dictionary parse, /Size range, /Root present              *)
(*   prev        offset < file length, `seen` list stops loops             *)
(*   entry       offset < file length, `n g obj` header matches            *)
(*   object      nesting <= MAX_DEPTH, token bounds, endobj                *)
(*   stream      /Length resolves to an integer, data range inside file,   *)
(*               endstream found (tolerant: searched)                      *)
(*   objstm      /N and /First inside the decoded data, index < /N         *)
(*   scan        every position advances                                   *)
(*                                                                         *)
(* Prop: whatever the damage, every stage ends in `ok` or `err` and the    *)
(* pipeline terminates.  Dev switches remove one guard each.               *)
(***************************************************************************)
EXTENDS Naturals, Sequences, FiniteSets, TLC

CONSTANTS
  Layouts,        \* set of layout records [name, points], points = set of [name, stage, values, fatal]
  Stages,         \* the pipeline, in order
  MaxFaults,      \* how many fault points are damaged at once
  Dev

VARIABLES
  layout,
  damage,     \* fault point name -> value name ("intact" = not damaged)
  stage,      \* index into Stages of the stage about to run, Len+1 = finished
  outcome,    \* "running" | "ok" | "err" | "panic" | "hang"
  seen,       \* number of /Prev links followed so far
  steps

vars == <<layout, damage, stage, outcome, seen, steps>>

PointNames(l) == {p.name : p \in l.points}
PointsAt(l, s) == {p \in l.points : p.stage = s}
Damaged(d) == {n \in DOMAIN d : d[n] # "intact"}

\* all damage assignments with at most k damaged points (built point by point to keep the enumeration small)
RECURSIVE Assignments(_, _, _)
Assignments(ps, k, acc) ==
  IF ps = {} THEN {acc}
  ELSE LET p == CHOOSE q \in ps : TRUE
           rest == ps \ {p}
           intact == Assignments(rest, k, acc @@ (p.name :> "intact"))
       IN IF k = 0 THEN intact
          ELSE intact \cup UNION {Assignments(rest, k - 1, acc @@ (p.name :> v)) : v \in p.values}

Init ==
  /\ layout \in Layouts
  /\ damage \in Assignments(layout.points, MaxFaults, <<>>)
  /\ stage = 1
  /\ outcome = "running"
  /\ seen = 0
  /\ steps = 0

StageName == Stages[stage]
Guarded(s) == ("unchecked:" \o s) \notin Dev

\* one stage of the reader consumes its quantities.  A damaged quantity is detected by the stage's guard
\* (outcome err, or - for damage the reader tolerates, `fatal = FALSE` - the stage repairs it and goes on);
\* without the guard the damaged value is used: an index or slice out of range (panic) or a loop that
\* does not advance (hang).
RunStage ==
  /\ outcome = "running" /\ stage <= Len(Stages)
  /\ LET s == StageName
         hit == {p \in PointsAt(layout, s) : damage[p.name] # "intact" /\ ~(s = "prev" /\ damage[p.name] \in {"self", "cycle"})}
         fatal == {p \in hit : p.fatal}
     IN /\ IF hit = {} THEN /\ outcome' = (IF stage = Len(Stages) THEN "ok" ELSE "running")
                             /\ stage' = stage + 1
           ELSE IF ~Guarded(s) THEN /\ outcome' = (IF \E p \in hit : p.loops THEN "hang" ELSE "panic")
                                    /\ stage' = stage
           ELSE IF fatal # {} THEN outcome' = "err" /\ stage' = stage
           ELSE /\ outcome' = (IF stage = Len(Stages) THEN "ok" ELSE "running")
                /\ stage' = stage + 1
        /\ steps' = steps + 1
        /\ UNCHANGED <<layout, damage, seen>>

\* the /Prev chain: a damaged /Prev that points at a section already read makes the reader come back to the
\* section stage; the `seen` list (backend.rs) stops that after one round
PrevLoop ==
  /\ outcome = "running" /\ stage <= Len(Stages) /\ StageName = "prev"
  /\ \E p \in PointsAt(layout, "prev") : damage[p.name] \in {"self", "cycle"}
  /\ IF "no_seen_list" \in Dev
     THEN /\ seen' = seen + 1 /\ stage' = stage /\ outcome' = outcome      \* reads the same section again, forever
     ELSE /\ seen' = seen /\ stage' = stage /\ outcome' = "err"
  /\ steps' = steps + 1
  /\ UNCHANGED <<layout, damage>>

Done == outcome # "running" /\ UNCHANGED vars

Next == RunStage \/ PrevLoop \/ Done
Spec == Init /\ [][Next]_vars /\ WF_vars(RunStage \/ PrevLoop)

TypeOK == outcome \in {"running", "ok", "err", "panic", "hang"}
OutcomeOk == outcome \in {"running", "ok", "err"}
Bounded == steps <= Len(Stages) + 2 /\ seen <= 1
Terminates == <>(outcome # "running")
Constraint == steps <= Len(Stages) + 3
=============================================================================
