------------------------------- MODULE XRef -------------------------------
(***************************************************************************)
(* Cross-reference histories of a PDF file and the reader that merges them *)
(* (pdf/src/backend.rs read_xref_table_and_trailer, pdf/src/xref.rs        *)
(* add_entries_from, pdf/src/file.rs resolve_ref).                         *)
(*                                                                         *)
(* Writer side (Prop vocabulary): a file is a sequence `hist` of sections  *)
(* (original body + incremental updates).  Each section has a format and a *)
(* partial map object number -> entry.  Well-formedness follows ISO 32000: *)
(* a freed number gets generation g+1, a re-used number keeps that         *)
(* generation, compressed objects have generation 0.                       *)
(*                                                                         *)
(* Reader side (Mech): one action per loop body of the reader: find the    *)
(* newest section via startxref, merge it, follow /Prev (with the `seen`   *)
(* list), merge, ..., finish.  The per-entry merge rule is parameterised   *)
(* by the deviation switches in Dev.                                       *)
(***************************************************************************)
EXTENDS Naturals, Sequences, FiniteSets, TLC

CONSTANTS NObj,          \* object numbers 1..NObj
          MaxSections,   \* bound on Len(hist)
          AllowRestate,  \* BOOLEAN: a section may repeat the current entry of an object
          Dev            \* set of deviation switches (strings); {} = intended design

Objs == 1..NObj
Fmts == {"table", "stream"}

None == [k |-> "none", g |-> 0, v |-> 0]
Entry(k, g, v) == [k |-> k, g |-> g, v |-> v]

VARIABLES hist,     \* Seq of [fmt, ch], ch : Objs -> Entry
          cur,      \* Objs -> Entry: newest mention so far (writer's view; ghost)
          phase,    \* "write" | "read" | "done"
          table,    \* reader: Objs -> Entry   ("none" = Invalid)
          cursor,   \* reader: index of the section to merge next (0 = chain ended)
          seen,     \* reader: set of section indices already visited
          trailer   \* reader: index of the section whose trailer is reported

vars == <<hist, cur, phase, table, cursor, seen, trailer>>

-----------------------------------------------------------------------------
(* Writer: all well-formed update histories                                 *)

\* entries object o may carry in a new section of format f, given its current state c;
\* sec = index of the new section; fresh values are sec*100+o so staleness is observable
Choices(o, c, f, sec) ==
  LET fresh == sec * 100 + o IN
  {None}
  \cup (CASE c.k = "none" -> {Entry("dir", 0, fresh)}
                              \cup (IF f = "stream" THEN {Entry("cmp", 0, fresh)} ELSE {})
                              \cup (IF sec = 1 THEN {Entry("free", 0, 0)} ELSE {})   \* a number the original lists as free, never used
          [] c.k = "dir"  -> {Entry("dir", c.g, fresh), Entry("free", c.g + 1, 0)}
                              \cup (IF f = "stream" /\ c.g = 0 THEN {Entry("cmp", 0, fresh)} ELSE {})
          [] c.k = "cmp"  -> {Entry("dir", 0, fresh), Entry("free", 1, 0)}
                              \cup (IF f = "stream" THEN {Entry("cmp", 0, fresh)} ELSE {})
          [] c.k = "free" -> {Entry("dir", c.g, fresh)})
  \cup (IF AllowRestate /\ c.k # "none" /\ (c.k = "cmp" => f = "stream") THEN {c} ELSE {})

AppendSection ==
  /\ phase = "write"
  /\ Len(hist) < MaxSections
  /\ \E f \in Fmts :
       \E ch \in [Objs -> UNION {Choices(o, cur[o], f, Len(hist) + 1) : o \in Objs}] :
          /\ \A o \in Objs : ch[o] \in Choices(o, cur[o], f, Len(hist) + 1)
          /\ \E o \in Objs : ch[o].k # "none"
          /\ hist' = Append(hist, [fmt |-> f, ch |-> ch])
          /\ cur' = [o \in Objs |-> IF ch[o].k # "none" THEN ch[o] ELSE cur[o]]
  /\ UNCHANGED <<phase, table, cursor, seen, trailer>>

-----------------------------------------------------------------------------
(* Prop: what resolving an object number must yield                         *)

RECURSIVE Newest(_, _)
Newest(o, i) == IF i = 0 THEN None
                ELSE IF hist[i].ch[o].k # "none" THEN hist[i].ch[o] ELSE Newest(o, i - 1)

\* abstract answer of resolve(o): a value, or "absent" (free / missing / never defined)
Answer(e) == IF e.k \in {"dir", "cmp"} THEN [k |-> "val", v |-> e.v] ELSE [k |-> "absent", v |-> 0]

Ideal == [o \in Objs |-> Answer(Newest(o, Len(hist)))]

-----------------------------------------------------------------------------
(* Mech: the reader                                                         *)

\* generation the reader attributes to an incoming entry (xref.rs get_gen_nr)
GenOf(e) == IF e.k = "cmp" THEN 0 ELSE e.g

\* xref.rs add_entries_from: should the entry already in the table be replaced?
ShouldUpdate(dst, inc) ==
  CASE dst.k = "none" -> TRUE                                     \* Invalid
    [] dst.k \in {"dir", "free"} ->
         IF "merge_ge" \in Dev THEN GenOf(inc) >= dst.g ELSE GenOf(inc) > dst.g
    [] dst.k = "cmp" -> "stream_entry_overwritten" \in Dev         \* as built before the repair

StartRead ==
  /\ phase = "write"
  /\ Len(hist) >= 1
  /\ phase' = "read"
  /\ cursor' = Len(hist)            \* startxref -> newest section
  /\ trailer' = Len(hist)
  /\ UNCHANGED <<hist, cur, table, seen>>

\* one iteration of the /Prev walk: merge section `cursor`, then follow its /Prev
MergeSection ==
  /\ phase = "read"
  /\ cursor # 0
  /\ LET s == hist[cursor] IN
       table' = [o \in Objs |->
                   IF s.ch[o].k # "none" /\ ShouldUpdate(table[o], s.ch[o])
                   THEN s.ch[o] ELSE table[o]]
  /\ seen' = seen \cup {cursor}
  /\ cursor' = IF "prev_skips_one" \in Dev /\ cursor > 2 THEN cursor - 2 ELSE cursor - 1
  /\ UNCHANGED <<hist, cur, phase, trailer>>

Finish ==
  /\ phase = "read"
  /\ cursor = 0
  /\ phase' = "done"
  /\ UNCHANGED <<hist, cur, table, cursor, seen, trailer>>

MechResult == [o \in Objs |-> Answer(table[o])]

-----------------------------------------------------------------------------
Init ==
  /\ hist = <<>>
  /\ cur = [o \in Objs |-> None]
  /\ phase = "write"
  /\ table = [o \in Objs |-> None]
  /\ cursor = 0
  /\ seen = {}
  /\ trailer = 0

Next == AppendSection \/ StartRead \/ MergeSection \/ Finish

Spec == Init /\ [][Next]_vars

-----------------------------------------------------------------------------
(* Properties                                                               *)

TypeOK ==
  /\ phase \in {"write", "read", "done"}
  /\ cursor \in 0..MaxSections
  /\ Len(hist) <= MaxSections

\* C02: the merged table answers every object number with its newest mention
NewestWins == phase = "done" => MechResult = Ideal

\* the reported trailer is the newest section's
TrailerNewest == phase = "done" => trailer = Len(hist)

\* every section of the chain was visited exactly once
AllVisited == phase = "done" => seen = 1..Len(hist)

\* ghost consistency: the writer's running view equals the Prop definition
GhostOK == \A o \in Objs : cur[o] = Newest(o, Len(hist))

\* well-formedness of generated histories (sanity of the generator itself)
GensMonotone ==
  \A o \in Objs : \A i, j \in 1..Len(hist) :
     (i < j /\ hist[i].ch[o].k # "none" /\ hist[j].ch[o].k # "none")
        => GenOf(hist[i].ch[o]) <= GenOf(hist[j].ch[o])
=============================================================================
