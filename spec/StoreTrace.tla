----------------------------- MODULE StoreTrace -----------------------------
(***************************************************************************)
(* C09, Engine B: call traces recorded from a real open document (random   *)
(* driver, harness/src/rx_storetrace.rs) are validated against Store.tla.  *)
(* One line per public call: operation, reference, value written, returned *)
(* reference, ok / err, what EVERY reference resolves to afterwards, for a *)
(* `get` the typed value it returned, for a successful `save` what a       *)
(* reload of the written bytes resolves to.  A line is accepted iff it is  *)
(* the Store.tla action with these arguments, enabled in the current       *)
(* state, AND the recorded observations equal the model's (MechRes,        *)
(* TypedGet, MechDisk).  Store.tla's invariants are checked on the way.    *)
(* Runs are concatenated; a `config` line (header offset, cache mode)      *)
(* starts a run.                                                           *)
(***************************************************************************)
EXTENDS Store, Json, IOUtils, SequencesExt

Rec == ndJsonDeserialize(IOEnv.TRACE)
VARIABLE l
tvars == <<vars, l>>

SetOf(s) == ToSet(s)
\* the unserialisable value is a copy of the base stream: reading it gives that stream
Norm(v) == IF v = Bad THEN {"#S"} ELSE v
ObsOk(f, o) == \A i \in Ids : Norm(f[i]) = SetOf(o[i])

Reset(h, c) ==
  /\ hdr' = h /\ cached' = c
  /\ kind' = [i \in Ids |-> IF i \in BaseCmp THEN "cmp" ELSE IF i \in Base THEN "raw" ELSE "none"]
  /\ changes' = [i \in Ids |-> NoVal]
  /\ disk' = [i \in Ids |-> IF i \in Base THEN BaseVal(i) ELSE NoVal]
  /\ ocache' = [i \in Ids |-> NoVal]
  /\ nnew' = 0 /\ unfulf' = {}
  /\ expected' = [i \in Ids |-> NoVal]
  /\ backend' = <<"base">>
  /\ calls' = 0 /\ saves' = 0 /\ stuck' = FALSE /\ savedOk' = FALSE
  /\ last' = [op |-> "init", r |-> 0, v |-> NoVal, ret |-> 0, res |-> "ok"]
  /\ path' = <<>>

TraceInit ==
  /\ Rec[1].ev = "config"
  /\ hdr = Rec[1].hdr /\ cached = Rec[1].cached
  /\ kind = [i \in Ids |-> IF i \in BaseCmp THEN "cmp" ELSE IF i \in Base THEN "raw" ELSE "none"]
  /\ changes = [i \in Ids |-> NoVal]
  /\ disk = [i \in Ids |-> IF i \in Base THEN BaseVal(i) ELSE NoVal]
  /\ ocache = [i \in Ids |-> NoVal]
  /\ nnew = 0 /\ unfulf = {}
  /\ expected = [i \in Ids |-> NoVal]
  /\ backend = <<"base">>
  /\ calls = 0 /\ saves = 0 /\ stuck = FALSE /\ savedOk = FALSE
  /\ last = [op |-> "init", r |-> 0, v |-> NoVal, ret |-> 0, res |-> "ok"]
  /\ path = <<>>
  /\ l = 2

Ev(e) == l <= Len(Rec) /\ Rec[l].ev = e /\ l' = l + 1
\* the observation recorded with the current line, compared with the model's state after the action
After(e) == LET o == Rec[l].obs IN e /\ ObsOk(MechRes', o)

TrCreate  == Ev("create")  /\ LET rec == Rec[l] IN After(Create(SetOf(rec.v))) /\ last'.ret = rec.ret /\ rec.res = "ok"
TrUpdate  == Ev("update")  /\ LET rec == Rec[l] IN After(Update(rec.r, SetOf(rec.v))) /\ last'.ret = rec.ret /\ rec.res = "ok"
TrPromise == Ev("promise") /\ LET rec == Rec[l] IN After(Promise) /\ last'.ret = rec.ret
TrFulfil  == Ev("fulfil")  /\ LET rec == Rec[l] IN After(Fulfil(rec.r, SetOf(rec.v))) /\ last'.ret = rec.ret /\ rec.res = "ok"
\* the typed load returns the cached value if there is one
TrGet     == Ev("get")     /\ LET rec == Rec[l] IN After(Get(rec.r)) /\ Norm(TypedGet(rec.r)) = SetOf(rec.gobs)
TrSave    == Ev("save")    /\ LET rec == Rec[l] IN
                                /\ After(Save)
                                /\ last'.res = rec.res
                                /\ (rec.res = "ok" => ObsOk(MechDisk', rec.reload))
TrConfig  == Ev("config")  /\ Reset(Rec[l].hdr, Rec[l].cached)

TraceNext == TrCreate \/ TrUpdate \/ TrPromise \/ TrFulfil \/ TrGet \/ TrSave \/ TrConfig
TraceSpec == TraceInit /\ [][TraceNext]_tvars

TraceAccepted ==
  LET d == TLCGet("stats").diameter IN
  IF d = Len(Rec) THEN TRUE
  ELSE Print(<<"TRACE-REJECTED at line", d + 1, Rec[d + 1]>>, FALSE)

\* the history variable `path` is not needed here and would only grow
TraceView == <<mvars, last, l>>
=============================================================================
