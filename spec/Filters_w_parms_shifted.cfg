\* witness
CONSTANTS
  Parts = {"chain"}
  MaxHex = 5
  MaxA85 = 6
  MaxRuns = 3
  Samples = {0, 1, 128, 255}
  RowLen = 3
  Dev = {"parms_shifted"}
INIT Init
NEXT Next
INVARIANTS ChainOk
CHECK_DEADLOCK FALSE
