\* backslash ( ) 1 7 8 n x CR LF
CONSTANTS
  Bytes = {92, 40, 41, 49, 55, 56, 110, 120, 13, 10}
  MaxLen = 6
  Dev = {}
INIT Init
NEXT Next
INVARIANTS SameString EndInside Emit
CHECK_DEADLOCK FALSE
