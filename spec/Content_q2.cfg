\* quick: all sequences <= 2 over the full alphabet (61 operations)
CONSTANTS
  Alphabet <- FullAlphabet
  MaxLen = 2
  Dev = {}
INIT Init
NEXT Next
INVARIANTS RoundTrip PrefixParsed Emit
CHECK_DEADLOCK FALSE
