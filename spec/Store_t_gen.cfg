\* thorough generation: transition cover <= 5 calls
CONSTANTS
  BaseRaw = {1}
  BaseCmp = {2}
  BaseStm = {3}
  MaxNew = 2
  WVals <- MC_WVals
  MaxCalls = 5
  MaxSaves = 3
  Headers = {0, 7}
  CacheModes = {TRUE, FALSE}
  Dev <- AsBuilt
INIT Init
NEXT Next
VIEW View
INVARIANT Emit
CHECK_DEADLOCK FALSE
