\* thorough: codes 0..5 x 4 targets; texts of <= 3 entries
CONSTANTS
  MaxCode = 5
  Targets <- MC_Targets
  MaxEntries = 3
  Modes = {"rt", "text"}
  Dev = {}
INIT Init
NEXT Next
INVARIANTS ReadsBack WriterDenotes Emit
CHECK_DEADLOCK FALSE
