\* quick: hex strings <= 5, ascii85 structures <= 6, <= 3 runs, predictor rows of 3 bytes over 4 sample values (both rows), chains <= 3
CONSTANTS
  Parts = {"hex", "a85", "rl", "pred", "chain"}
  MaxHex = 5
  MaxA85 = 6
  MaxRuns = 3
  Samples = {0, 1, 128, 255}
  RowLen = 3
  Dev = {}
INIT Init
NEXT Next
INVARIANTS HexOk A85Ok RLOk PredOk ChainOk Emit
CHECK_DEADLOCK FALSE
