\* witness: counters of repeated loads that are only reset when no thread has a load in progress must be refuted
CONSTANTS
  Threads <- T2
  Keys <- K3
  DirectKeys = {}
  MaxRepeats = 2
  DepsOpts <- G_rep
  LoadsOpts <- W_rep
  SharedOpts = {TRUE}
  CacheOpts = {TRUE, FALSE}
  Dev = {"budget_reset_needs_idle_resolver"}
INIT Init
NEXT Next
VIEW View
INVARIANTS SequentialAnswers NoPanic
CHECK_DEADLOCK TRUE
