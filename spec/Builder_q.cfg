\* quick: page lists of 0..3 pages over 4 page kinds x 3 info variants
CONSTANTS
  PageKinds <- PK_small
  MaxPages = 3
  Infos = {"none", "title", "title+dates"}
  Dev = {}
INIT Init
NEXT Next
INVARIANTS NoDanglingRefs NothingPromised SizeAboveAll PagesReadBack Emit
CHECK_DEADLOCK FALSE
