\* witness: the deviation "prev_skips_one" must be refuted (NewestWins / AllVisited violated)
CONSTANTS
  NObj = 1
  MaxSections = 3
  AllowRestate = FALSE
  Dev = {"prev_skips_one"}
INIT Init
NEXT Next
INVARIANTS NewestWins AllVisited
CHECK_DEADLOCK FALSE
