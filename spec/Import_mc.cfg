\* intended design: all source graphs over 3 objects x roots x resources of 2 categories
CONSTANTS
  N = 3
  Categories = {"gs", "colorspace"}
  Dev = {}
INIT Init
NEXT Next
INVARIANTS ContentEqual Terminates SingleCopy Closure UsedResourcesCopied
CHECK_DEADLOCK FALSE
