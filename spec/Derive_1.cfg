\* all presence patterns, TagRequired=TRUE HasOther=TRUE
CONSTANTS
  TagRequired = TRUE
  HasOther = TRUE
  Dev = {}
INIT Init
NEXT Next
INVARIANTS Idempotent Rereadable Preserves Emit
CHECK_DEADLOCK FALSE
