\* quick: every single page of the full page-kind product (144 kinds)
CONSTANTS
  PageKinds <- PK_full
  MaxPages = 1
  Infos = {"none", "title", "title+dates"}
  Dev = {}
INIT Init
NEXT Next
INVARIANTS NoDanglingRefs NothingPromised SizeAboveAll PagesReadBack Emit
CHECK_DEADLOCK FALSE
