\* as built: ALL call sequences of length 3 over the two members of a /Parent cycle (and an ordinary node), strict and tolerant
CONSTANTS
  Objs = {1, 30, 31}
  Types = {"P", "D", "VM", "VR"}
  TypesOf <- MC_TypesOfC
  Loads <- MC_LoadsC
  Partner <- MC_Partner
  TolerantOpts = {TRUE, FALSE}
  Streams = {}
  MaxCalls = 3
  ObjCacheOpts = {TRUE, FALSE}
  StmCacheOpts = {FALSE}
  Dev <- AsBuiltC
INIT Init
NEXT Next
INVARIANTS Emit
CHECK_DEADLOCK FALSE
