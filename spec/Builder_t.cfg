\* thorough: page lists of 0..2 pages over the full product
CONSTANTS
  PageKinds <- PK_full
  MaxPages = 2
  Infos = {"none", "title", "title+dates"}
  Dev = {}
INIT Init
NEXT Next
INVARIANTS NoDanglingRefs NothingPromised SizeAboveAll PagesReadBack Emit
CHECK_DEADLOCK FALSE
