\* quick: 9 kinds x containers of <= 2 members x position x trailing ws x filter x header separator x /Length storage
CONSTANTS
  Kinds <- MC_KindsQ
  BigN = 60
  MaxN = 2
  Filters = {"none", "flate"}
  HdrSeps = {"sp", "nl", "tight"}
  LenStores = {"direct", "raw", "cmp"}
  Dev = {}
INIT Init
NEXT Next
INVARIANTS TwinEqual SliceExact Emit
CHECK_DEADLOCK FALSE
