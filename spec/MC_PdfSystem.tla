--------------------------- MODULE MC_PdfSystem ---------------------------
EXTENDS PdfSystem, Json
StepJson(s) == [op |-> s.op, r |-> s.r, v |-> s.v, ret |-> s.ret, cached |-> s.cached,
                ideal |-> [i \in Ids |-> s.ideal[i]], mech |-> (IF s.mech = s.ideal THEN <<>> ELSE [i \in Ids |-> s.mech[i]])]
CaseJson == [nbase |-> NBase, dev |-> Dev, path |-> [k \in 1..Len(path) |-> StepJson(path[k])]]
\* one line per distinct (state, last call): its shortest call path
Emit == ncalls > 0 => PrintT(<<"CASE", ToJson(CaseJson)>>)
=============================================================================
