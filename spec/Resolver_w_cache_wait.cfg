\* witness: unbounded wait in the compute-once cache deadlocks on cyclic dependencies
CONSTANTS
  Threads <- T2
  Keys <- K3
  DirectKeys = {}
  MaxRepeats = 2
  DepsOpts <- CyclicGraphs
  LoadsOpts <- W2_1
  SharedOpts = {TRUE, FALSE}
  CacheOpts = {TRUE}
  Dev = {"cache_wait_unbounded"}
INIT Init
NEXT Next
VIEW View
INVARIANTS SequentialAnswers NoPanic NoStuck
CHECK_DEADLOCK TRUE
