\* as built, cover mode: one shortest schedule per distinct state, repeated top-level loads (bound on repeated loads = 2)
CONSTANTS
  Threads <- T2
  Keys <- K3
  DirectKeys = {}
  MaxRepeats = 2
  DepsOpts <- G_rep
  LoadsOpts <- W_rep
  SharedOpts = {TRUE, FALSE}
  CacheOpts = {TRUE, FALSE}
  Dev <- AsBuilt
INIT Init
NEXT Next
VIEW View
INVARIANT EmitAll
CHECK_DEADLOCK FALSE
